#!/bin/sh
# runs the repository's pinned suite with the verification guard OFF and compares with BASELINE.json's stable_pass list
unset KAPPADATA_VERIF
out=$(mktemp -d)
cd /repo && /venv/bin/python -m pytest -ra -q -p no:cacheprovider --timeout=900 --continue-on-collection-errors --junitxml="$out/run.xml" > "$out/run.log" 2>&1
tail -3 "$out/run.log"
/venv/bin/python - "$out/run.xml" <<'PY'
import json, sys, xml.etree.ElementTree as ET, os
xml = ET.parse(sys.argv[1]).getroot()
passed = set()
for tc in xml.iter("testcase"):
    if not any(ch.tag in ("failure", "error", "skipped") for ch in tc):
        passed.add(f"{tc.get('classname')}::{tc.get('name')}")
bl = "/root/.vp/BASELINE.json"
if os.path.exists(bl):
    stable = set(json.load(open(bl))["stable_pass"])
    missing = sorted(stable - passed)
    print(f"stable_pass={len(stable)} passing_now={len(stable & passed)} missing={len(missing)}")
    for m in missing[:20]:
        print("  MISSING", m)
    sys.exit(1 if missing else 0)
print(f"passed={len(passed)} (no BASELINE.json to compare against)")
PY
rc=$?
rm -rf "$out"
exit $rc
