#!/venv/bin/python
"""regenerates the table of DESIGN.md §7.5 (between the markers) from /verif/seeded/*/meta.json and prints the counts"""
import json
import re
import sys
from pathlib import Path

V = Path(__file__).resolve().parent.parent
rows, n_first, n_after, n_cross = [], 0, 0, 0
per_wave = {}
for d in sorted((V / "seeded").iterdir()):
    m = json.loads((d / "meta.json").read_text())
    checks = m.get("checks", {})
    by = [c for c, rs in checks.items() if any(r["exit"] == 1 for r in rs)]
    keys = []
    for c in by:
        for r in checks[c]:
            for k in r["violation_keys"]:
                if k not in keys:
                    keys.append(k)
    first = m.get("first_run", "")
    if first.startswith("MISSED"):
        when = "after strengthening"; n_after += 1
    elif first.startswith("not observable"):
        when = "cross-property"; n_cross += 1
    else:
        when = "first run"; n_first += 1
    if not by:
        when = "NOT REPORTED"
    w = re.match(r"C\d\d-(w\d)-", d.name)
    per_wave.setdefault(w.group(1) if w else "w1/w2", [0, 0, 0])[["first run", "after strengthening", "cross-property"].index(when) if when != "NOT REPORTED" else 0] += 1
    rows.append(f"| `{d.name}` | {', '.join(by)} | {'; '.join(keys[:2])} | {when} |")
table = "\n".join(["| seeded change (directory under /verif/seeded) | reported by | violation keys (first two) | when |", "|---|---|---|---|"] + rows)
p = V / "DESIGN.md"
s = p.read_text()
a, b = "<!-- seeded-table-begin -->", "<!-- seeded-table-end -->"
if a in s:
    s = s[:s.index(a) + len(a)] + "\n" + table + "\n" + s[s.index(b):]
    p.write_text(s)
print(f"total={len(rows)} first={n_first} after={n_after} cross={n_cross} not_reported={sum('NOT REPORTED' in r for r in rows)}")
print(per_wave)
