#!/venv/bin/python
"""Evaluate one seeded change against the checks, on a scratch copy of /repo (never /repo itself).

usage: try_seed.py <dir with patch.diff, demo.py, meta.json> [--checks C04,C05] [--suite] [--tier quick] [--seeds 0,1]
prints a JSON summary: demo on pristine / with change, (optionally) repository test-suite result, per check: exit code + violation keys
"""
import argparse
import json
import os
import shutil
import subprocess
import sys
import tempfile
from pathlib import Path

VERIF = Path(__file__).resolve().parent.parent
PY = "/venv/bin/python"


def sh(cmd, cwd=None, env=None, timeout=3600):
    p = subprocess.run(cmd, cwd=cwd, env=env, capture_output=True, text=True, timeout=timeout)
    return p.returncode, p.stdout + p.stderr


def main():
    ap = argparse.ArgumentParser()
    ap.add_argument("seed_dir")
    ap.add_argument("--checks")
    ap.add_argument("--suite", action="store_true")
    ap.add_argument("--tier", default="quick")
    ap.add_argument("--seeds", default="0")
    a = ap.parse_args()
    sd = Path(a.seed_dir).resolve()
    meta = json.loads((sd / "meta.json").read_text()) if (sd / "meta.json").exists() else {}
    checks = a.checks.split(",") if a.checks else [meta.get("property")]
    scratch = Path(tempfile.mkdtemp(prefix="tryseed_"))
    out = {"seed": str(sd), "checks": {}}
    try:
        repo = scratch / "repo"
        shutil.copytree("/repo", repo, ignore=shutil.ignore_patterns(".git", "__pycache__"))
        env0 = dict(os.environ, PYTHONPATH="/repo", PYTHONDONTWRITEBYTECODE="1", OMP_NUM_THREADS="2", MKL_NUM_THREADS="2")
        env1 = dict(os.environ, PYTHONPATH=str(repo), PYTHONDONTWRITEBYTECODE="1", OMP_NUM_THREADS="2", MKL_NUM_THREADS="2")
        demo = sd / "demo.py"
        if demo.exists():
            rc0, o0 = sh([PY, str(demo)], cwd=str(scratch), env=env0, timeout=600)
            out["demo_pristine_rc"] = rc0
        rc, o = sh(["git", "apply", "--unsafe-paths", f"--directory={repo}", str(sd / "patch.diff")], cwd="/")
        if rc != 0:
            rc, o = sh(["patch", "-p1", "-d", str(repo), "-i", str(sd / "patch.diff")])
        out["apply_rc"] = rc
        if rc != 0:
            out["apply_output"] = o[-500:]
            print(json.dumps(out, indent=1))
            return 2
        if demo.exists():
            rc1, o1 = sh([PY, str(demo)], cwd=str(scratch), env=env1, timeout=600)
            out["demo_changed_rc"] = rc1
            out["demo_changed_tail"] = o1.strip().splitlines()[-1][:300] if o1.strip() else ""
        if a.suite:
            rc, o = sh([PY, "-m", "pytest", "-q", "-p", "no:cacheprovider", "--deselect", "tests_integration/test_maefinetune_pipeline.py",
                        "--deselect", "tests_integration/test_mixup_equals_timm.py", "tests_unit", "tests_integration", "test_unit_long"],
                       cwd=str(repo), env=env1, timeout=3600)
            out["suite_rc"] = rc
            out["suite_tail"] = o.strip().splitlines()[-1][:200] if o.strip() else ""
        for c in checks:
            res = []
            for s in a.seeds.split(","):
                env = dict(os.environ, KDV_REPO=str(repo), VERIF_SEED=s, KDV_EVIDENCE_DIR=str(scratch / "ev"), KDV_REPLAY_DIR=str(scratch / "rp"))
                rc, o = sh([str(VERIF / "check"), c, "--tier", a.tier], cwd=str(VERIF), env=env, timeout=7200)
                keys = sorted({ln.split("key=")[1].split(" ")[0] for ln in o.splitlines() if ln.startswith("VIOLATION") and "key=" in ln})
                res.append({"seed": int(s), "rc": rc, "keys": keys[:8], "tail": o.strip().splitlines()[-1][:200] if o.strip() else ""})
            out["checks"][c] = res
        out["caught"] = any(r["rc"] == 1 for rs in out["checks"].values() for r in rs)
        print(json.dumps(out, indent=1))
        return 0
    finally:
        shutil.rmtree(scratch, ignore_errors=True)


if __name__ == "__main__":
    sys.exit(main())
