#!/bin/sh
# offline setup: contracts library beside the repository's interpreter (git-ignored .deps)
cd "$(dirname "$0")/.." || exit 1
if [ ! -d .deps/icontract ]; then
  /venv/bin/pip install -q --no-index --find-links /opt/veriftools/wheels --target .deps icontract deal >/dev/null 2>&1 || echo "note: icontract/deal not installed (ambient contract layer disabled)"
fi
/venv/bin/python -c "import kappadata, torch, numpy; print('kappadata from', kappadata.__file__)"
