#!/venv/bin/python
"""Confirm a seeded change myself (demo passes on pristine / fails with the change, repository suite passes with the change)
and, if confirmed, keep it under /verif/seeded/<id>/ together with what the checks said.

usage: keep_seed.py <seed_dir> [--checks C04,C05] [--name C04-1-slug]
"""
import argparse
import json
import re
import shutil
import subprocess
import sys
from pathlib import Path

VERIF = Path(__file__).resolve().parent.parent


def main():
    ap = argparse.ArgumentParser()
    ap.add_argument("seed_dir")
    ap.add_argument("--checks")
    ap.add_argument("--name")
    ap.add_argument("--seeds", default="0,1")
    ap.add_argument("--tag", default="")
    a = ap.parse_args()
    sd = Path(a.seed_dir)
    meta = json.loads((sd / "meta.json").read_text())
    cmd = [str(VERIF / "scripts" / "try_seed.py"), str(sd), "--suite", "--seeds", a.seeds]
    if a.checks:
        cmd += ["--checks", a.checks]
    p = subprocess.run(cmd, capture_output=True, text=True)
    try:
        res = json.loads(p.stdout)
    except Exception:
        print("try_seed failed:", p.stdout[-500:], p.stderr[-500:])
        return 2
    confirmed = res.get("demo_pristine_rc") == 0 and res.get("demo_changed_rc") not in (0, None) and res.get("suite_rc") == 0
    slug = re.sub(r"[^a-z0-9]+", "-", meta.get("title", "seed").lower()).strip("-")[:48]
    name = a.name or f"{meta.get('property', 'CXX')}-{a.tag + '-' if a.tag else ''}{sd.name}-{slug}"
    summary = {"name": name, "confirmed": confirmed, "caught": res.get("caught"), "demo": [res.get("demo_pristine_rc"), res.get("demo_changed_rc")],
               "suite": res.get("suite_tail"), "checks": {c: [(r["seed"], r["rc"], r["keys"][:4]) for r in rs] for c, rs in res["checks"].items()}}
    print(json.dumps(summary))
    if not confirmed:
        return 1
    dst = VERIF / "seeded" / name
    dst.mkdir(parents=True, exist_ok=True)
    shutil.copy(sd / "patch.diff", dst / "patch.diff")
    shutil.copy(sd / "demo.py", dst / "demo.py")
    meta["confirmed_by_me"] = {
        "what_i_ran": "scripts/try_seed.py --suite on a scratch copy of /repo HEAD: demo.py on pristine (exit 0) and with patch.diff applied (exit != 0); "
                      "repository suite (tests_unit tests_integration test_unit_long, minus the two files that fail on the pristine tree) with the change applied",
        "demo_exit_pristine": res.get("demo_pristine_rc"), "demo_exit_changed": res.get("demo_changed_rc"), "demo_message": res.get("demo_changed_tail"),
        "suite_with_change": res.get("suite_tail"),
    }
    meta["checks"] = {c: [{"verif_seed": r["seed"], "exit": r["rc"], "violation_keys": r["keys"]} for r in rs] for c, rs in res["checks"].items()}
    meta["caught_by_quick_tier"] = bool(res.get("caught"))
    (dst / "meta.json").write_text(json.dumps(meta, indent=1) + "\n")
    return 0


if __name__ == "__main__":
    sys.exit(main())
