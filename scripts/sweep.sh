#!/bin/sh
# seed sweep of the quick tier: usage sweep.sh "<seeds>" [ids...]
seeds="$1"; shift
ids="$@"
[ -z "$ids" ] && ids=$(/venv/bin/python -c "import json;print(' '.join(json.load(open('scripts/enabled.json'))))")
for s in $seeds; do for p in $ids; do VERIF_SEED=$s ./check $p --tier quick 2>&1 | grep -E "^\[C|VIOLATION|INCONCLUSIVE" | cut -c1-260; done; done
