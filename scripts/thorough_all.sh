#!/bin/sh
# runs the thorough tier of every enabled check, one after the other
ids="$@"
[ -z "$ids" ] && ids=$(/venv/bin/python -c "import json;print(' '.join(json.load(open('scripts/enabled.json'))))")
for p in $ids; do ./check $p --tier thorough 2>&1 | grep -E "^\[C|VIOLATION|INCONCLUSIVE|KNOWN" | cut -c1-300; done
