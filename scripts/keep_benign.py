#!/venv/bin/python
"""Confirm a behaviour-preserving change myself (its demo passes on the pristine tree AND with the change, the repository suite
passes with the change) and record what the checks say about it: any alarm is a false-alarm candidate to analyse.
Kept under /verif/benign/<name>/ (patch.diff, demo.py, meta.json incl. the checks' results).

usage: keep_benign.py <dir> [--checks C04,C05] [--seeds 0,1]
"""
import argparse
import json
import re
import shutil
import subprocess
import sys
from pathlib import Path

VERIF = Path(__file__).resolve().parent.parent


def main():
    ap = argparse.ArgumentParser()
    ap.add_argument("seed_dir")
    ap.add_argument("--checks")
    ap.add_argument("--seeds", default="0,1")
    ap.add_argument("--tag", default="b")
    a = ap.parse_args()
    sd = Path(a.seed_dir)
    meta = json.loads((sd / "meta.json").read_text())
    cmd = [str(VERIF / "scripts" / "try_seed.py"), str(sd), "--suite", "--seeds", a.seeds]
    if a.checks:
        cmd += ["--checks", a.checks]
    p = subprocess.run(cmd, capture_output=True, text=True)
    try:
        res = json.loads(p.stdout)
    except Exception:
        print("try_seed failed:", p.stdout[-500:], p.stderr[-500:])
        return 2
    confirmed = res.get("demo_pristine_rc") == 0 and res.get("demo_changed_rc") == 0 and res.get("suite_rc") == 0
    quiet = all(r["rc"] == 0 for rs in res["checks"].values() for r in rs)
    slug = re.sub(r"[^a-z0-9]+", "-", meta.get("title", "change").lower()).strip("-")[:48]
    name = f"{meta.get('property', 'CXX')}-{a.tag}-{sd.name}-{slug}"
    print(json.dumps({"name": name, "confirmed": confirmed, "quiet": quiet, "demo": [res.get("demo_pristine_rc"), res.get("demo_changed_rc")], "suite": res.get("suite_tail"),
                      "checks": {c: [(r["seed"], r["rc"], r["keys"][:4]) for r in rs] for c, rs in res["checks"].items()}}))
    if not confirmed:
        return 1
    dst = VERIF / "benign" / name
    dst.mkdir(parents=True, exist_ok=True)
    shutil.copy(sd / "patch.diff", dst / "patch.diff")
    shutil.copy(sd / "demo.py", dst / "demo.py")
    meta["confirmed_by_me"] = {"demo_exit_pristine": res.get("demo_pristine_rc"), "demo_exit_changed": res.get("demo_changed_rc"), "suite_with_change": res.get("suite_tail")}
    meta["checks"] = {c: [{"verif_seed": r["seed"], "exit": r["rc"], "violation_keys": r["keys"]} for r in rs] for c, rs in res["checks"].items()}
    meta["quiet"] = quiet
    (dst / "meta.json").write_text(json.dumps(meta, indent=1) + "\n")
    return 0


if __name__ == "__main__":
    sys.exit(main())
