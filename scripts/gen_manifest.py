#!/venv/bin/python
"""Regenerates /verif/MANIFEST.json from the property table below and the modules present in kdv/."""
import json
import subprocess
from pathlib import Path

VERIF = Path(__file__).resolve().parent.parent

# id -> (design section, technique, level text, level note)
P = {
    "C01": ("2/C01", "runtime monitor: event-log datasets + independent reference oracle over generated stacks x modes x index forms (python / numpy integers, negatives, slices, lists, out-of-range probes, interleaved iterators)",
            "Every generated (stack, mode, index form, access history) is executed on the real ModeWrapper/TorchWrapper and compared position by position with an independent reference built from direct loader calls; loader event log checks ctx identity/freshness and joint loads. Held on the executions observed, not a proof.",
            "harness datasets/wrappers subclass the public KDDataset/KDWrapper; duplicated fused members are not driven"),
    "C02": ("2/C02", "runtime monitor: decodable leaf tokens + composed index-map model + leaf load log, on random nestings",
            "Random nestings (depth<=6) of subset/concat/wrapper layers are built from the real classes; every valid index (incl. negatives, balanced round-robin) must return the leaf token the composed index-map model names and cause exactly that one leaf load; bulk accessors are compared element-wise with per-sample ones; introspection is compared with the constructed chain. Exploration of sampled configurations.",
            "a remapping layer's own map is read from its public Subset.indices (what it selects is C03); introspection judged on linear chains only"),
    "C03": ("2/C03", "runtime monitor: independent per-wrapper promise oracles over generated class layouts/bounds/seeds/label dtypes + global-RNG differential + recomputation of seeded selections in a second interpreter (other hash salt) + logical step budget",
            "Each dataset-manipulation wrapper is constructed on generated label layouts (absent/singleton classes, boundary percents, seeds) and its exposed id sequence is compared with an independent statement of its documented promise; complementary ranges must partition; seeded constructions are repeated under different global RNG states; construction must finish inside a sys.monitoring step budget.",
            "promises are taken from README/docstrings/unit tests; exact oversampling with unlabeled samples and wrappers' own empty-dataset guards are outside the claim"),
    "C04": ("2/C04", "runtime monitor: executable reference model of the interleaved schedule vs the real event stream, recording samplers (re-iteration, two live iterators, abandoned passes, configuration set through public attributes)",
            "The real InterleavedSampler stream, its batch sampler and the set_epoch calls received by a recording main sampler are compared event by event with a reference model written from the property text, over generated geometries/budgets/configs; over-long streams and spins are caught by stream-length cut and step budget.",
            "main samplers yield len(sampler) indices; exploration of sampled schedules"),
    "C05": ("2/C05", "runtime monitor: reference model of due side passes vs real stream + real DataLoader worker processes with dataset-tagged samples",
            "Side-pass segments between main updates must equal the reference model's (which config, whole, order, offsets, batching); real DataLoader runs (0..3 workers) check that every batch is from one dataset, collated by that dataset's collator and every index resolves to the sample it was drawn for.",
            "exploration; worker scheduling is whatever the OS produces in the observed runs"),
    "C06": ("2/C06", "runtime monitor: differential of two real executions (uninterrupted vs resumed) with recording samplers, also over shared config objects and re-iterated; equivalence of the three checkpoint forms beyond float precision",
            "For every epoch boundary before the budget the resumed stream (start_epoch / start_update / start_sample) must equal the suffix of the uninterrupted stream event for event, including announced epochs and stopping point; NotImplementedError is an accepted refusal.",
            "exploration over generated configurations; checkpoints on epoch boundaries only"),
    "C07": ("2/C07", "runtime monitor: differential executions of independently constructed instances under perturbed global RNG + global-RNG state sentinels + generator census",
            "Every stochastic transform recipe, ready-made pipeline and random composition is run twice from independently built instances with equal injected seeds under different global RNG states and call histories; outputs and recorded ctx must be identical, re-injection must replay, global RNG states must be untouched.",
            "recipes table covers the discovered stochastic transforms; classes without recipe are listed in the evidence as uncovered"),
    "C08": ("2/C08", "runtime monitor: reference table per index vs permuted/repeated access, perturbed global RNG and real DataLoader workers",
            "Seeded sample wrappers are read in index order once (reference) and then under permuted/repeated histories, different global RNG states and real DataLoader worker counts 0..3 with shuffled batch assignment; all observations of an index must be identical and distinct indices over identical data must differ.",
            "exploration; worker assignment is sampled"),
    "C09": ("2/C09", "runtime monitor: generator census (states/identity/draws) over simulated and real dataloader workers",
            "After worker_init_fn in simulated workers (deepcopy + per-worker global seed) every live generator reachable from the dataset must have been overwritten, differ between differently seeded workers (state and first 64 draws) and be reproduced by an equal seed; real DataLoader runs with probe transforms confirm disjoint draws per worker and reproducibility.",
            "stream overlap beyond the observed 64-draw horizon is not decidable by a finite run"),
    "C10": ("2/C10", "runtime monitor: id-encoded batches, partner/weight decoded from the emitted label and image",
            "Generated id-encoded batches go through the real KDMixCollator (alone, composed, MAE finetune variant); partner and weight are decoded from the label row and the image must be the matching mixup or one-box cutmix with retained fraction equal to the weight, ctx lambda must equal it, other items must equal default collation.",
            "float tolerance 1e-4 relative for re-derived mixes; flip shuffle only with even batches (collator's own guard)"),
    "C11": ("2/C11", "runtime monitor: id-encoded datasets, decode partner/weight from label, re-derive data mix; exact binomial bound for p=1",
            "Generated id-encoded datasets go through the real KDMixWrapper under all request forms; label must be a 2-point convex combination naming partner and weight, data must be the same combination with shapes unified as configured, seeded request forms must agree, and p=1 must mix (statistical clause with explicit <1e-12 false-alarm bound).",
            "cutmix probability 0 (wrapper refuses cutmix itself)"),
    "C12": ("2/C12", "runtime monitor: per-rank streams re-interleaved and compared with the world-size-1 reference draw",
            "For generated (n, world size, epoch, seed, repeats, drop_last) the per-rank streams of the real samplers must have len(sampler) entries, interleave into one global draw equal to the W=1 draw up to trailing drop/wrap, change with the epoch, reproduce for equal (seed, epoch) and show num_repeats-runs.",
            "exploration over sampled configurations"),
    "C13": ("2/C13", "runtime monitor: epoch composition oracles over generated label layouts + step budget",
            "Generated label layouts / pools / weights drive the real class-balanced, semi-supervised and weighted samplers; per-class counts, even reuse, strict alternation, pool exhaustion before repetition, rank stream equality of length / difference of content, no repetition and documented lengths are checked on the emitted indices.",
            "rank-difference asserted only when coincidence probability < 1/13!"),
    "C14": ("2/C14", "runtime monitor: replay of recorded parameters by hand (torchvision functional) + coordinate-coded image/mask pairs + inverse round trips",
            "Generated inputs (tensor/PIL, sizes 1..64, extreme ranges) go through the real transforms; recorded ctx parameters must lie in bounds and reproduce the output exactly when applied by hand; coordinate-coded image/mask pairs must stay aligned; patchify/unpatchify/shuffle and norm/denorm must round-trip.",
            "domain limits listed in DESIGN (reflect padding < size, random resize only on inputs with min side >= 4)"),
    "C15": ("2/C15", "runtime monitor: recording np.random.Generator subclass capturing the ranges a transform samples from + scheduled transform under simulated/real workers",
            "For every transform that supports strength scaling the range signature observed through a recording Generator must be restored at factor 1, collapsed at 0, monotone in between and independent of the factor history; scheduled transforms must report schedule(b) for every sample of global batch b for 1..4 workers.",
            "full batches only (as the property states)"),
    "C16": ("2/C16", "runtime monitor: bulk-vs-per-sample, range, aliasing and global-RNG differential oracles over generated label tables",
            "Every label-rewriting wrapper is built on generated layouts/tables/seeds; bulk accessor must equal per-sample accessor, labels must lie in the announced range or be -1, other items and the wrapped dataset's own labels must be untouched, constructions must agree under different global RNG states, encodings must be convex with the original class as argmax.",
            "top-k pseudo labels in bulk are an accepted refusal (NotImplementedError)"),
    "C17": ("2/C17", "runtime monitor: structural mask invariants over generated collator configurations + step budget",
            "Generated configurations drive the real DINO and I-JEPA mask collators; mask shapes/dtypes, non-empty budget, per-mask ratio cap, index range/sortedness/uniqueness, rectangle decoding with one size per call, common encoder length, encoder/predictor disjointness in the stated domain, step-counter-only block sizes and batch pass-through are checked.",
            "disjointness only where the documented relaxation cannot trigger (domain predicate evaluated by the harness from the configured ranges)"),
    "C18": ("2/C18", "runtime monitor: logging harness collators inside the real pipeline vs default-collation reference",
            "Generated modes, ctx flags, collator member orders and batches go through the real KDSingleCollator/KDComposeCollator/PadSequencesCollator; the result must equal the reference (default collation exactly once at the requested position, same layout, (batch, ctx) iff configured, ctx keys = union) and member logs must show raw-before / collated-after; padded fields must equal pad_sequence of the originals.",
            "member orders the pipeline asserts against are accepted refusals"),
    "C19": ("2/C19", "runtime monitor: client-boundary histories (call/return stamps) from forked reader processes + load/transform logs, offline history checker; sequential histories with second handles (copy / pickle), clears from other processes, negative and numpy indices, reassigned transform",
            "Sequential histories and concurrent histories from 2..12 forked readers sharing one SharedDictDataset (with injected delays inside the base loader and clears at random points) are checked offline: every read equals transform(base[i]), transform applied exactly once per access, loads at most once between clears sequentially, concurrent redundant loads only where no completed access could have populated the cache.",
            "monotonic system-wide clock orders events across processes; Manager server is part of the trusted base"),
    "C20": ("2/C20", "fault enumeration: audit-hook fault injector killing the process before every file-system operation (single deaths enumerated, chains sampled), injected I/O errors and file-size limits, plus strace syscall-level kills; directory-tree oracle",
            "For every source format the complete set of Python-level file-system operations of a copy is enumerated; for each k the process is SIGKILLed before operation k, recovery calls follow (chains of deaths sampled / enumerated), and the destination tree, markers, mutation trace and result object are checked against the property; exhaustive for single deaths at audit-event granularity.",
            "process death, I/O errors of single operations and write-size limits (page cache survives a death); source trees do not contain marker-named files"),
}

NOT_BUILT_REASON = "check not built yet in this round (planned, see DESIGN.md section 2)"


def main():
    mods = {p.stem.upper() for p in (VERIF / "kdv").glob("c[0-9][0-9].py")}
    enabled = json.loads((VERIF / "scripts" / "enabled.json").read_text()) if (VERIF / "scripts" / "enabled.json").exists() else sorted(mods)
    checks, na = [], []
    for pid, (ref, tech, text, note) in sorted(P.items()):
        if pid in mods and pid in enabled:
            level = "fault_enumeration" if pid == "C20" else "exploration"
            checks.append({
                "property_id": pid,
                "quick_cmd": f"./check {pid} --tier quick",
                "thorough_cmd": f"./check {pid} --tier thorough",
                "evidence_file": f"/verif/evidence/{pid}.json",
                "replay_cmd_template": f"./check {pid} --replay {{path}}",
                "engine": "kdv",
                "level_claimed": {"category": level, "text": text, "design_ref": f"DESIGN.md §{ref}"},
                "level_note": note,
                "technique": tech,
            })
        else:
            na.append({"property_id": pid, "reason": NOT_BUILT_REASON})
    head = subprocess.run(["git", "-C", "/repo", "log", "--format=%H %s"], capture_output=True, text=True).stdout.splitlines()
    man = {
        "version": 1,
        "setup_cmd": "./scripts/setup.sh",
        "hooks": {
            "guard": "KAPPADATA_VERIF",
            "enable": "no instrumentation lives inside /repo: all monitors are attached from /verif (subclassing public base classes, sys.monitoring, sys.addaudithook); ./check exports KAPPADATA_VERIF=1 for completeness",
            "baseline_off_cmd": "./scripts/baseline_off.sh",
            "source_commits": [],
            "add_only": True,
        },
        "engines": [{"name": "kdv", "path": "/verif/kdv", "serves_properties": [c["property_id"] for c in checks],
                     "kind_free_text": "Python runtime-monitoring harness: generated workloads on the real code + oracles over observed events"}],
        "checks": checks,
        "not_applicable": na,
        "notes": "Technique family: runtime monitoring. See DESIGN.md. known_findings.json lists repaired (fixed:) and open findings.",
    }
    (VERIF / "MANIFEST.json").write_text(json.dumps(man, indent=1) + "\n")
    print(f"checks={len(checks)} not_applicable={len(na)}")


if __name__ == "__main__":
    main()
