#!/bin/sh
# usage: apply_fix.sh <patch> "<commit message>"   (applies a candidate repair to /repo as one fix: commit)
set -e
cd /repo
git apply --check "$1"
git apply "$1"
git commit -qam "$2"
git log --oneline | head -1
