#!/venv/bin/python
"""prints the catch matrix of the kept seeded changes (markdown) from /verif/seeded/*/meta.json"""
import json
from pathlib import Path

rows = []
for d in sorted(Path(__file__).resolve().parent.parent.joinpath("seeded").iterdir()):
    m = json.loads((d / "meta.json").read_text())
    checks = m.get("checks", {})
    caught_by = [c for c, rs in checks.items() if any(r["exit"] == 1 for r in rs)]
    keys = sorted({k for rs in checks.values() for r in rs for k in r["violation_keys"]})[:3]
    first = m.get("first_run", "")
    status = "caught" if caught_by else "NOT caught"
    if first.startswith("MISSED"):
        status = "caught after strengthening"
    elif first.startswith("not observable"):  # reported by another property's check
        status = f"caught by {','.join(caught_by)} (cross-property)"
    rows.append((m.get("property"), d.name, str(m.get("title", ""))[:90], str(m.get("needs", ""))[:110].replace("\n", " "), status, ", ".join(caught_by), "; ".join(keys)[:120]))
print("| property | seeded change | needs to manifest | result (quick tier) | reporting check: violation keys |")
print("|---|---|---|---|---|")
for p, name, title, needs, status, by, keys in rows:
    print(f"| {p} | `{name}` — {title} | {needs} | {status} | {by}: {keys} |")
n = len(rows)
first_missed = sum(1 for r in rows if r[4] == "caught after strengthening")
print(f"\n{n} confirmed seeded changes kept; {n - first_missed} reported by the quick tier as first built, {first_missed} only after the check was strengthened.")
