"""C19 — the in-memory cache is transparent for every access history.

Client-boundary histories of `cached[i]` / `dispose()` with call/return stamps (one monotonic system-wide clock), the
base dataset's load log and the post-cache transform's application log (O_APPEND files, visible across processes) are
recorded in one process (sequential histories) and in 2..12 forked reader processes that share one SharedDictDataset;
an offline checker decides the property on the recorded history.
"""
from __future__ import annotations

import gc
import hashlib
import json
import multiprocessing as mp
import os
import pickle
import shutil
import tempfile
import time
from pathlib import Path

import numpy as np
import torch

from . import core
from .harness import canon_value

LEVEL = "exploration"
RULE = ("sequential histories: random sequences of cached[i] over few keys (repeats, any order) and dispose() at random points on payloads of "
        "every kind (tensor, ndarray, bytes, PIL, tuple, dict, None, nested); concurrent histories: 2..12 forked readers sharing one cache, "
        "few keys, random clears, the base loader sleeping inside the lookup-or-load window; a case = one history; non-trivial = at least one "
        "repeated key; distinct by spec")
ASSUMPTIONS = [
    "time.monotonic_ns is one system-wide clock, so call/return stamps of different processes are comparable",
    "the multiprocessing Manager server and pickling are part of the trusted base; payloads are picklable",
    "concurrent oracle: a load is illegitimate only if a completed earlier access to the same index certainly populated the cache and no clear overlaps the interval in between",
    "readers are multiprocessing (fork) processes, as DataLoader workers are",
    "indices are non-negative python ints or numpy integers (what samplers / permutations produce); an index beyond the last sample must raise IndexError like the wrapped dataset "
    "(the legacy iteration protocol `list(ds)` relies on it); negative indices (-n..-1, over a base that supports them) are driven, and loads are accounted per index as given: "
    "the anchored cache state is index -> sample, so -1 and n-1 are two entries and each may be loaded once between clears",
]
MONITORS = ["sequential_reads_checked", "concurrent_reads_checked", "loads_observed", "transform_applications_observed", "clears_observed", "concurrent_histories"]
THOROUGH_SHARDS = 8

PAYLOADS = ["tensor", "ndarray", "bytes", "pil", "tuple", "dict", "none", "nested", "int", "named"]

import collections  # noqa: E402

SampleNT = collections.namedtuple("SampleNT", ["x", "meta"])  # module level: picklable


def _payload(kind, i):
    if kind == "tensor":
        return torch.arange(6, dtype=torch.float32).reshape(2, 3) + i
    if kind == "ndarray":
        return np.arange(4, dtype=np.int16) * (i + 1)
    if kind == "bytes":
        return bytes([i % 256, 1, 2, 3]) * 3
    if kind == "pil":
        from PIL import Image
        return Image.fromarray((np.arange(27, dtype=np.uint8).reshape(3, 3, 3) + i) % 255, mode="RGB")
    if kind == "tuple":
        return (torch.tensor([i, i + 1]), i, f"s{i}")
    if kind == "dict":
        return {"x": torch.ones(2) * i, "y": [i, None]}
    if kind == "none":
        return None
    if kind == "nested":
        return [{"a": (np.float32(i), [torch.zeros(1) + i])}, (b"b", i)]
    if kind == "int":
        return i
    if kind == "named":
        # container SUBCLASSES: a namedtuple holding an OrderedDict and a torch.Size - what comes back must be the same types
        return SampleNT(x=torch.ones(2) * i, meta=collections.OrderedDict([("b", i), ("a", [i, i + 1]), ("shape", torch.Size([i + 1, 2]))]))
    raise ValueError(kind)


class Base(torch.utils.data.Dataset):
    """base dataset: deterministic payloads; every load is appended to an O_APPEND log (one os.write per record)"""

    def __init__(self, n, kind, load_log_path, sleep_us=0, marker="base-attr", own_transform=False):
        self.n, self.kind, self.load_log_path, self.sleep_us = n, kind, load_log_path, sleep_us
        self.marker = marker
        self._fd = None
        if own_transform:
            # torchvision convention: the wrapped dataset applies its own `transform` attribute inside __getitem__
            self.transform = _BaseTf()

    def _log(self, rec):
        if self._fd is None or self._pid != os.getpid():
            self._fd = os.open(self.load_log_path, os.O_WRONLY | os.O_APPEND | os.O_CREAT)
            self._pid = os.getpid()
        os.write(self._fd, (json.dumps(rec) + "\n").encode())

    def __getitem__(self, idx):
        # like list / tensor backed datasets: -n..n-1 are valid, everything else raises IndexError
        if not -self.n <= int(idx) < self.n:
            raise IndexError(f"index {idx} out of range for {self.n} samples")
        self._log({"p": os.getpid(), "i": int(idx), "t": time.monotonic_ns()})
        if self.sleep_us:
            time.sleep(self.sleep_us * 1e-6 * (1 + (idx % 3)))
        sample = _payload(self.kind, int(idx) % self.n)
        tr = self.__dict__.get("transform")
        return tr(sample) if tr is not None else sample

    def __len__(self):
        return self.n


class _BaseTf:
    """the wrapped dataset's OWN transform (non-idempotent): applying it a second time on top of base[i] is visible"""

    def __call__(self, sample):
        return ("B", sample)


class BaseWithGetitems(Base):
    """like torch.utils.data.Subset: also implements the batched fetch protocol __getitems__"""

    def __getitems__(self, indices):
        return [self[i] for i in indices]


class Marker:
    """post-cache transform: non-idempotent (wraps the sample) and logged, so caching the transformed sample is visible"""

    def __init__(self, log_path):
        self.log_path = log_path
        self._fd = None

    def __call__(self, sample):
        if self._fd is None or self._pid != os.getpid():
            self._fd = os.open(self.log_path, os.O_WRONLY | os.O_APPEND | os.O_CREAT)
            self._pid = os.getpid()
        os.write(self._fd, (json.dumps({"p": os.getpid(), "t": time.monotonic_ns()}) + "\n").encode())
        return ("T", sample)


class OtherMarker(Marker):
    """a second, different post-cache transform (assigned to the public `transform` attribute in the middle of a history)"""

    def __call__(self, sample):
        super().__call__(sample)
        return ("O", sample)


_ORIG_TR = {}   # id(pooled cache) -> the transform it was constructed with


def _bump(v):
    """what an in-place post-cache transform does: +1 on every tensor / ndarray inside the sample (in place)"""
    if torch.is_tensor(v):
        v.add_(1)
    elif isinstance(v, np.ndarray):
        v += 1
    elif isinstance(v, (list, tuple)):
        for x in v:
            _bump(x)
    elif isinstance(v, dict):
        for x in v.values():
            _bump(x)
    return v


class InplaceMarker(Marker):
    """post-cache transform that works IN PLACE on the sample it is given (as KDImageRangeNorm does by default): the cached
    copy must not be affected, every access must return transform(base[i])"""

    def __call__(self, sample):
        super().__call__(sample)
        return ("T", _bump(sample))


from kappadata.transforms.base.kd_transform import KDTransform  # noqa: E402


class KDMarker(KDTransform):
    """the same post-cache transform as a KDTransform subclass (reports is_deterministic=True like every plain KDTransform,
    yet must still be applied on every access - the property does not exempt 'deterministic' transforms)"""

    def __init__(self, path):
        super().__init__()
        self._m = Marker(path)

    def __call__(self, x, ctx=None):
        return self._m(x)


def _kd_marker(log_path):
    return KDMarker(log_path)


def _types_of(v):
    """nested container type names (a cache may not turn a namedtuple into a tuple or an OrderedDict into a dict)"""
    if isinstance(v, dict):
        return (type(v).__name__, tuple((str(k), _types_of(x)) for k, x in v.items()))
    if isinstance(v, (list, tuple)):
        return (type(v).__name__, tuple(_types_of(x) for x in v))
    return type(v).__name__ if isinstance(v, (torch.Tensor, np.ndarray, bytes, str, int, float, type(None))) else "obj"


def _digest(v):
    return hashlib.sha1(repr((canon_value(v), _types_of(v))).encode()).hexdigest()[:20]


def _read_log(path):
    if not os.path.exists(path):
        return []
    return [json.loads(l) for l in open(path) if l.strip()]


class _Tail:
    """incremental reader of an append-only JSON-lines log"""

    def __init__(self, path):
        self.path, self.pos = str(path), 0

    def new(self):
        if not os.path.exists(self.path):
            return []
        with open(self.path) as f:
            f.seek(self.pos)
            data = f.read()
            self.pos = f.tell()
        return [json.loads(l) for l in data.splitlines() if l.strip()]


# ------------------------------------------------------------------------------------------------ generation
def gen_cases(run):
    rng = run.rng
    n_seq = run.n(320, 16000)
    n_conc = run.n(12, 320)
    for i in range(n_seq):
        nkeys = rng.choice([1, 2, 3, 5, 8])
        ops = []
        for _ in range(rng.choice([20, 60, 150])):
            r = rng.random()
            if r < 0.08:
                ops.append(["clear"])
            elif r < 0.11:
                ops.append(["oob", rng.choice([0, 1, 5])])   # access `offset` beyond the last sample: the wrapped dataset raises IndexError
            elif r < 0.13:
                ops.append(["iter"])                          # list(cached): legacy __getitem__ iteration protocol, ends with IndexError
            elif r < 0.17:
                ops.append(["loader", rng.choice([1, 2, 3])])  # one pass of torch DataLoader(cached, batch_size=k) in this process (batched fetch path)
            elif r < 0.172:
                ops.append(["set_transform", rng.choice(["none", "marker", "other"])])  # the public `transform` attribute is reassigned mid-history
            elif r < 0.18:
                # a second handle to the same cache (copy / pickle round trip, what spawn-started workers hold) is created and garbage
                # collected; or a clear is issued by ANOTHER process (a reader / worker) that then exits
                ops.append([rng.choice(["handle_copy_gc", "handle_pickle_gc", "clear_in_child"])])
            elif r < 0.20:
                ops.append(["get_neg", rng.randrange(nkeys)])  # the k-th sample from the end, addressed as cached[-k-1]
            elif r < 0.27:
                ops.append(["get_np", rng.randrange(nkeys)])  # the same access with a numpy integer index (np.random.permutation, index tables)
            else:
                ops.append(["get", rng.randrange(nkeys)])
        payload = PAYLOADS[i % len(PAYLOADS)]
        # in-place / KDTransform-typed transforms only on payloads that contain tensors or arrays (keeps the number of Manager processes down)
        # "base_tf": no post-cache transform, but the wrapped dataset has (and applies) a `transform` attribute of its own
        kinds = [True, "inplace", "kd", "inplace", False, "base_tf"] if payload in ("tensor", "tuple", "dict", "nested", "ndarray") else [True, True, False, "base_tf"]
        if payload == "named":
            kinds = [False, True]
        yield {"kind": "seq", "payload": payload, "nkeys": nkeys, "ops": ops, "transform": rng.choice(kinds)}
    for i in range(n_conc):
        readers = rng.choice([2, 3, 4, 6, 8, 12]) if run.tier == "thorough" else rng.choice([2, 3, 4, 6])
        yield {"kind": "conc", "payload": rng.choice(["tensor", "tuple", "dict", "bytes", "int"]), "nkeys": rng.choice([1, 2, 3]), "readers": readers,
               "nops": rng.choice([40, 80, 120]), "p_clear": rng.choice([0.0, 0.05, 0.15]), "sleep_us": rng.choice([0, 100, 300]), "seed": rng.randrange(10 ** 6)}


# ------------------------------------------------------------------------------------------------ sequential histories
def _new_cache(tmp, kind, nkeys, transform=True, sleep_us=0, getitems=False):
    from kappadata.caching import SharedDictDataset
    base = (BaseWithGetitems if getitems else Base)(nkeys, kind, str(tmp / "loads.log"), sleep_us=sleep_us, own_transform=transform == "base_tf")
    tr = None
    if transform == "base_tf":
        return SharedDictDataset(base), base
    if transform == "kd":
        tr = _kd_marker(str(tmp / "transform.log"))
    elif transform == "inplace":
        tr = InplaceMarker(str(tmp / "transform.log"))
    elif transform:
        tr = Marker(str(tmp / "transform.log"))
    return SharedDictDataset(base, transform=tr), base


_POOL = {}   # (payload, transform) -> (cache, tmp dir, load tail, transform tail): one Manager per payload kind (starting one costs ~0.25 s)


def _pooled(payload, transform):
    key = (payload, transform)
    if key not in _POOL:
        tmp = Path(tempfile.mkdtemp(prefix="kdv_c19_"))
        cached, base = _new_cache(tmp, payload, 8, transform=transform, getitems=(len(_POOL) % 2 == 0))
        _POOL[key] = (cached, tmp, _Tail(tmp / "loads.log"), _Tail(tmp / "transform.log"))
    return _POOL[key]


def _drop_pool():
    for cached, tmp, _, _ in list(_POOL.values()):
        shutil.rmtree(tmp, ignore_errors=True)
    _POOL.clear()
    gc.collect()


import atexit  # noqa: E402
atexit.register(_drop_pool)


def _second_handle(run, cached, kind, step, want, tail_loads, tail_tr, loaded_since_clear):
    """a second handle to the same cache (copy.copy / pickle round trip - what spawn-started workers hold) reads index 0 and dies.
    Returns True if a violation was recorded."""
    import copy
    import pickle
    h = hv = None
    gc.disable()  # the handle stays in the youngest generation until it is collected below
    try:
        try:
            h = copy.copy(cached) if kind == "handle_copy_gc" else pickle.loads(pickle.dumps(cached))
            hv = h[0]
        except Exception as e:
            run.violation(f"seq:second-handle-raises:{type(e).__name__}", f"step {step}: {kind}: a second handle to the cache raised {type(e).__name__}: {e}")
            return True
        run.count("second_handles_checked")
        if _digest(hv) != want[0]:
            run.violation("seq:value", f"step {step}: a {kind[7:-3]} of the cached dataset returns {repr(hv)[:120]} for index 0, not transform(base[0])")
            return True
        new_loads = tail_loads.new()
        tail_tr.new()
        if 0 in loaded_since_clear and new_loads:
            run.violation("seq:redundant-load", f"step {step}: reading index 0 through a second handle ({kind}) loaded {[l['i'] for l in new_loads]} although it was loaded since the last clear")
            return True
        loaded_since_clear.add(0)
        return False
    finally:
        h = hv = None  # the second handle dies: this is not a clear
        # collect it NOW (youngest generation only; a full collection costs 0.2 s with torch loaded): an unpickled proxy shares its
        # thread-local connection with the original proxy, and CPython closes that connection when the copy is finalised - if the
        # cyclic GC did that in the middle of a later manager call, the harness would manufacture a failure the library has no part in
        gc.collect(0)
        gc.enable()


def run_case(run, spec):
    if spec["kind"] == "conc":
        return _run_concurrent(run, spec)
    cached, tmp, tail_loads, tail_tr = _pooled(spec["payload"], spec["transform"])
    run.cover("seq", spec["payload"], spec["nkeys"], spec["transform"], any(o[0] == "clear" for o in spec["ops"]))
    # the cache object is pooled: every history starts with the post-cache transform the cache was constructed with
    if id(cached) in _ORIG_TR:
        cached.transform = _ORIG_TR[id(cached)]
    else:
        _ORIG_TR[id(cached)] = cached.transform
    cur = {"mode": spec["transform"]}   # what the PUBLIC `transform` attribute currently is (set_transform ops change it)

    class _Post:
        def __bool__(self):
            return cur["mode"] not in (False, "base_tf")
    post = _Post()  # is there a post-cache transform right now?

    def _expected(q):
        m = cur["mode"]
        if m == "base_tf":
            return ("B", _payload(spec["payload"], q))
        if m == "inplace":
            return ("T", _bump(_payload(spec["payload"], q)))
        if m == "other":
            return ("O", _payload(spec["payload"], q))
        return ("T", _payload(spec["payload"], q)) if m else _payload(spec["payload"], q)

    class _Want:
        def __getitem__(self, i):
            return _digest(_expected(int(i)))
    want = _Want()
    if len(cached) != 8 or cached.marker != "base-attr":
        run.violation("seq:delegation", f"len / attribute delegation of the cached dataset: len={len(cached)}, marker={getattr(cached, 'marker', None)!r}")
        return
    # every history starts from a cleared cache (the cache object is shared by the histories of one payload kind)
    cached.dispose()
    tail_loads.new(), tail_tr.new()
    loaded_since_clear = set()
    for step, op in enumerate(spec["ops"]):
        if op[0] == "clear":
            cached.dispose()
            loaded_since_clear = set()
            run.count("clears_observed")
            continue
        if op[0] == "set_transform":
            if spec["transform"] not in (True, False):
                continue
            if op[1] == "none":
                cached.transform, cur["mode"] = None, False
            elif op[1] == "marker":
                cached.transform, cur["mode"] = Marker(str(tmp / "transform.log")), True
            else:
                cached.transform, cur["mode"] = OtherMarker(str(tmp / "transform.log")), "other"
            run.count("transform_reassignments")
            continue
        if op[0] in ("handle_copy_gc", "handle_pickle_gc"):
            bad = _second_handle(run, cached, op[0], step, want, tail_loads, tail_tr, loaded_since_clear)
            if bad:
                return
            continue
        if op[0] == "clear_in_child":
            pid = os.fork()
            if pid == 0:
                code = 0
                try:
                    cached.dispose()
                except BaseException:
                    code = 7
                os._exit(code)
            _, status = os.waitpid(pid, 0)
            if status != 0:
                run.violation("seq:clear-in-child-fails", f"step {step}: dispose() issued by a forked reader process failed (exit status {status})")
                return
            loaded_since_clear = set()
            run.count("clears_observed")
            run.count("clears_issued_by_another_process")
            continue
        if op[0] == "oob":
            j = 8 + op[1]
            run.count("out_of_range_probes")
            try:
                got = cached[j]
            except IndexError:
                tail_loads.new(), tail_tr.new()
                continue
            except Exception as e:
                run.violation(f"seq:out-of-range-raises:{type(e).__name__}", f"step {step}: cached[{j}] on 8 samples raised {type(e).__name__}: {e}; the wrapped dataset raises IndexError")
                return
            run.violation("seq:out-of-range-returns", f"step {step}: cached[{j}] on 8 samples returned {repr(got)[:120]}; the wrapped dataset raises IndexError")
            return
        if op[0] == "iter":
            import itertools
            run.count("iterations_checked")
            try:
                got_all = list(itertools.islice(iter(cached), 8 + 3))
            except Exception as e:
                run.violation(f"seq:iteration-raises:{type(e).__name__}", f"step {step}: list(cached) raised {type(e).__name__}: {e}")
                return
            want_all = [_digest(_expected(q)) for q in range(8)]
            if [_digest(v) for v in got_all] != want_all:
                run.violation("seq:iteration", f"step {step}: iterating the cached dataset yields {len(got_all)} samples / different values; the wrapped dataset yields its 8 samples")
                return
            new_loads = tail_loads.new()
            tail_tr.new()
            bad = [l["i"] for l in new_loads if l["i"] in loaded_since_clear]
            if bad:
                run.violation("seq:redundant-load", f"step {step}: iteration re-loaded indices {bad} that were loaded since the last clear")
                return
            loaded_since_clear |= set(range(8))
            run.count("loads_observed", len(new_loads))
            continue
        if op[0] == "loader":
            run.count("loader_passes_checked")
            from torch.utils.data import DataLoader
            try:
                got_all = [b for b in DataLoader(cached, batch_size=op[1], collate_fn=list)]
            except Exception as e:
                run.violation(f"seq:loader-raises:{type(e).__name__}", f"step {step}: DataLoader(cached, batch_size={op[1]}) raised {type(e).__name__}: {e}")
                return
            flat = [v for b in got_all for v in b]
            if [_digest(v) for v in flat] != [_digest(_expected(q)) for q in range(8)]:
                run.violation("seq:loader-bypasses-cache-or-transform", f"step {step}: DataLoader(cached, batch_size={op[1]}) over a base {'with' if hasattr(cached.dataset, '__getitems__') else 'without'} "
                                                                        f"__getitems__ delivers {repr(flat[0])[:100]}…, expected transform(base[i]) for i in 0..7")
                return
            new_loads, new_tr = tail_loads.new(), tail_tr.new()
            bad = [l["i"] for l in new_loads if l["i"] in loaded_since_clear]
            if bad:
                run.violation("seq:redundant-load", f"step {step}: DataLoader pass re-loaded indices {bad} that were loaded since the last clear (base {'with' if hasattr(cached.dataset, '__getitems__') else 'without'} __getitems__)")
                return
            if post and len(new_tr) != 8:
                run.violation("seq:transform-count", f"step {step}: DataLoader pass applied the post-cache transform {len(new_tr)} times for 8 samples")
                return
            loaded_since_clear |= set(range(8))
            continue
        i = op[1] if op[0] == "get" else (np.int64(op[1]) if op[0] == "get_np" else -op[1] - 1)
        if i < 0:
            run.count("negative_index_reads")
        try:
            got = cached[i]
        except Exception as e:
            kind, where = core.classify_exception(e)
            run.violation(f"seq:read-raises:{type(e).__name__}", f"step {step}: cached[{i}] raised {type(e).__name__}: {e} at {where}")
            return
        run.count("sequential_reads_checked")
        if _digest(got) != (want[i] if i >= 0 else _digest(_expected(8 + i))):
            key = "seq:value:in-place-transform-reaches-the-cached-copy" if spec["transform"] == "inplace" else "seq:value"
            run.violation(key, f"payload={spec['payload']} transform={spec['transform']} step {step}: cached[{i}] = {repr(got)[:160]} differs from transform(base[{i}])")
            return
        new_loads, new_tr = tail_loads.new(), tail_tr.new()
        run.count("loads_observed", len(new_loads))
        run.count("transform_applications_observed", len(new_tr))
        if post and len(new_tr) != 1:
            run.violation("seq:transform-count", f"step {step}: cached[{i}] applied the post-cache transform {len(new_tr)} times")
            return
        if i in loaded_since_clear:
            if new_loads:
                run.violation("seq:redundant-load", f"step {step}: cached[{i}] loaded {[l['i'] for l in new_loads]} from the base dataset although index {i} was loaded since the last clear")
                return
        else:
            if [l["i"] for l in new_loads] != [i]:
                key = "seq:no-load-after-clear" if not new_loads else "seq:wrong-load"
                run.violation(key, f"step {step}: first access of index {i} since the last clear caused base loads {[l['i'] for l in new_loads]}")
                return
            loaded_since_clear.add(i)
    run.sample({"kind": "seq", "payload": spec["payload"], "nkeys": spec["nkeys"], "ops": len(spec["ops"]), "head": spec["ops"][:10]})


# ------------------------------------------------------------------------------------------------ concurrent histories
def _reader(cached, ops, out_path, barrier_path):
    try:
        fd = os.open(out_path, os.O_WRONLY | os.O_APPEND | os.O_CREAT)
        while not os.path.exists(barrier_path):
            time.sleep(0.0005)
        for op in ops:
            rec = {"p": os.getpid(), "op": op[0], "i": op[1] if len(op) > 1 else None, "c": time.monotonic_ns()}
            try:
                if op[0] == "clear":
                    cached.dispose()
                    rec["v"] = None
                else:
                    rec["v"] = _digest(cached[op[1]])
            except BaseException as e:  # an exception of the real code is an event of the history
                rec["x"] = f"{type(e).__name__}: {e}"[:200]
            rec["r"] = time.monotonic_ns()
            os.write(fd, (json.dumps(rec) + "\n").encode())
    finally:
        os._exit(0)


def check_history(events, loads, trs, want, transform=True):
    """offline checker over a recorded concurrent history -> list of (key, message)"""
    out = []
    gets = [e for e in events if e["op"] == "get"]
    clears = [e for e in events if e["op"] == "clear"]
    for e in events:
        if e.get("x"):
            out.append((f"conc:reader-exception:{e['x'].split(':')[0]}", f"reader {e['p']}: {e['op']}({e['i']}) raised {e['x']}"))
    for e in gets:
        if e.get("x"):
            continue
        if e["v"] != want[e["i"]]:
            out.append(("conc:value", f"reader {e['p']}: cached[{e['i']}] returned a value different from transform(base[{e['i']}])"))
    # transform applied exactly once per access (per process, inside the call interval)
    if transform:
        by_p = {}
        for t in trs:
            by_p.setdefault(t["p"], []).append(t["t"])
        for e in gets:
            if e.get("x"):
                continue
            k = sum(1 for t in by_p.get(e["p"], []) if e["c"] <= t <= e["r"])
            if k != 1:
                out.append(("conc:transform-count", f"reader {e['p']}: cached[{e['i']}] applied the post-cache transform {k} times"))
    # loads: attribute every load to the access of the same process that encloses it
    for l in loads:
        owner = [e for e in gets if e["p"] == l["p"] and e["c"] <= l["t"] <= e["r"]]
        if len(owner) != 1:
            out.append(("conc:unattributed-load", f"load of {l['i']} by {l['p']} belongs to {len(owner)} accesses"))
            continue
        A = owner[0]
        if A["i"] != l["i"]:
            out.append(("conc:wrong-load", f"reader {A['p']}: cached[{A['i']}] loaded index {l['i']}"))
            continue
        for Ap in gets:
            if Ap is A or Ap["i"] != A["i"] or Ap.get("x") or Ap["r"] >= A["c"]:
                continue
            # Ap certainly populated (or found) the entry before A started; a clear overlapping (call(Ap), ret(A)) excuses the load
            if not any(c["c"] < A["r"] and c["r"] > Ap["c"] for c in clears):
                out.append(("conc:redundant-load", f"reader {A['p']}: cached[{A['i']}] loaded from the base dataset although an access by reader {Ap['p']} to the same "
                                                   f"index had returned {A['c'] - Ap['r']} ns earlier and no clear lies in between"))
                break
    # a hit needs a load that started before it returned
    for e in gets:
        if e.get("x"):
            continue
        own = [l for l in loads if l["p"] == e["p"] and e["c"] <= l["t"] <= e["r"]]
        if not own and not any(l["i"] == e["i"] and l["t"] < e["r"] for l in loads):
            out.append(("conc:value-from-nowhere", f"reader {e['p']}: cached[{e['i']}] returned without any load of that index having started"))
    return out


def _run_concurrent(run, spec):
    tmp = Path(tempfile.mkdtemp(prefix="kdv_c19c_"))
    cached = None
    try:
        cached, base = _new_cache(tmp, spec["payload"], spec["nkeys"], transform=True, sleep_us=spec["sleep_us"])
        rng = np.random.default_rng(spec["seed"])
        ctx = mp.get_context("fork")
        procs = []
        barrier = str(tmp / "go")
        for r in range(spec["readers"]):
            ops = []
            for _ in range(spec["nops"]):
                if rng.random() < spec["p_clear"]:
                    ops.append(["clear"])
                else:
                    ops.append(["get", int(rng.integers(spec["nkeys"]))])
            p = ctx.Process(target=_reader, args=(cached, ops, str(tmp / f"reader{r}.log"), barrier))
            p.start()
            procs.append(p)
        open(barrier, "w").close()
        deadline = time.time() + 120
        for p in procs:
            p.join(max(0.1, deadline - time.time()))
        if any(p.is_alive() for p in procs):
            for p in procs:
                p.kill()
            raise core.Inconclusive("reader processes hit the wall-clock watchdog")
        events = []
        for r in range(spec["readers"]):
            events += _read_log(tmp / f"reader{r}.log")
        loads = _read_log(tmp / "loads.log")
        trs = _read_log(tmp / "transform.log")
        want = {i: _digest(("T", _payload(spec["payload"], i))) for i in range(spec["nkeys"])}
        expected_events = spec["readers"] * spec["nops"]
        run.cover("conc", spec["readers"], spec["nkeys"], spec["p_clear"] > 0, spec["sleep_us"] > 0)
        run.count("concurrent_histories")
        run.count("concurrent_reads_checked", sum(1 for e in events if e["op"] == "get"))
        run.count("clears_observed", sum(1 for e in events if e["op"] == "clear"))
        run.count("loads_observed", len(loads))
        run.count("transform_applications_observed", len(trs))
        if len(events) != expected_events:
            run.violation("conc:reader-died", f"{spec['readers']} readers x {spec['nops']} ops but only {len(events)} events were recorded (a reader died)")
            return
        # overlap evidence: pairs of accesses of different processes whose intervals overlap
        ev = sorted(events, key=lambda e: e["c"])
        overlaps = sum(1 for a, b in zip(ev, ev[1:]) if b["c"] < a["r"] and a["p"] != b["p"])
        run.count("overlapping_access_pairs", overlaps)
        problems = check_history(events, loads, trs, want)
        seen = set()
        for key, msg in problems:
            if key in seen:
                continue
            seen.add(key)
            run.violation(key, f"concurrent history ({spec['readers']} readers, {spec['nkeys']} keys, p_clear={spec['p_clear']}, loader sleep {spec['sleep_us']}us): {msg}")
        if not problems:
            run.sample({"kind": "conc", "readers": spec["readers"], "events": len(events), "loads": len(loads), "overlapping_pairs": overlaps,
                        "head": [{k: e[k] for k in ("p", "op", "i")} for e in ev[:6]]})
    finally:
        del cached
        gc.collect()
        shutil.rmtree(tmp, ignore_errors=True)


def setup(run):
    # self-test of the offline checker on synthetic histories (a checker that cannot fire would make the run meaningless)
    want = {0: "d0"}
    ok_hist = [{"p": 1, "op": "get", "i": 0, "c": 0, "r": 10, "v": "d0"}, {"p": 2, "op": "get", "i": 0, "c": 20, "r": 30, "v": "d0"}]
    assert not check_history(ok_hist, [{"p": 1, "i": 0, "t": 5}], [{"p": 1, "t": 9}, {"p": 2, "t": 29}], want)
    bad = check_history(ok_hist, [{"p": 1, "i": 0, "t": 5}, {"p": 2, "i": 0, "t": 25}], [{"p": 1, "t": 9}, {"p": 2, "t": 29}], want)
    assert [k for k, _ in bad] == ["conc:redundant-load"], bad
    excused = check_history(ok_hist + [{"p": 3, "op": "clear", "i": None, "c": 12, "r": 14, "v": None}],
                            [{"p": 1, "i": 0, "t": 5}, {"p": 2, "i": 0, "t": 25}], [{"p": 1, "t": 9}, {"p": 2, "t": 29}], want)
    assert not excused, excused
    run.count("checker_selftests", 3)
