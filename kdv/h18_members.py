"""C18 harness: a sequence dataset whose loaders record per-sample ctx entries, recording collator members, and a
layout-aware comparison. Nothing here reads private state of the repository; the members subclass KDSingleCollator the
way a user-written collator would (hooks: `default_collate_mode`, `collate(batch, dataset_mode, ctx)`).
"""
from __future__ import annotations

import numpy as np
import torch
from torch.utils.data import default_collate

from kappadata.collators.base.kd_single_collator import KDSingleCollator
from kappadata.datasets.kd_dataset import KDDataset
from kappadata.wrappers.mode_wrapper import ModeWrapper

SEQ_ITEMS = ("x", "tok", "y")            # variable-length tensor fields (ndim > 0)
FIXED_TENSOR_ITEMS = ("vec",)            # tensor with ndim > 0 whose length never varies
# 0-dim tensor, python int, python int, str, ModeWrapper's index, python float (values float32 cannot hold), python bool,
# numpy float64 scalar, numpy int16 scalar
# ... and container items: fixed-size python list of floats (a bbox), list of ints, tuple of numbers, nested list, dict
OTHER_ITEMS = ("w", "seqlen", "class", "name", "index", "fl", "flag", "npf", "npi", "bbox", "ilist", "tup", "nest", "dct")
PY_FLOATS = (16777217.0, 0.1, 1e-50, 3.5, -2.0 ** 60 - 1.0, 1.0 / 3.0, 123456789.125, 2.0)
FLOAT_ITEMS = ("x", "y", "vec", "w")     # items a member may edit arithmetically


class SeqDS(KDDataset):
    """sample i: x float32 (la[i], *trail), tok int64 (la[i],), y float64 (lb[i], 2), vec float32 (3,), w 0-dim float32,
    seqlen int, class int, name str, fl python float (some not representable in float32), flag python bool, npf numpy
    float64 scalar, npi numpy int16 scalar. All tensor contents are non-zero and encode (i, position), so that padding zeros,
    sample order and field identity can be read off the output. Every loader records ctx entries of its sample."""

    def __init__(self, la, lb, trail=()):
        super().__init__()
        assert len(la) == len(lb)
        self.la, self.lb, self.trail = list(la), list(lb), tuple(trail)

    def __len__(self):
        return len(self.la)

    def _rec(self, ctx, item, i):
        if ctx is not None:
            ctx[f"{item}_idx"] = i

    def getitem_x(self, idx, ctx=None):
        i = int(idx)
        self._rec(ctx, "x", i)
        if ctx is not None:
            ctx["x_len"] = self.la[i]
            ctx["x_f"] = i / 4
            ctx["x_t"] = torch.tensor([i, i + 1])
            ctx["x_s"] = f"s{i}"
        shape = (self.la[i],) + self.trail
        numel = 1
        for s in shape:
            numel *= s
        return (torch.arange(numel, dtype=torch.float32) + 1 + 64 * i).reshape(shape)

    def getitem_tok(self, idx, ctx=None):
        i = int(idx)
        self._rec(ctx, "tok", i)
        return torch.arange(self.la[i], dtype=torch.int64) + 1 + 64 * i

    def getitem_y(self, idx, ctx=None):
        i = int(idx)
        self._rec(ctx, "y", i)
        return (torch.arange(self.lb[i] * 2, dtype=torch.float64) + 1 + 64 * i).reshape(self.lb[i], 2)

    def getitem_vec(self, idx, ctx=None):
        i = int(idx)
        self._rec(ctx, "vec", i)
        return torch.arange(3, dtype=torch.float32) + 1 + 64 * i

    def getitem_w(self, idx, ctx=None):
        i = int(idx)
        self._rec(ctx, "w", i)
        return torch.tensor(float(i + 1))

    def getitem_seqlen(self, idx, ctx=None):
        i = int(idx)
        self._rec(ctx, "seqlen", i)
        return self.la[i]

    def getitem_class(self, idx, ctx=None):
        i = int(idx)
        self._rec(ctx, "class", i)
        return i % 5

    def getitem_fl(self, idx, ctx=None):
        i = int(idx)
        self._rec(ctx, "fl", i)
        return PY_FLOATS[i % len(PY_FLOATS)] + (i // len(PY_FLOATS))

    def getitem_flag(self, idx, ctx=None):
        i = int(idx)
        self._rec(ctx, "flag", i)
        return i % 3 != 1

    def getitem_npf(self, idx, ctx=None):
        i = int(idx)
        self._rec(ctx, "npf", i)
        return np.float64(PY_FLOATS[(i + 1) % len(PY_FLOATS)])

    def getitem_npi(self, idx, ctx=None):
        i = int(idx)
        self._rec(ctx, "npi", i)
        return np.int16(i - 3)

    def getitem_bbox(self, idx, ctx=None):
        i = int(idx)
        self._rec(ctx, "bbox", i)
        return [i + 0.5, 2.0 * i, 16777217.0, 0.1 * (i + 1)]

    def getitem_ilist(self, idx, ctx=None):
        i = int(idx)
        self._rec(ctx, "ilist", i)
        return [i, i + 10, -i]

    def getitem_tup(self, idx, ctx=None):
        i = int(idx)
        self._rec(ctx, "tup", i)
        return (i, i + 0.25)

    def getitem_nest(self, idx, ctx=None):
        i = int(idx)
        self._rec(ctx, "nest", i)
        return [[i, i + 1], [i + 2.5]]

    def getitem_dct(self, idx, ctx=None):
        i = int(idx)
        self._rec(ctx, "dct", i)
        return {"a": i, "b": i / 8, "c": [i, 1.5]}

    def getitem_name(self, idx, ctx=None):
        i = int(idx)
        self._rec(ctx, "name", i)
        return f"n{i}"


# --------------------------------------------------------------------------------------------- comparison / snapshots
def cv(v):
    """canonical value: tensors by dtype/shape/bytes; list and tuple are both 'seq' (default collation returns lists
    where the dataset returned tuples - the property fixes 'bare / sequence of n', not the container class)"""
    if torch.is_tensor(v):
        return ("tensor", str(v.dtype), tuple(v.shape), v.detach().contiguous().numpy().tobytes())
    if isinstance(v, (list, tuple)):
        return ("seq", tuple(cv(x) for x in v))
    if isinstance(v, dict):
        return ("dict", tuple(sorted((repr(k), cv(x)) for k, x in v.items())))
    if isinstance(v, float):
        return ("float", v.hex())
    return ("py", type(v).__name__, repr(v))


def eq(a, b):
    return cv(a) == cv(b)


def snap(v):
    if torch.is_tensor(v):
        return v.detach().clone()
    if isinstance(v, list):
        return [snap(x) for x in v]
    if isinstance(v, tuple):
        return tuple(snap(x) for x in v)
    if isinstance(v, dict):
        return {k: snap(x) for k, x in v.items()}
    return v


def describe(v, depth=0):
    """short structural description for messages"""
    if torch.is_tensor(v):
        flat = v.flatten()[:4].tolist()
        return f"T{tuple(v.shape)}{str(v.dtype).replace('torch.', ':')}{flat}"
    if isinstance(v, (list, tuple)):
        inner = ", ".join(describe(x, depth + 1) for x in list(v)[:9])
        more = ", …" if len(v) > 9 else ""
        return ("[" if isinstance(v, list) else "(") + inner + more + ("]" if isinstance(v, list) else ")")
    if isinstance(v, dict):
        return "{" + ", ".join(f"{k}: {describe(x, depth + 1)}" for k, x in list(v.items())[:12]) + "}"
    return repr(v)


# --------------------------------------------------------------------------------------------- editing helpers
def edit_value(v, k):
    """the visible, order-sensitive operation of member k (exact in float32/float64 for the values used)"""
    return v * 2 + (k + 1)


def set_item_checked(mode, item, container, value, flags):
    """ModeWrapper.set_item as the shipped collators use it; the harness verifies the helper kept the container layout
    (bare stays bare, n entries stay n entries). If not, the defect is recorded and the correct container is used so
    that the pipeline oracle stays independent of that helper."""
    items = mode.split(" ")
    try:
        got = ModeWrapper.set_item(mode=mode, item=item, batch=container, value=value)
    except Exception as e:  # noqa: BLE001
        flags.append({"helper": "ModeWrapper.set_item", "mode": mode, "item": item, "container": describe(container),
                      "returned": f"raised {type(e).__name__}: {e}"})
        if len(items) == 1:
            return value
        return tuple(value if j == items.index(item) else it for j, it in enumerate(container))
    if len(items) == 1:
        good = value
        ok = not isinstance(got, (list, tuple)) and eq(got, good)
    else:
        pos = items.index(item)
        good = tuple(value if j == pos else it for j, it in enumerate(container))
        ok = isinstance(got, (list, tuple)) and eq(got, good)
    if not ok:
        flags.append({"helper": "ModeWrapper.set_item", "mode": mode, "item": item, "container": describe(container),
                      "returned": describe(got)})
        return good
    return got


class RecMember(KDSingleCollator):
    """member k of a pipeline: logs what it is given, tags ctx, applies `edit_value` to one item.

    cmode 'before' -> written for collated data; 'after' -> written for raw samples (default collation follows);
    None -> written for raw samples; the pipeline never collates on its behalf. With keep_raw=False it collates them
    itself (like PadSequencesCollator); with keep_raw=True it is a per-sample collator that returns the list of samples
    uncollated, so the members behind it decide the collation point."""

    def __init__(self, k, cmode, op_item=None, keep_raw=False, **kwargs):
        super().__init__(**kwargs)
        self.k, self.cmode, self.op_item, self.keep_raw = k, cmode, op_item, keep_raw
        self.log = []
        self.flags = []
        self.errors = []

    @property
    def default_collate_mode(self):
        return self.cmode

    def collate(self, batch, dataset_mode, ctx=None):
        self.log.append({"input": snap(batch), "ctx_in": None if ctx is None else snap(ctx), "mode_arg": dataset_mode,
                         "container": type(batch).__name__})
        if ctx is not None:
            ctx[f"tag{self.k}"] = torch.tensor([self.k, 7])
            ctx[f"tagpy{self.k}"] = f"member{self.k}"
        out = batch
        try:  # a member handed the wrong kind of data must not turn the pipeline's fault into its own exception
            out = self._apply(batch, dataset_mode)
        except Exception as e:  # noqa: BLE001
            self.errors.append(f"{type(e).__name__}: {e}")
            out = batch
        return out

    def _apply(self, batch, dataset_mode):
        item = self.op_item if (self.op_item is not None and self.op_item in dataset_mode.split(" ")) else None
        if self.cmode == "before":
            if item is None:
                return batch
            v = ModeWrapper.get_item(mode=dataset_mode, item=item, batch=batch)
            return set_item_checked(dataset_mode, item, batch, edit_value(v, self.k), self.flags)
        samples = list(batch)
        if item is not None:
            new = []
            for s in samples:
                v = ModeWrapper.get_item(mode=dataset_mode, item=item, batch=s)
                new.append(set_item_checked(dataset_mode, item, s, edit_value(v, self.k), self.flags))
            samples = new
        if self.cmode is None and not self.keep_raw:
            return default_collate(samples)
        return samples
