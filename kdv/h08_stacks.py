"""Stacks of seeded sample wrappers for C08: harness root dataset, JSON-able stack specs, generators, builders, index model.

A *stack spec* is a list of layer dicts, bottom (next to the root dataset) first:

  {"w": "xtw", "item": "x"|"y"|"source"|"target", "tree": node, "seed": s|None, "in": T}    X/Y/Source/TargetTransformWrapper
  {"w": "mv", "configs": [cfg...], "seed": s, "in": T}                                       KDMultiViewWrapper
        cfg = {"form": <one of MV_FORMS>, "n": k, "tree": node|None}
  {"w": "mix", "mixup_p": p, "mixup_alpha": a, "seed": s, "in": T}                           KDMixWrapper (mixup only)
  {"w": "semseg", "members": [leaf node...], "seed": s, "in": T}                             SemsegTransformWrapper
  {"w": "byol_mv" | "minaug_mv" | "minaug_x" | "noaug_x" | "mugs_mv", ..., "seed": s, "in": T}   kappadata.common.wrappers
  {"w": "subset", "indices": [...]}                                                          KDSubset
  {"w": "repeat", "repetitions": k}                                                          RepeatWrapper

`node` / `T` are the transform-tree / type dicts of kdv/h07_recipes.py. "in" is the type of the item the layer is fed with
(it makes every seeded layer a self-contained spec, used to name the layer a violation comes from).
"""
from __future__ import annotations

import random as pyrandom

import numpy as np
import torch

from kappadata.datasets.kd_dataset import KDDataset

from . import h07_recipes as H

SEEDED = ("xtw", "mv", "mix", "semseg", "byol_mv", "minaug_mv", "minaug_x", "noaug_x", "mugs_mv")
BOUNDARY_SEEDS = [0, 1, 5, 2 ** 31 - 1, 2 ** 32 - 1, 2 ** 32, 2 ** 62]
MV_FORMS_PLAIN = ["int", "tuple_none", "dict_n"]                      # identity views
MV_FORMS_TREE = ["obj", "tuple", "list2", "dict", "dict_t", "dataclass"]  # + "dict_kind", "bare_list" where the tree allows it
HUGE_BATCH = 2 ** 40


# ------------------------------------------------------------------------------------------------- root dataset
class C08Root(KDDataset):
    """root dataset (module level: usable from forked dataloader workers). Every load returns a *fresh copy* of a sample that
    was generated once from (data_seed, index) - or from data_seed alone when `const` (identical underlying samples)."""

    def __init__(self, n, T, data_seed, const=False, items=("x",), classes=None, n_classes=None):
        super().__init__()
        self.n = n
        self.T = T
        self._data = {}
        for k, item in enumerate(items):
            vals = []
            for i in range(n):
                s = data_seed * 4099 + 1000003 * k + (0 if const else i + 1)
                vals.append(H.make_input(T, s))
            if T["kind"] == "semseg":
                self._data["x"] = [v[0] for v in vals]
                self._data["semseg"] = [v[1] for v in vals]
            else:
                self._data[item] = vals
        self.classes = list(classes) if classes is not None else [i % 3 for i in range(n)]
        self._n_classes = n_classes if n_classes is not None else max(self.classes + [0]) + 1

    def _get(self, item, idx):
        i = int(idx)
        if not 0 <= i < self.n:
            raise IndexError(f"C08Root: index {idx} out of range for size {self.n}")
        return H.clone_input(self._data[item][i])

    def getitem_x(self, idx, ctx=None):
        return self._get("x", idx)

    def getitem_y(self, idx, ctx=None):
        return self._get("y", idx)

    def getitem_source(self, idx, ctx=None):
        return self._get("source", idx)

    def getitem_target(self, idx, ctx=None):
        return self._get("target", idx)

    def getitem_semseg(self, idx, ctx=None):
        return self._get("semseg", idx)

    def getitem_class(self, idx, ctx=None):
        return self.classes[int(idx)]

    def getshape_class(self):
        return (self._n_classes,)

    def __len__(self):
        return self.n


def neg_view(x):
    """a deterministic callable that is not a KDTransform (multi-view config member)"""
    return -x if torch.is_tensor(x) else x


def identity_collate(batch):
    return batch


# ------------------------------------------------------------------------------------------------- tree helpers
def leaf(recipe, params, T, **kw):
    return dict({"t": "leaf", "recipe": recipe, "params": params, "in": H.single(T)}, **kw)


def scheduled_nodes(tree):
    return [n for n in H.iter_nodes(tree) if n["t"] == "scheduled"]


def layer_trees(layer):
    if layer["w"] == "xtw":
        return [layer["tree"]]
    if layer["w"] == "mv":
        return [c["tree"] for c in layer["configs"] if c.get("tree") is not None]
    if layer["w"] == "semseg":
        return list(layer["members"])
    return []


def worker_safe(layers):
    """may the stack run inside dataloader *worker processes*? A KDScheduledTransform refuses to run in a worker unless its
    worker hook was called with progress arguments, and its strength then depends on the worker rank - unless the schedule is
    constant. Only stacks whose schedules are all (initialised, constant) are sent to workers."""
    for l in layers:
        for tree in layer_trees(l):
            for n in scheduled_nodes(tree):
                if not n.get("active") or not isinstance(n.get("schedule"), (int, float)):
                    return False
    return True


def has_scheduled(layers):
    return any(scheduled_nodes(t) for l in layers for t in layer_trees(l))


def is_rec(node):
    return node["t"].startswith("rec")


def node_label(node):
    return "RecDraws" if is_rec(node) else H.node_label(node)


def node_depth(node):
    return (1 if node["t"] == "rec_compose" else 0) if is_rec(node) else H.node_depth(node)


def stochastic_layer(layer):
    if any(is_rec(t) for t in layer_trees(layer)):
        return True
    if layer["w"] in ("mix", "byol_mv", "minaug_mv", "minaug_x", "mugs_mv"):
        return True
    return any(H.has_stochastic_leaf(t) for t in layer_trees(layer))


def wrapper_family(layer):
    return {"xtw": "TransformWrapperBase", "minaug_x": "TransformWrapperBase", "noaug_x": "TransformWrapperBase",
            "mv": "KDMultiViewWrapper", "byol_mv": "KDMultiViewWrapper", "minaug_mv": "KDMultiViewWrapper",
            "mix": "KDMixWrapper", "semseg": "SemsegTransformWrapper", "mugs_mv": "MUGSMultiViewWrapper"}[layer["w"]]


def wrapper_class_name(layer):
    if layer["w"] == "xtw":
        return {"x": "XTransformWrapper", "y": "YTransformWrapper", "source": "SourceTransformWrapper", "target": "TargetTransformWrapper"}[layer["item"]]
    return {"mv": "KDMultiViewWrapper", "mix": "KDMixWrapper", "semseg": "SemsegTransformWrapper", "byol_mv": "ByolMultiViewWrapper",
            "minaug_mv": "ImagenetMinaugMultiViewWrapper", "minaug_x": "ImagenetMinaugXTransformWrapper",
            "noaug_x": "ImagenetNoaugXTransformWrapper", "mugs_mv": "MUGSMultiViewWrapper", "subset": "KDSubset", "repeat": "RepeatWrapper"}[layer["w"]]


# ------------------------------------------------------------------------------------------------- index model
def layer_len(layer, n_inner):
    if layer["w"] == "subset":
        return len(layer["indices"])
    if layer["w"] == "repeat":
        return n_inner * layer["repetitions"]
    return n_inner


def stack_len(n, layers):
    for l in layers:
        n = layer_len(l, n)
    return n


def seen_index(n, layers, pos, j):
    """index that layer `pos` is asked for when the top of the stack is asked for j (index maps of KDSubset / RepeatWrapper:
    indices[j] / round-robin tiling, as documented)"""
    lens = [n]
    for l in layers:
        lens.append(layer_len(l, lens[-1]))
    for k in range(len(layers) - 1, pos, -1):
        l = layers[k]
        if l["w"] == "subset":
            j = l["indices"][j]
        elif l["w"] == "repeat":
            j = j % lens[k]
    return j


# ------------------------------------------------------------------------------------------------- recording transform
REC_FLOATS, REC_INTS = 6, 3


def _make_rec_class():
    from kappadata.transforms.base.kd_stochastic_transform import KDStochasticTransform

    class RecDraws(KDStochasticTransform):
        """a stochastic KDTransform the way a user writes one (cf. tests_util ReplaceWithRandomTransform): ignores its input and
        returns the raw draws it took from its generator - 6 rng.random() values and 3 full-range 64-bit integers"""

        def __call__(self, x, ctx=None):
            fl = [float(v) for v in self.rng.random(REC_FLOATS)]
            it = [int(v) for v in self.rng.integers(0, 2 ** 64, size=REC_INTS, dtype=np.uint64)]
            return fl + it

    RecDraws.__module__ = __name__
    RecDraws.__qualname__ = "RecDraws"
    return RecDraws


RecDraws = _make_rec_class()


def draw_keys(value):
    """the 53 leading bits of every raw 64-bit draw recorded in an output of RecDraws (nested lists / tuples of views allowed):
    rng.random() is (raw >> 11) * 2^-53, the integers are the raw draws themselves"""
    out = []
    if isinstance(value, (list, tuple)):
        for v in value:
            out += draw_keys(v)
    elif isinstance(value, float):
        out.append(int(value * 2 ** 53))
    elif isinstance(value, int) and not isinstance(value, bool):
        out.append(value >> 11)
    return out


def build_tree(node):
    if node["t"] == "rec":
        return RecDraws()
    if node["t"] == "rec_compose":
        import kappadata.transforms as kdt
        return kdt.KDComposeTransform([kdt.KDIdentityTransform(), RecDraws()])
    return H.build_composition(node)


# ------------------------------------------------------------------------------------------------- building
def _build_tree_for_wrapper(node):
    """transform argument of a wrapper: instance, bare list (implicit compose, resolved by the wrapper) or dict(kind=...)"""
    if node["t"] == "compose" and node.get("implicit"):
        return [build_tree(m) for m in node["members"]]
    if node["t"] == "leaf" and node.get("via") == "dict":
        return H._leaf_as_dict(node)
    return build_tree(node)


def _mv_config(cfg):
    from kappadata.wrappers.sample_wrappers.kd_multi_view_wrapper import KDMultiViewConfig
    form, n = cfg["form"], cfg.get("n", 1)
    tree = cfg.get("tree")
    if form == "int":
        return n
    if form == "tuple_none":
        return (n, None)
    if form == "dict_n":
        return dict(n_views=n)
    if form == "callable":
        return (n, neg_view)
    if form == "dict_kind":
        return (n, H._leaf_as_dict(tree))
    if form == "bare_list":
        return [build_tree(m) for m in tree["members"]]
    t = build_tree(tree)
    if form == "obj":
        return t
    if form == "tuple":
        return (n, t)
    if form == "list2":
        return [n, t]
    if form == "dict":
        return dict(n_views=n, transform=t)
    if form == "dict_t":
        return dict(transform=t)
    if form == "dataclass":
        return KDMultiViewConfig(n_views=n, transform=t)
    raise ValueError(form)


def mv_views(cfg):
    return 1 if cfg["form"] in ("obj", "dict_t", "bare_list") else cfg.get("n", 1)


RECONF = ("xtw", "mv", "semseg")  # families whose transform(s) are public, reassignable attributes (transform / transform_configs[k].transform / transforms)


def _decoy(k=0):
    """a transform the wrapper is constructed with and that is replaced before the first request"""
    import kappadata.transforms as kdt
    return [RecDraws, lambda: kdt.KDAdditiveGaussianNoise(std=1.0), lambda: kdt.KDComposeTransform([RecDraws()]), kdt.KDIdentityTransform][k % 4]()


def _final_transform(node):
    from kappadata.factory import object_to_transform
    return object_to_transform(_build_tree_for_wrapper(node))  # bare lists / dict(kind=...) resolved the way the constructors do


def _mv_final(cfg):
    import kappadata.transforms as kdt
    from kappadata.factory import object_to_transform
    form, tree = cfg["form"], cfg.get("tree")
    if tree is None:
        return neg_view if form == "callable" else kdt.KDIdentityTransform()
    if form == "dict_kind":
        return object_to_transform(H._leaf_as_dict(tree))
    if form == "bare_list":
        return object_to_transform([build_tree(m) for m in tree["members"]])
    return build_tree(tree)


def build_layer_reconfigured(ds, layer, k=0):
    """the wrapper constructed with decoy transform(s); the final transform(s) are then assigned through the public attributes"""
    import kappadata.wrappers as kdw
    w = layer["w"]
    if w == "xtw":
        cls = {"x": kdw.XTransformWrapper, "y": kdw.YTransformWrapper, "source": kdw.SourceTransformWrapper, "target": kdw.TargetTransformWrapper}[layer["item"]]
        kw = {} if layer.get("seed") is None else {"seed": layer["seed"]}
        wr = cls(dataset=ds, transform=_decoy(k), **kw)
        wr.transform = _final_transform(layer["tree"])
        return wr
    if w == "mv":
        wr = kdw.KDMultiViewWrapper(dataset=ds, configs=[(mv_views(c), _decoy(k + j)) for j, c in enumerate(layer["configs"])], seed=layer["seed"])
        for cfg_obj, c in zip(wr.transform_configs, layer["configs"]):
            cfg_obj.transform = _mv_final(c)
        return wr
    if w == "semseg":
        wr = kdw.SemsegTransformWrapper(dataset=ds, transforms=[_decoy(k)], seed=layer["seed"])
        finals = [_final_transform(m) for m in layer["members"]]
        # only the public attribute is assigned: whether the stored container can be edited in place is not part of any promise
        wr.transforms = finals
        return wr
    raise ValueError(w)


def build_layer(ds, layer):
    import kappadata.wrappers as kdw
    import kappadata.common.wrappers as kcw
    from kappadata.datasets.kd_subset import KDSubset
    w = layer["w"]
    if w == "xtw":
        cls = {"x": kdw.XTransformWrapper, "y": kdw.YTransformWrapper, "source": kdw.SourceTransformWrapper, "target": kdw.TargetTransformWrapper}[layer["item"]]
        kw = {} if layer.get("seed") is None else {"seed": layer["seed"]}
        return cls(dataset=ds, transform=_build_tree_for_wrapper(layer["tree"]), **kw)
    if w == "mv":
        return kdw.KDMultiViewWrapper(dataset=ds, configs=[_mv_config(c) for c in layer["configs"]], seed=layer["seed"])
    if w == "mix":
        return kdw.KDMixWrapper(dataset=ds, mixup_p=layer["mixup_p"], mixup_alpha=layer["mixup_alpha"], seed=layer["seed"])
    if w == "semseg":
        return kdw.SemsegTransformWrapper(dataset=ds, transforms=[_build_tree_for_wrapper(m) for m in layer["members"]], seed=layer["seed"])
    if w == "byol_mv":
        return kcw.ByolMultiViewWrapper(dataset=ds, seed=layer["seed"])
    if w == "minaug_mv":
        return kcw.ImagenetMinaugMultiViewWrapper(dataset=ds, n_views=layer["n_views"], size=layer["size"], min_scale=layer["min_scale"],
                                                  interpolation=layer["interpolation"], seed=layer["seed"])
    if w == "minaug_x":
        return kcw.ImagenetMinaugXTransformWrapper(dataset=ds, size=layer["size"], min_scale=layer["min_scale"], seed=layer["seed"])
    if w == "noaug_x":
        return kcw.ImagenetNoaugXTransformWrapper(dataset=ds, resize_size=layer["resize_size"], center_crop_size=layer["center_crop_size"], seed=layer["seed"])
    if w == "mugs_mv":
        return kcw.MUGSMultiViewWrapper(dataset=ds, global_size=layer["global_size"], local_size=layer["local_size"],
                                        num_local_crops=layer["num_local_crops"], seed=layer["seed"])
    if w == "subset":
        return KDSubset(ds, list(layer["indices"]))
    if w == "repeat":
        return kdw.RepeatWrapper(ds, repetitions=layer["repetitions"])
    raise ValueError(w)


def root_items(layers):
    items = {"x"}
    for l in layers:
        if l["w"] == "xtw":
            items.add(l["item"])
    return tuple(sorted(items))


def build_stack(spec, progress=None, reconf=False):
    """-> ModeWrapper over the real stack. `progress["layer"]` names the layer under construction (for naming a crash).
    reconf: layers of the RECONF families are constructed with decoys and reconfigured through their public attributes"""
    from kappadata.wrappers import ModeWrapper
    progress = progress if progress is not None else {}
    progress["layer"] = None
    d = spec["data"]
    ds = C08Root(spec["n"], d["T"], d["seed"], const=d.get("const", False), items=root_items(spec["layers"]),
                 classes=d.get("classes"), n_classes=d.get("n_classes"))
    for i, layer in enumerate(spec["layers"]):
        progress["layer"] = i
        if reconf and layer["w"] in RECONF:
            ds = build_layer_reconfigured(ds, layer, k=spec["data"]["seed"] + i)
        else:
            ds = build_layer(ds, layer)
    progress["layer"] = "mode"
    return ModeWrapper(dataset=ds, mode=spec["mode"], return_ctx=bool(spec.get("return_ctx")))


# ------------------------------------------------------------------------------------------------- generation
def gen_seed(rng):
    """seed of a seeded wrapper: 0 (falsy - a truthiness test `if self.seed` treats it as 'no seed') in 25% of the draws,
    another boundary value in 25%, arbitrary otherwise"""
    u = rng.random()
    if u < 0.25:
        return 0
    if u < 0.5:
        return rng.choice(BOUNDARY_SEEDS[1:])
    return rng.randrange(1, 2 ** 40)


def gen_subset(rng, n):
    """KDSubset layer over a dataset of size n: permuted, with duplicates, possibly shorter / longer"""
    m = max(1, rng.choice([n, n, n - 1, n + 2, max(1, n // 2)]))
    mode = rng.choice(["perm", "dups", "rev"])
    if mode == "perm":
        idx = list(range(n))
        rng.shuffle(idx)
        idx = (idx * 2)[:m]
    elif mode == "rev":
        idx = list(range(n - 1, -1, -1))[:m] or [0]
    else:
        idx = [rng.randrange(n) for _ in range(m)]
    return {"w": "subset", "indices": idx}


def gen_remap(rng, n):
    if rng.random() < 0.6:
        return gen_subset(rng, n)
    return {"w": "repeat", "repetitions": rng.choice([2, 2, 3])}


def img_type(rng, kinds=("pil", "tensor", "tensor", "tensor1"), lo=8, hi=32):
    k = rng.choice(kinds)
    mult = rng.choice([1, 4, 4, 8])
    h, w = H._rand_hw(rng, lo, hi, mult=mult)
    if k == "tensor1":
        return H.t_img("tensor", 1, h, w)
    return H.t_img(k, 3, h, w)


def gen_tree(rng, T, flags, depth=None, want=None, tries=30):
    """random transform tree for items of type T; `want(node, outT)` filters"""
    for _ in range(tries):
        d = depth if depth is not None else rng.choice([0, 1, 1, 2, 2, 3])
        node, outT = H.gen_composition(rng, T, d, flags)
        if want is None or want(node, outT):
            if node["t"] == "compose" and rng.random() < 0.2:
                node["implicit"] = True  # handed to the wrapper as a bare list
            elif node["t"] == "leaf" and H.factory_resolvable(H.RECIPES[node["recipe"]]) and rng.random() < 0.15:
                node["via"] = "dict"
            return node, outT
    return None


def det_tree(rng, T):
    """deterministic tree of KDTransforms that keeps the type (layer below a multi-view wrapper / a second transform wrapper)"""
    names = ["det_kd_identity", "det_hflip"]
    members = [leaf(rng.choice(names), {}, T) for _ in range(rng.choice([1, 1, 2]))]
    if len(members) == 1 and rng.random() < 0.5:
        return members[0]
    return {"t": "compose", "members": members, "in": H.single(T)}


def gen_mv_configs(rng, T, flags):
    cfgs = []
    k = rng.choice([1, 2, 2, 3])
    for _ in range(k):
        n = rng.choice([1, 2, 2, 3])
        if rng.random() < 0.2:
            form = rng.choice(MV_FORMS_PLAIN + (["callable"] if T["kind"] == "tensor" else []))
            cfgs.append({"form": form, "n": n, "tree": None})
            continue
        o = gen_tree(rng, T, flags, depth=rng.choice([0, 1, 1, 2]))
        node = o[0]
        node.pop("implicit", None)
        via_dict = node.pop("via", None) == "dict"
        forms = list(MV_FORMS_TREE)
        if via_dict:
            forms = ["dict_kind"]
        elif node["t"] == "compose" and not (len(node["members"]) == 2):
            forms += ["bare_list", "bare_list"]
        cfgs.append({"form": rng.choice(forms), "n": n, "tree": node})
    return cfgs


SEMSEG_PAIR = ["semseg_random_crop", "semseg_random_horizontal_flip", "semseg_random_resize", "det_semseg_pad", "det_semseg_resize"]


def _semseg_crop_half(cur):
    return leaf("semseg_random_crop", {"size": [max(1, cur["h"] // 2), max(1, cur["w"] // 2)], "max_category_ratio": 1.0, "ignore_index": -1}, cur), \
        dict(cur, h=max(1, cur["h"] // 2), w=max(1, cur["w"] // 2))


def _drawing_image_leaf(rng, cur):
    """an image-only transform that consumes its generator on every call (the mask passes by, the shared stream moves on)"""
    Tx = H.t_img(cur["xkind"], 3, cur["h"], cur["w"])
    if cur["xkind"] == "tensor":
        return rng.choice([leaf("additive_gaussian_noise", dict(NOISE), Tx), leaf("additive_uniform_noise", {"magnitude": 1.0, "magnitude_std": 0.0}, Tx),
                           leaf("color_jitter", {"brightness": 0.4, "contrast": 0.4, "saturation": 0.2, "hue": 0.1}, Tx)])
    return leaf("color_jitter", {"brightness": 0.4, "contrast": 0.4, "saturation": 0.2, "hue": 0.1}, Tx)


def gen_semseg_members(rng, T, flags):
    cur = dict(T)
    members = []
    if rng.random() < 0.4 and cur["h"] is not None and min(cur["h"], cur["w"]) >= 4:
        # a drawing image-only transform *before* drawing pair transforms: all members share the per-sample generator, so the
        # crop / flip of the mask depends on the image-only member having consumed its part of the stream
        members.append(_drawing_image_leaf(rng, cur))
        m, cur = _semseg_crop_half(cur)
        members.append(m)
        if rng.random() < 0.5:
            members.append(leaf("semseg_random_horizontal_flip", {"p": 0.5}, cur))
    for _ in range(rng.choice([1, 2, 3, 3, 4])):
        if rng.random() < 0.7:
            name = rng.choice(SEMSEG_PAIR)
            o = H.RECIPES[name].sample(rng, cur)
            if o is None:
                continue
            members.append(leaf(name, o[0], cur))
            cur = o[1]
        else:
            # a transform of the image alone (the mask passes by): keeps kind and size
            known = cur["h"] is not None
            Tx = H.t_img(cur["xkind"], 3, cur["h"] if known else 16, cur["w"] if known else 16)
            if cur.get("alias"):
                Tx["alias"] = True
            o = None
            if known:
                o = H.gen_leaf(rng, Tx, dict(flags, preserve=True, no_multi=True, no_pipeline=True), want_stochastic=True)
            else:
                name = rng.choice(["color_jitter", "random_color_jitter", "random_solarize"])
                oo = H.RECIPES[name].sample(rng, Tx)
                if oo is not None:
                    o = (leaf(name, oo[0], Tx), oo[1])
            if o is None:
                continue
            members.append(o[0])
            if o[1].get("alias"):
                cur["alias"] = True
    if not members:
        members.append(leaf("semseg_random_horizontal_flip", {"p": 0.5}, cur))
    return members


def _modes(rng, item="x", extra=("class",)):
    base = [item, item, f"{item} index", f"index {item}"]
    for e in extra:
        base += [f"{item} {e}", f"{e} {item}"]
    return rng.choice(base)


def gen_stack(rng, flags, family=None):
    """-> dict(n, data, layers, mode, return_ctx) | None. Only in-domain stacks: every stochastic layer carries a seed."""
    family = family or rng.choice(["xtw", "xtw", "xtw", "xtw2", "mv", "mv", "mix", "semseg", "semseg", "common"])
    n = rng.choice([2, 3, 4, 4, 5, 6])
    layers = []
    below = rng.random() < 0.3
    above = rng.random() < 0.35
    data = {"seed": rng.randrange(10 ** 6), "const": rng.random() < 0.25}
    n_cur = n
    mode = "x"
    return_ctx = rng.random() < 0.3

    def remap_below():
        nonlocal n_cur
        if below:
            l = gen_remap(rng, n_cur)
            layers.append(l)
            n_cur = layer_len(l, n_cur)

    def remap_above():
        nonlocal n_cur
        if above:
            l = gen_remap(rng, n_cur)
            layers.append(l)
            n_cur = layer_len(l, n_cur)

    if family in ("xtw", "xtw2"):
        T = rng.choice([img_type(rng), img_type(rng), H.random_input_type(rng, "patches")])
        data["T"] = T
        remap_below()
        item = rng.choice(["x", "x", "x", "y", "source", "target"]) if family == "xtw" else "x"
        o = gen_tree(rng, T, flags)
        layers.append({"w": "xtw", "item": item, "tree": o[0], "seed": gen_seed(rng), "in": T})
        outT = o[1]
        if family == "xtw2" and outT["kind"] != "semseg_stack":
            if rng.random() < 0.5 and not outT.get("multi"):
                layers.insert(len(layers) - 1, {"w": "xtw", "item": "x", "tree": det_tree(rng, T), "seed": rng.choice([None, gen_seed(rng)]), "in": T})
            elif outT.get("multi"):
                # a list of views flows upwards: only a compose applies its members element-wise
                t2 = gen_tree(rng, H.single(outT), flags, want=lambda nd, oT: nd["t"] == "compose", depth=rng.choice([1, 2]))
                if t2 is not None:
                    layers.append({"w": "xtw", "item": "x", "tree": t2[0], "seed": gen_seed(rng), "in": outT})
            else:
                same = rng.random() < 0.3
                t2 = gen_tree(rng, outT, flags)
                layers.append({"w": "xtw", "item": "x", "tree": t2[0], "seed": layers[-1]["seed"] if same else gen_seed(rng), "in": outT})
        remap_above()
        mode = _modes(rng, item, extra=("class", "x") if item != "x" else ("class",))
    elif family == "mv":
        T = img_type(rng)
        data["T"] = T
        remap_below()
        if rng.random() < 0.25:
            layers.append({"w": "xtw", "item": "x", "tree": det_tree(rng, T), "seed": None, "in": T})
        layers.append({"w": "mv", "configs": gen_mv_configs(rng, T, flags), "seed": gen_seed(rng), "in": T})
        remap_above()
        mode = _modes(rng)
    elif family == "mix":
        T = img_type(rng, kinds=("tensor", "tensor1"))
        data["T"] = T
        n = rng.choice([2, 3, 4, 5, 6])
        n_cur = n
        ncls = rng.choice([2, 3, n])
        data["classes"] = [rng.randrange(ncls) for _ in range(n)]
        data["n_classes"] = ncls
        remap_below()
        cur = T
        ok = lambda nd, oT: oT["kind"] == "tensor" and not oT.get("multi") and not oT.get("alias") and oT.get("h") is not None
        if rng.random() < 0.35:
            o = gen_tree(rng, T, flags, want=ok)
            if o is not None:
                layers.append({"w": "xtw", "item": "x", "tree": o[0], "seed": gen_seed(rng), "in": T})
                cur = o[1]
        layers.append({"w": "mix", "mixup_p": rng.choice([1.0, 1.0, 0.5, 0.7, 0.3]), "mixup_alpha": rng.choice([0.8, 1.0, 2.0, 0.4]),
                       "seed": gen_seed(rng), "in": cur})
        if rng.random() < 0.5:
            o = gen_tree(rng, cur, flags)
            layers.append({"w": "xtw", "item": "x", "tree": o[0], "seed": gen_seed(rng), "in": cur})
        mode = rng.choice(["x class", "x class", "class x", "x", "class", "index x class", "class index"])
    elif family == "semseg":
        T = rng.choice(H._semseg_types(rng) + H._semseg_types_even(rng))
        data["T"] = T
        remap_below()
        layers.append({"w": "semseg", "members": gen_semseg_members(rng, T, flags), "seed": gen_seed(rng), "in": T})
        mode = rng.choice(["x semseg", "x semseg", "semseg x", "x", "semseg", "index x semseg", "semseg index"])
    elif family == "common":
        T = H.t_img("pil", 3, *H._rand_hw(rng, 12, 32))
        data["T"] = T
        n = rng.choice([2, 3, 4])
        n_cur = n
        remap_below()
        w = rng.choice(["byol_mv", "minaug_mv", "minaug_x", "mugs_mv", "mugs_mv", "noaug_x"])
        l = {"w": w, "seed": gen_seed(rng), "in": T}
        if w == "minaug_mv":
            l.update(n_views=rng.choice([1, 2, 3]), size=rng.choice([8, 16, 24]), min_scale=rng.choice([0.08, 0.3]),
                     interpolation=rng.choice(["bicubic", "bilinear"]))
        elif w == "minaug_x":
            l.update(size=rng.choice([8, 16, 24]), min_scale=rng.choice([0.08, 0.3]))
        elif w == "noaug_x":
            s = rng.choice([8, 16])
            l.update(resize_size=s + rng.choice([0, 4]), center_crop_size=s)
        elif w == "mugs_mv":
            l.update(global_size=rng.choice([16, 24, 32]), local_size=rng.choice([8, 12]), num_local_crops=rng.choice([0, 1, 2, 4]))
        layers.append(l)
        remap_above()
        mode = _modes(rng)
    else:
        raise ValueError(family)
    return {"family": family, "n": n, "data": data, "layers": layers, "mode": mode, "return_ctx": return_ctx}


# ------------------------------------------------------------------------------------------------- stream probes
NOISE = {"std": 0.3, "magnitude": 1.0, "magnitude_std": 0.0}
PROBE_SHAPES = ["leaf", "leaf_uniform", "rand_noise", "compose", "compose_implicit", "nested", "random_apply", "patchwise", "scheduled_inactive",
                "scheduled_active", "compose_patchwise", "compose_scheduled"]


def probe_tree(shape, T):
    """a transform whose output is its input plus element-wise independent continuous noise of scale >= 0.1 on *every* call
    (constant magnitude, no clipping, application probability 1, constant non-zero schedule strength)"""
    noise = leaf("additive_gaussian_noise", dict(NOISE), T)
    if shape == "leaf":
        return noise
    if shape == "leaf_uniform":
        return leaf("additive_uniform_noise", {"magnitude": 1.0, "magnitude_std": 0.0}, T)
    if shape == "rand_noise":
        return leaf("random_additive_gaussian_noise", {"p": 1.0, "std": 0.3, "magnitude": 0.8, "magnitude_std": 0.2, "magnitude_min": 0.4, "magnitude_max": 1.0}, T)
    if shape == "compose":
        return {"t": "compose", "members": [leaf("det_hflip", {}, T), noise], "in": T}
    if shape == "compose_implicit":
        return {"t": "compose", "members": [noise, leaf("det_kd_identity", {}, T)], "implicit": True, "in": T}
    if shape == "nested":
        return {"t": "compose", "members": [{"t": "compose", "members": [noise], "in": T}], "in": T}
    if shape == "random_apply":
        return {"t": "random_apply", "p": 1.0, "child": noise, "in": T}
    if shape in ("patchwise", "compose_patchwise"):
        p = 4
        Tp = H.t_img("tensor", T["c"], p, p)
        node = {"t": "patchwise", "patch": p, "child": leaf("additive_gaussian_noise", dict(NOISE), Tp), "in": T}
        return node if shape == "patchwise" else {"t": "compose", "members": [node], "in": T}
    if shape == "scheduled_inactive":
        return {"t": "scheduled", "child": noise, "schedule": None, "active": None, "in": T}
    if shape in ("scheduled_active", "compose_scheduled"):
        node = {"t": "scheduled", "child": noise, "schedule": 0.5, "active": {"rank": 0, "batch_size": HUGE_BATCH, "updates": 5}, "in": T}
        return node if shape == "scheduled_active" else {"t": "compose", "members": [node, leaf("det_kd_identity", {}, T)], "in": T}
    raise ValueError(shape)


def gen_probe(rng):
    """stack over *identical underlying samples* whose seeded layer adds continuous noise: distinct indices must differ"""
    wrapper = rng.choice(["xtw", "xtw", "xtw", "mv", "mv", "semseg", "mix"])
    n = rng.choice([4, 5, 6, 8])
    T = H.t_img("tensor", rng.choice([1, 3]), rng.choice([8, 12, 16]), rng.choice([8, 16]))
    data = {"T": T, "seed": rng.randrange(10 ** 6), "const": True}
    layers = []
    n_cur = n
    shape = rng.choice(PROBE_SHAPES)
    if rng.random() < 0.25 and wrapper != "mix":
        l = gen_remap(rng, n_cur)
        layers.append(l)
        n_cur = layer_len(l, n_cur)
    rule = "pairwise"
    mode = "x"
    if wrapper == "xtw":
        item = rng.choice(["x", "x", "y", "source", "target"])
        if item == "x" and rng.random() < 0.2:
            layers.append({"w": "xtw", "item": "x", "tree": det_tree(rng, T), "seed": None, "in": T})
        layers.append({"w": "xtw", "item": item, "tree": probe_tree(shape, T), "seed": gen_seed(rng), "in": T})
        pos = len(layers) - 1
        if item == "x" and rng.random() < 0.2:
            layers.append({"w": "xtw", "item": "x", "tree": det_tree(rng, T), "seed": None, "in": T})
        mode = item
    elif wrapper == "mv":
        tree = probe_tree(shape, T)
        implicit = tree.pop("implicit", False) if tree["t"] == "compose" else False
        forms = list(MV_FORMS_TREE) + (["bare_list"] if tree["t"] == "compose" and len(tree["members"]) != 2 else [])
        cfgs = [{"form": rng.choice(forms), "n": rng.choice([1, 2]), "tree": tree}]
        if rng.random() < 0.5:
            cfgs.insert(rng.randrange(2), {"form": rng.choice(MV_FORMS_PLAIN), "n": rng.choice([1, 2]), "tree": None})
        elif rng.random() < 0.5:
            cfgs.append({"form": "obj", "n": 1, "tree": probe_tree(rng.choice(PROBE_SHAPES[:4]), T)})
            cfgs[-1]["tree"].pop("implicit", None)
        layers.append({"w": "mv", "configs": cfgs, "seed": gen_seed(rng), "in": T})
        pos = len(layers) - 1
    elif wrapper == "semseg":
        Ts = H.t_semseg("tensor", T["h"], T["w"], ncls=5)
        data["T"] = Ts
        Tx = H.t_img("tensor", 3, T["h"], T["w"])
        tree = probe_tree(shape, Tx)
        tree.pop("implicit", None)
        members = [tree]
        if rng.random() < 0.4:
            members.insert(0, leaf("semseg_random_horizontal_flip", {"p": 0.5}, Ts))
        if rng.random() < 0.5:
            members.append(_semseg_crop_half(Ts)[0])  # a drawing pair transform after the drawing image-only one
        layers.append({"w": "semseg", "members": members, "seed": gen_seed(rng), "in": Ts})
        pos = len(layers) - 1
        mode = "x"
    else:  # mix: the continuous draw is the mixing weight, decoded from the label (class = sample id)
        n = rng.choice([6, 8, 10])
        n_cur = n
        data["const"] = False
        data["classes"] = list(range(n))
        data["n_classes"] = n
        layers.append({"w": "mix", "mixup_p": 1.0, "mixup_alpha": rng.choice([1.0, 1.0, 2.0, 1.5]), "seed": gen_seed(rng), "in": T})
        pos = len(layers) - 1
        rule = "mix-triple"
        mode = "class"
        shape = "mixup-weight"
    if wrapper not in ("mix", "semseg") and rng.random() < 0.3:
        l = gen_remap(rng, n_cur)
        layers.append(l)
    return {"family": "probe", "n": n, "data": data, "layers": layers, "mode": mode, "return_ctx": False,
            "probe": {"layer": pos, "rule": rule, "shape": shape, "wrapper": wrapper}}


def gen_fused(rng, flags):
    """a seeded XTransformWrapper *above* a seeded KDMixWrapper, read through the fused accessor (modes holding x and class):
    the transform adds noise on every call, so a generator that is not injected on that path is visible at once"""
    n = rng.choice([3, 4, 5, 6])
    T = H.t_img("tensor", rng.choice([1, 3]), rng.choice([8, 12, 16]), rng.choice([8, 16]))
    ncls = rng.choice([2, 3, n])
    data = {"T": T, "seed": rng.randrange(10 ** 6), "const": False, "classes": [rng.randrange(ncls) for _ in range(n)], "n_classes": ncls}
    layers = []
    if rng.random() < 0.3:
        layers.append(gen_remap(rng, n))
    if rng.random() < 0.3:
        layers.append({"w": "xtw", "item": "x", "tree": probe_tree(rng.choice(PROBE_SHAPES[:4]), T), "seed": gen_seed(rng), "in": T})
    layers.append({"w": "mix", "mixup_p": rng.choice([1.0, 0.5, 0.7]), "mixup_alpha": rng.choice([0.8, 1.0, 2.0]), "seed": gen_seed(rng), "in": T})
    layers.append({"w": "xtw", "item": "x", "tree": probe_tree(rng.choice(PROBE_SHAPES), T), "seed": gen_seed(rng), "in": T})
    mode = rng.choice(["x class", "x class", "class x", "index x class", "class x index", "x"])
    return {"family": "fused", "n": n, "data": data, "layers": layers, "mode": mode, "return_ctx": rng.random() < 0.3}


def gen_draw_probe(rng):
    """a seeded transform-wrapper family over the recording transform: the raw draws of every index are observable"""
    wrapper = rng.choice(["xtw", "xtw", "xtw", "mv", "mv", "mv", "semseg"])
    n = rng.choice([6, 7, 8, 10])
    T = H.t_img("tensor", 3, 8, 8)
    data = {"T": T, "seed": rng.randrange(10 ** 6), "const": rng.random() < 0.5}
    layers = []
    n_cur = n
    if rng.random() < 0.2:
        l = gen_remap(rng, n_cur)
        layers.append(l)
        n_cur = layer_len(l, n_cur)
    tree = {"t": rng.choice(["rec", "rec", "rec_compose"]), "in": T}
    mode = "x"
    if wrapper == "xtw":
        item = rng.choice(["x", "x", "y", "source", "target"])
        layers.append({"w": "xtw", "item": item, "tree": tree, "seed": gen_seed(rng), "in": T})
        mode = item
    elif wrapper == "mv":
        # one, two or three configs that all hold the recording transform: the draws of ANY view of index i are compared with
        # the draws of ANY view of every other index (within one index the configs may legitimately share a generator)
        k = rng.choice([1, 2, 2, 3])
        cfgs = [{"form": rng.choice(MV_FORMS_TREE), "n": rng.choice([1, 2]), "tree": dict(tree, t=rng.choice(["rec", "rec", "rec_compose"]))} for _ in range(k)]
        if rng.random() < 0.4:
            cfgs.insert(rng.randrange(len(cfgs) + 1), {"form": rng.choice(MV_FORMS_PLAIN), "n": 1, "tree": None})
        layers.append({"w": "mv", "configs": cfgs, "seed": gen_seed(rng), "in": T})
    else:
        Ts = H.t_semseg("tensor", 8, 8, ncls=5)
        data["T"] = Ts
        members = [dict(tree, **{"in": H.t_img("tensor", 3, 8, 8)})]
        if rng.random() < 0.5:
            members.insert(0, leaf("semseg_random_horizontal_flip", {"p": 0.5}, Ts))
        layers.append({"w": "semseg", "members": members, "seed": gen_seed(rng), "in": Ts})
    pos = len(layers) - 1
    if wrapper != "semseg" and rng.random() < 0.2:
        layers.append(gen_remap(rng, n_cur))
    return {"family": "probe", "n": n, "data": data, "layers": layers, "mode": mode, "return_ctx": False,
            "probe": {"layer": pos, "rule": "draws", "shape": tree["t"], "wrapper": wrapper}}


DECISION_WINDOW = 32


def gen_decision_probe(rng):
    """MUGSMultiViewWrapper over a window of 32 indices with the recorded ctx: its own weak/strong decision must vary"""
    T = H.t_img("pil", 3, 12, 12)
    layer = {"w": "mugs_mv", "seed": gen_seed(rng), "in": T, "global_size": rng.choice([8, 16]), "local_size": 8, "num_local_crops": rng.choice([0, 0, 1])}
    return {"family": "probe", "n": DECISION_WINDOW, "data": {"T": T, "seed": rng.randrange(10 ** 6), "const": rng.random() < 0.5}, "layers": [layer],
            "mode": "x", "return_ctx": True, "hist_cap": 6,
            "probe": {"layer": 0, "rule": "decisions", "ctx_key": "is_weak_global_aug", "window": DECISION_WINDOW, "shape": "is_weak_global_aug", "wrapper": "mugs_mv"}}


# ------------------------------------------------------------------------------------------------- request forms
FORM_ITEMS = {"semseg": ("x", "semseg"), "mix": ("x", "class")}


def fused_layer(layers):
    """position of the topmost wrapper that serves two items from one draw (x + semseg / x + class), or None"""
    for i in range(len(layers) - 1, -1, -1):
        if layers[i]["w"] in FORM_ITEMS:
            return i
    return None


# ------------------------------------------------------------------------------------------------- other interpreters
def table_digests(spec):
    """reference table of a stack spec as a list of digests (built under the spec's first global seed, index order)"""
    import hashlib
    import random as _pyrandom
    from .harness import canon_value
    g = spec["g"][0]
    np.random.seed(g % (2 ** 32))
    torch.default_generator.manual_seed(g)
    _pyrandom.seed(g)
    mw = build_stack(spec)
    return [hashlib.sha1(repr(canon_value(mw[i])).encode()).hexdigest() for i in range(len(mw))]


def child_tables(spec_path, out_path):
    """tables of the specs in `spec_path`, computed in this interpreter (see kdv/h08_child.py)"""
    import json
    import os
    import sys
    specs = json.load(open(spec_path))
    out = []
    for sp in specs:
        try:
            out.append({"digests": table_digests(sp)})
        except Exception as e:  # noqa: BLE001 - reported to the parent
            import traceback
            out.append({"error": f"{type(e).__name__}: {e}", "tb": traceback.format_exc()[-1200:]})
    json.dump({"hashseed": os.environ.get("PYTHONHASHSEED"), "hash_randomization": sys.flags.hash_randomization, "tables": out}, open(out_path, "w"))
