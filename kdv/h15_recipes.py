"""C15 helpers: discovery of classes that support strength scaling and, per class, a *recipe*
(how to draw constructor arguments inside the documented domain, which workload to feed, whether the class has an identity
at strength 0 and how exact it is)."""
from __future__ import annotations

import importlib
import inspect
import pkgutil

import numpy as np
import torch

from . import h15_recgen as R

INF = "inf"     # json-able spelling of float("inf")


def _num(v):
    return float("inf") if v == INF else v


# ------------------------------------------------------------------------------------------------ discovery
def discover():
    """-> ({class name: class} for every KDTransform subclass reporting supports_scale_strength(), [import problems])"""
    from kappadata.transforms.base.kd_transform import KDTransform
    found, problems = {}, []
    for pkgname in ("kappadata.transforms", "kappadata.common.transforms"):
        pkg = importlib.import_module(pkgname)
        for m in pkgutil.walk_packages(pkg.__path__, pkgname + "."):
            try:
                mod = importlib.import_module(m.name)
            except Exception as e:  # a module of the repository that cannot be imported (not this property's concern)
                problems.append(f"{m.name}: {type(e).__name__}: {e}")
                continue
            for n, o in vars(mod).items():
                if inspect.isclass(o) and issubclass(o, KDTransform) and o.__module__ == mod.__name__:
                    try:
                        if o.supports_scale_strength():
                            found[n] = o
                    except Exception as e:
                        problems.append(f"{n}.supports_scale_strength: {type(e).__name__}: {e}")
    return found, problems


# ------------------------------------------------------------------------------------------------ workloads
def make_input(inp):
    rng = np.random.default_rng(inp["seed"])
    h, w = inp.get("h", 10), inp.get("w", 12)
    if inp["kind"] == "pil":
        from PIL import Image
        a = rng.integers(0, 256, (h, w, 3), dtype=np.uint8)
        a[0, 0], a[0, 1], a[1, 0] = (0, 0, 0), (255, 255, 255), (255, 0, 128)    # the ends of the value range are present
        return Image.fromarray(a)
    if inp["kind"] == "tensor":
        # strictly inside (0, 1): float solarize inverts values >= threshold, thresholding zeroes values < threshold
        return torch.from_numpy(rng.uniform(0.02, 0.98, (3, h, w))).float()
    if inp["kind"] == "none":
        return None
    raise ValueError(inp["kind"])


def outputs_equal(a, b, tol):
    """identity comparison: PIL by mode/size/bytes, tensors by value (tolerance `tol`, 0 = exact)"""
    if torch.is_tensor(a) and torch.is_tensor(b):
        if a.shape != b.shape:
            return False, f"shape {tuple(a.shape)} vs {tuple(b.shape)}"
        if a.numel() == 0:
            return True, "empty"
        a64, b64 = a.double(), b.double()
        diff = (a64 - b64).abs()
        diff[(a64 == b64) | (torch.isnan(a64) & torch.isnan(b64))] = 0.0   # inf == inf, nan ~ nan
        diff[torch.isnan(diff)] = float("inf")
        d = diff.max().item()
        return d <= tol, f"max abs difference {d:.3g}"
    if torch.is_tensor(a) != torch.is_tensor(b):
        return False, f"type {type(a).__name__} vs {type(b).__name__}"
    if hasattr(a, "tobytes") and hasattr(b, "tobytes"):
        if a.mode != b.mode or a.size != b.size:
            return False, f"mode/size {a.mode}{a.size} vs {b.mode}{b.size}"
        d = int(np.abs(np.asarray(a).astype(int) - np.asarray(b).astype(int)).max())
        return d <= tol, f"max abs difference {d} levels"
    return a == b, "values differ"


# ------------------------------------------------------------------------------------------------ parameter generators
def _p(rng):
    return rng.choice([0.0, 1.0, 1.0, 0.5, 0.2, 0.8, 0.1, round(rng.uniform(0.01, 0.99), 3)])


def _mag_params(rng, top=1.0, key="magnitude", cap=None):
    """MagnitudeSampler arguments: 0 <= min <= magnitude <= max; std in {0, finite, inf}"""
    style = rng.choice(["const", "uniform", "normal", "normal"])
    mag = rng.choice([top, top, round(rng.uniform(0.05, 1.0) * top, 3), 0.0 if rng.random() < 0.15 else round(rng.uniform(0.1, 1.0) * top, 3)])
    mn = rng.choice([0.0, 0.0, round(rng.uniform(0.0, 1.0) * mag, 3), mag])
    mx = rng.choice([top if top >= mag else mag, mag, round(mag + rng.uniform(0.0, 1.0) * top, 3)])
    std = {"const": 0.0, "uniform": INF, "normal": round(rng.uniform(0.02, 0.6) * top, 3)}[style]
    if cap is not None:
        mx = min(mx, cap)   # the scale of this magnitude ends at `cap` (RandAugment levels 0..10: beyond it the operations themselves refuse)
    return {key: mag, f"{key}_std": std, f"{key}_min": mn, f"{key}_max": mx}


def _jitter_arg(rng, hue=False):
    r = rng.random()
    if r < 0.2:
        return 0
    if hue:
        if r < 0.7:
            return rng.choice([0.1, 0.5, round(rng.uniform(0.01, 0.5), 3)])
        a, b = sorted([round(rng.uniform(-0.5, 0.5), 3), round(rng.uniform(-0.5, 0.5), 3)])
        return [a, b]
    if r < 0.7:
        return rng.choice([0.4, 0.2, 0.8, 1.0, 1.5, round(rng.uniform(0.05, 1.2), 3)])
    a, b = sorted([round(rng.uniform(0.0, 2.0), 3), round(rng.uniform(0.0, 2.0), 3)])
    return [a, b]


def _jitter_params(rng):
    while True:
        p = {"brightness": _jitter_arg(rng), "contrast": _jitter_arg(rng), "saturation": _jitter_arg(rng), "hue": _jitter_arg(rng, hue=True)}
        if any(v != 0 for v in p.values()):
            return p


def _sigma(rng):
    if rng.random() < 0.25:
        return rng.choice([0.1, 1.0, 2.0, round(rng.uniform(0.1, 3.0), 3)])
    a = round(rng.uniform(0.05, 1.5), 3)
    return [a, round(a + rng.choice([0.0, 1.9, rng.uniform(0.01, 2.5)]), 3)]


def _tupled(v):
    return tuple(v) if isinstance(v, list) else v


# ------------------------------------------------------------------------------------------------ recipes
class Recipe:
    family = None            # mechanism name used in violation keys
    inputs = ("tensor",)     # admissible workload kinds
    gated = False            # has a `rng.random() < p` gate
    identity = False         # has an identity at strength 0
    id_tol = {"tensor": 0.0, "pil": 0}
    gates = True             # probe gate thresholds
    collapse_draws = True    # every parameterised draw belongs to a scalable member
    composable = True

    def __init__(self, name, cls):
        self.name, self.cls = name, cls

    def gen(self, rng, kind):
        raise NotImplementedError

    def build(self, params):
        return self.cls(**{k: _tupled(_num(v)) for k, v in params.items()})

    def has_identity(self, params, kind):
        return self.identity

    def identity_reference(self, params, x):
        """what 'the identity' returns for workload x (x itself unless the transform's own no-op path re-encodes)"""
        return x

    def extra(self, params, x):
        return None

    def choice_hook(self, params):
        return None


class NoiseRecipe(Recipe):
    family, identity = "magnitude", True

    def gen(self, rng, kind):
        p = _mag_params(rng)
        if "Gaussian" in self.name:
            p["std"] = rng.choice([1.0, 0.1, round(rng.uniform(0.05, 2.0), 3)])
        if rng.random() < 0.3:
            p["clip_min"], p["clip_max"] = 0.0, 1.0   # the workload lies inside the clip range
        if self.gated:
            p["p"] = _p(rng)
        return p


class GatedNoiseRecipe(NoiseRecipe):
    gated = True


class JitterRecipe(Recipe):
    family, identity, inputs = "colorjitter", True, ("tensor", "pil")
    id_tol = {"tensor": 1e-5, "pil": 0}

    def gen(self, rng, kind):
        p = _jitter_params(rng)
        if self.gated:
            p["p"] = _p(rng)
        return p

    def identity_reference(self, params, x):
        # brightness / contrast / saturation factor 1 return the input; a hue shift of 0 still goes through the HSV round
        # trip of torchvision, which is not lossless for PIL images -> the identity is that round trip
        if params.get("hue", 0) != 0 and not torch.is_tensor(x):
            import torchvision.transforms.functional as F
            return F.adjust_hue(x, 0.0)
        return x


class GatedJitterRecipe(JitterRecipe):
    gated = True


class BlurRecipe(Recipe):
    family = "blur"

    def gen(self, rng, kind):
        p = {"sigma": _sigma(rng)}
        if "TV" in self.name:
            p["kernel_size"] = rng.choice([1, 3, 5])
        if self.gated:
            p["p"] = _p(rng)
        return p


class BlurPILRecipe(BlurRecipe):
    inputs = ("pil",)


class GatedBlurRecipe(BlurRecipe):
    gated = True


class GatedBlurPILRecipe(BlurPILRecipe):
    gated = True


class GrayscaleRecipe(Recipe):
    family, identity, gated, inputs = "grayscale", True, True, ("tensor", "pil")

    def gen(self, rng, kind):
        return {"p": _p(rng)}


class RotationRecipe(Recipe):
    family, identity, inputs = "rotation", True, ("tensor", "pil")
    id_tol = {"tensor": 1e-5, "pil": 0}

    def gen(self, rng, kind):
        d = rng.choice([30.0, 90.0, -45.0, 180.0, round(rng.uniform(-180, 180), 2), 0.0 if rng.random() < 0.2 else 10.0])
        # the transform only accepts equal lower and upper bounds for scaling
        return {"degrees": [d, d], "interpolation": rng.choice(["nearest", "bilinear"])}


class SolarizeRecipe(Recipe):
    family, identity, inputs = "solarize", True, ("tensor", "pil")

    def gen(self, rng, kind):
        if kind == "pil":
            p = {"threshold": rng.choice([128, 0, 255, 256, 1, rng.randint(0, 256)])}
        else:
            p = {"threshold": rng.choice([0.5, 0.0, 1.0, round(rng.uniform(0.0, 1.0), 3)])}
        if self.gated:
            p["p"] = _p(rng)
        return p


class GatedSolarizeRecipe(SolarizeRecipe):
    gated = True


class ThresholdRecipe(Recipe):
    family, identity = "magnitude", True

    def gen(self, rng, kind):
        p = _mag_params(rng, key="threshold")
        if self.gated:
            p["p"] = _p(rng)
        return p

    def extra(self, params, x):
        """the threshold is not written to ctx: decode it from the returned value (entries below it are zeroed)"""
        top = 4.0 + 2.0 * float(_num(params["threshold_max"]))

        def decode(t):
            out = {}
            for tag in ("lo", "hi"):
                def zeroed(v, tag=tag):
                    g = R.RecGen(np.random.PCG64(0), u=tag, gate=0.0)
                    R.inject(t, g)
                    y = t(torch.tensor([v], dtype=torch.float64), {})
                    return bool(y[0] == 0)
                out[tag] = R.bisect_value(zeroed, 2.0 ** -60, top)
            if out["lo"] is None or out["hi"] is None:
                return {}
            return {"decoded.threshold": (out["lo"], out["hi"])}
        return decode


class GatedThresholdRecipe(ThresholdRecipe):
    gated = True


class _ProbeOps:
    """answers KDRandAugment's choice among its operations with a probe operation that records the magnitude it is
    called with (the call convention op(x, magnitude) is the one of the public operation methods)"""

    def __init__(self, real_op=None):
        self.mags = []
        self.real_op = real_op

    def __call__(self, a, size, replace):
        if isinstance(a, (int, np.integer)) or len(a) == 0 or not all(callable(o) for o in a):
            return NotImplemented
        k = 1 if size is None else int(np.prod(size))
        if self.real_op is not None:
            ops = [o for o in a if getattr(o, "__name__", None) == self.real_op]
            if not ops:
                return NotImplemented
            op = ops[0]
        else:
            def op(x, magnitude):
                self.mags.append(float(magnitude))
                return x
        r = np.empty(k, dtype=object)
        for i in range(k):
            r[i] = op
        return r[0] if size is None else r

    def drain(self):
        d = {f"probe.magnitude[{i}]": m for i, m in enumerate(self.mags)}
        self.mags = []
        return d


class RandAugRecipe(Recipe):
    family, inputs = "magnitude", ("pil",)
    # operations whose documented magnitude-0 setting is the identity (posterize keeps 4 bits, auto_contrast/equalize/invert
    # do not depend on the magnitude)
    IDENTITY_OPS = ["rotate", "solarize", "solarize_add", "color", "contrast", "brightness", "sharpness", "shear_x", "shear_y",
                    "translate_horizontal", "translate_vertical"]

    def gen(self, rng, kind):
        p = _mag_params(rng, top=10.0, cap=10.0)
        if rng.random() < 0.5:
            p.update(magnitude=9, magnitude_std=0.5, magnitude_min=0.0, magnitude_max=10.0)
        p.update(num_ops=rng.choice([1, 2, 2, 3, 0]), fill_color=[124, 116, 104], interpolation=rng.choice(["bilinear", "bicubic", "random", "nearest"]),
                 apply_op_p=rng.choice([0.5, 1.0, round(rng.uniform(0.05, 0.95), 2)]))
        return p

    def build(self, params):
        kw = {k: _num(v) for k, v in params.items()}
        kw["fill_color"] = tuple(kw["fill_color"])
        return self.cls(**kw)

    def choice_hook(self, params):
        return _ProbeOps()


class ComposeRecipe(Recipe):
    """KDComposeTransform built by the harness from other recipes (see c15.py)"""
    family = "compose"


class CommonRecipe(Recipe):
    """library presets: compositions the harness does not assemble itself; non-scalable members (crops, erasing) keep
    their ranges, so the collapse clause is not applied to draws and the gates are not probed"""
    family, inputs, gates, collapse_draws, composable = "compose", ("pil",), False, False, False

    def __init__(self, name, cls, variants):
        super().__init__(name, cls)
        self.variants = variants

    def gen(self, rng, kind):
        return dict(rng.choice(self.variants))

    def build(self, params):
        kw = dict(params)
        if isinstance(kw.get("norm"), list):
            kw["norm"] = tuple(tuple(v) for v in kw["norm"])
        if isinstance(kw.get("sigma"), list):
            kw["sigma"] = tuple(kw["sigma"])
        return self.cls(**kw)


_NORM = [[0.5, 0.4, 0.3], [0.2, 0.25, 0.3]]

RECIPE_TABLE = {
    "KDAdditiveGaussianNoise": NoiseRecipe,
    "KDAdditiveUniformNoise": NoiseRecipe,
    "KDRandomAdditiveGaussianNoise": GatedNoiseRecipe,
    "KDColorJitter": JitterRecipe,
    "KDRandomColorJitter": GatedJitterRecipe,
    "KDGaussianBlurPIL": BlurPILRecipe,
    "KDGaussianBlurTV": BlurRecipe,
    "KDRandomGaussianBlurPIL": GatedBlurPILRecipe,
    "KDRandomGaussianBlurTV": GatedBlurRecipe,
    "KDRandomGrayscale": GrayscaleRecipe,
    "KDRandomRotation": RotationRecipe,
    "KDSolarize": SolarizeRecipe,
    "KDRandomSolarize": GatedSolarizeRecipe,
    "KDThreshold": ThresholdRecipe,
    "KDRandomThreshold": GatedThresholdRecipe,
    "KDRandAugment": RandAugRecipe,
    "KDRandAugmentCustom": RandAugRecipe,
    "KDComposeTransform": ComposeRecipe,
}

COMMON_VARIANTS = {
    # norm given as (mean, std): the string form goes through string_to_norm, which is not this property's concern
    "BYOLTransform": [{"size": 16, "norm": None}, {"size": 12, "norm": _NORM, "grayscale_p": 0.5, "solarize_p": 0.5, "gaussian_blur_p": 1.0},
                      {"size": 16, "norm": None, "flip_p": 0.0, "color_jitter_p": 1.0, "brightness": 0.8, "hue": 0.3, "sigma": [0.5, 1.0]},
                      {"size": 8, "norm": None, "color_jitter_p": 0.0, "gaussian_blur_p": 0.0, "solarize_threshold": 200}],
    "BYOLTransform0": [{"size": 16}, {"size": 8, "min_scale": 0.5}],
    "BYOLTransform1": [{"size": 16}, {"size": 8, "min_scale": 0.5}],
    "MUGSStrongTransform": [{"size": 16}, {"size": 8, "min_scale": 0.3}],
    "MUGSStrongGlobalTransform": [{"size": 16}, {"size": 8}],
    "MUGSStrongLocalTransform": [{"size": 16}, {"size": 8}],
    "MAEFinetuneTransform": [{}],
    "ImagenetMinaugTransform": [{"size": 16}],
    "ImagenetNoaugTransform": [{"resize_size": 20, "center_crop_size": 16}],
}


def recipes_for(found):
    """-> ({name: Recipe}, [class names without a recipe])"""
    out, uncovered = {}, []
    for name, cls in sorted(found.items()):
        if name in RECIPE_TABLE:
            out[name] = RECIPE_TABLE[name](name, cls)
        elif name in COMMON_VARIANTS:
            out[name] = CommonRecipe(name, cls, COMMON_VARIANTS[name])
        else:
            uncovered.append(name)
    return out, uncovered


# ------------------------------------------------------------------------------------------------ MagnitudeSampler adapter
class MagAdapter:
    """drives kappadata.utils.magnitude_sampler.MagnitudeSampler through its public sample / scale_strength"""

    def __init__(self, **kw):
        from kappadata.utils.magnitude_sampler import MagnitudeSampler
        self.sampler = MagnitudeSampler(**kw)
        self.rng = None

    def inject_rng(self, g):
        self.rng = g

    def scale_strength(self, f):
        self.sampler.scale_strength(f)

    def __call__(self, x, ctx=None):
        v = self.sampler.sample(self.rng)
        if ctx is not None:
            ctx["sampled"] = v
        return float(v)


class MagRecipe(Recipe):
    family, inputs, identity, composable = "magnitude", ("none",), False, False

    def __init__(self):
        super().__init__("MagnitudeSampler", MagAdapter)

    def gen(self, rng, kind):
        return _mag_params(rng, top=rng.choice([1.0, 10.0, 0.3]))
