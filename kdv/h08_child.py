"""C08 helper: `python -m kdv.h08_child <specs.json> <out.json>` computes the reference tables of stack specs in *this*
interpreter. The check starts it with other PYTHONHASHSEED values: sample i must not depend on interpreter-private state.
The repository is resolved the way kdv.main does (KDV_REPO scratch copies are honoured) *before* kappadata is imported."""
import os
import sys

os.environ.setdefault("PYTHONDONTWRITEBYTECODE", "1")
os.environ.setdefault("OMP_NUM_THREADS", "1")
os.environ.setdefault("MKL_NUM_THREADS", "1")
sys.dont_write_bytecode = True


def main(argv):
    from kdv import main as kmain
    kmain._prepare()
    from kdv import h08_stacks
    h08_stacks.child_tables(argv[0], argv[1])
    return 0


if __name__ == "__main__":
    sys.exit(main(sys.argv[1:]))
