"""C03 — each dataset-manipulation wrapper selects exactly the promised samples.

The leaf's x is the sample id, so `[w.getitem_x(i) for i in range(len(w))]` *is* the selection. Each wrapper has an
independent statement of its promise (written from README / docstrings / the property text, not from the code).
"""
from __future__ import annotations

import math
from collections import Counter
from fractions import Fraction

import numpy as np

import importlib
import json
import os
import types

import kappadata.wrappers as _w

_DW = "kappadata.wrappers.dataset_wrappers."
kdw = types.SimpleNamespace(
    ClassFilterWrapper=_w.ClassFilterWrapper, PercentFilterWrapper=_w.PercentFilterWrapper, SubsetWrapper=_w.SubsetWrapper,
    ShuffleWrapper=_w.ShuffleWrapper, SortByClassWrapper=_w.SortByClassWrapper, IntraClassShuffleWrapper=_w.IntraClassShuffleWrapper,
    RepeatWrapper=_w.RepeatWrapper, OversamplingWrapper=_w.OversamplingWrapper, FewshotWrapper=_w.FewshotWrapper,
    # not re-exported by the package's __init__: imported from its module
    ClasswiseSubsetWrapper=importlib.import_module(_DW + "classwise_subset_wrapper").ClasswiseSubsetWrapper,
)

from . import core
from .harness import Leaf, GlobalRngSentinel, StepBudget, call_real, codes_of

LEVEL = "exploration"
RULE = ("per wrapper kind random label layouts (0..60 samples, 1..8 classes, absent/singleton classes, optional -1 entries "
        "where documented), bounds from {0, 1, k/n, off-grid values}, seeds, repetition counts; a case = (wrapper kind, "
        "layout, arguments); non-trivial = dataset has >=2 samples; distinct by full spec")
ASSUMPTIONS = [
    "floor/ceil boundaries are accepted when they equal the rule applied to the float product or to the exact rational product p*n",
    "exact oversampling with unlabeled samples and wrappers' own empty-dataset guards are outside the claim",
    "unseeded variants are excluded from the seed-only-dependence clause",
]
MONITORS = ["selection_checked", "partition_checked", "seed_differential_checked", "ctor_step_budget_runs"]

KINDS = ["classfilter", "percent", "percent_partition", "subset_index", "subset_indices", "subset_percent", "subset_partition", "shuffle",
         "sort", "intra", "repeat", "over_multiply", "over_exact", "fewshot", "classwise_index", "classwise_percent",
         "classwise_partition"]


def _layout(rng, allow_unlabeled=False, min_n=0):
    n = rng.choice([0, 1, 2, 3, 5, 8, 10, 13, 20, rng.randint(0, 60), rng.randint(0, 60)])
    n = max(n, min_n)
    ncls = rng.randint(1, 8)
    style = rng.choice(["uniform", "skewed", "absent", "singleton", "sorted"])
    present = list(range(ncls))
    if style == "absent" and ncls > 1:
        present = rng.sample(present, rng.randint(1, ncls - 1))
    if style == "skewed":
        w = [1.0 / (1 + 3 * c) for c in present]
    else:
        w = [1.0] * len(present)
    cls = rng.choices(present, weights=w, k=n)
    if style == "singleton" and n > 2:
        c = rng.choice(present)
        cls = [x if x != c else present[(present.index(c) + 1) % len(present)] for x in cls]
        cls[rng.randrange(n)] = c
    if style == "sorted":
        cls.sort()
    if allow_unlabeled and rng.random() < 0.3:
        cls = [(-1 if rng.random() < 0.2 else c) for c in cls]
    if rng.random() < 0.12:
        # the library's binary convention: two classes {0, 1} announced as class shape (1,) (see utils.class_counts, LabelSmoothingWrapper)
        ncls = 1
        cls = [rng.choice([0, 1, 1]) if c >= 0 else c for c in cls]
        if style == "sorted":
            cls.sort()
    return {"n": n, "ncls": ncls, "classes": cls}


def _float_traps(max_n=160):
    """(n, p) with p = j/100 where p*n is an integer mathematically but the float product lands just below it"""
    out = []
    for n in range(2, max_n + 1):
        for j in range(1, 100):
            ex = Fraction(j, 100) * n
            if ex.denominator == 1 and int((j / 100) * n) != int(ex):
                out.append((n, j / 100))
    return out


_TRAPS = _float_traps()


def _ratio_traps(max_c=70, max_k=4):
    """(c, k): class counts c and k*c whose ratio is the integer k, but (k*c) * float32(1/c) - how torch evaluates int / tensor - lands below k"""
    import torch
    out = []
    for c in range(1, max_c + 1):
        for k in range(2, max_k + 1):
            if float(torch.floor((k * c) / torch.tensor(c))) < k:
                out.append((c, k))
    return out


_RATIO_TRAPS = _ratio_traps()


def _pct(rng, n):
    r = rng.random()
    if r < 0.15:
        return 0.0
    if r < 0.3:
        return 1.0
    if r < 0.6 and n > 0:
        return rng.randint(0, n) / n
    if r < 0.7:
        return rng.choice([0.1, 0.2, 0.3, 0.7, 1 / 3, 2 / 3, 0.55])
    return round(rng.random(), rng.choice([2, 3, 17]))


def gen_cases(run):
    n = run.n(36000, 1600000)
    rng = run.rng
    for i in range(n):
        k = KINDS[i % len(KINDS)] if i < 4 * len(KINDS) else rng.choice(KINDS)
        unl = k in ("over_multiply", "classfilter", "shuffle", "repeat", "percent", "subset_index", "subset_indices", "subset_percent",
                    "classwise_index", "classwise_percent", "classwise_partition")
        lay = _layout(rng, allow_unlabeled=unl, min_n=1 if k == "repeat" else 0)
        nn = lay["n"]
        # seeds: boundary values (0 is falsy!) next to arbitrary ones
        seed = rng.choice([0, 0, 1, 2 ** 31 - 1, 2 ** 32 - 1]) if rng.random() < 0.3 else rng.randrange(10 ** 6)
        spec = {"kind": k, "layout": lay, "seed": seed, "g": [rng.randrange(2 ** 31), rng.randrange(2 ** 31)]}
        trap = None
        if k in ("percent", "percent_partition", "subset_percent", "subset_partition") and _TRAPS and rng.random() < 0.2:
            # boundary class: p*n is an integer, its float product is not (0.58 * 50 = 28.999999999999996)
            tn, tp = rng.choice(_TRAPS)
            ncls_t = lay["ncls"] if lay["ncls"] > 1 else 2
            lay = {"n": tn, "ncls": lay["ncls"], "classes": [rng.randrange(ncls_t) for _ in range(tn)]}
            spec["layout"] = lay
            nn = tn
            trap = tp
        if k == "over_multiply" and _RATIO_TRAPS and rng.random() < 0.08:
            # boundary class: the majority class is an exact multiple of a minority class, with a ratio that float32 arithmetic misses (82 / 41)
            c_, k_ = rng.choice(_RATIO_TRAPS)
            others = [rng.randint(1, k_ * c_) for _ in range(rng.randint(0, 3))]
            counts_ = [c_, k_ * c_] + others
            order_ = list(range(len(counts_)))
            rng.shuffle(order_)
            cls_ = [ci for ci, cnt in zip(order_, counts_) for _ in range(cnt)]
            rng.shuffle(cls_)
            lay = {"n": len(cls_), "ncls": len(counts_), "classes": cls_}
            spec["layout"] = lay
            nn = lay["n"]
        elif k in ("sort", "intra", "over_multiply", "over_exact", "fewshot", "classwise_index", "classwise_percent", "shuffle") and rng.random() < 0.03:
            # boundary class: more samples than a narrow label dtype can count (labels stored as uint8 / int8 / int16, as label files do)
            big_n = rng.randint(300, 700)
            ncls_b = rng.randint(2, 8)
            lay = {"n": big_n, "ncls": ncls_b, "classes": [rng.randrange(ncls_b) for _ in range(big_n)],
                   "getall": rng.choice(["ndarray:uint8", "ndarray:int8", "ndarray:int16", "tensor:uint8", "tensor:int8", "tensor:int16"])}
            spec["layout"] = lay
            nn = big_n
        elif k in ("sort", "intra", "over_multiply", "over_exact", "fewshot", "classwise_index", "classwise_percent") and rng.random() < 0.25:
            spec["inner_shuffle"] = rng.randrange(1000)  # the wrapper sits on a full-length permuting subset of the leaf
            # ... whose root was analysed by class-aware wrappers before (what is learnt about the root must not stick to layers above it)
            spec["pre_analyse"] = rng.random() < 0.5
        if k == "classfilter" and rng.random() < 0.05:
            # boundary class: a large sparse label space (ImageNet-21k style ids), few distinct labels with many repeats, a few dozen listed classes
            big = rng.choice([5000, 21841, 60000])
            nn = rng.randint(300, 700)
            present = rng.sample(range(big), rng.randint(30, 120))
            lay = {"n": nn, "ncls": big, "classes": [rng.choice(present) for _ in range(nn)]}
            spec["layout"] = lay
            listed = rng.sample(present, rng.randint(5, min(25, len(present)))) + rng.sample(range(big), rng.randint(15, 40))
            spec["sel"] = sorted(set(listed), key=lambda c: rng.random())
            spec["form"] = rng.choice(["valid", "invalid"])
        elif k == "classfilter":
            pool = list(range(2 if lay["ncls"] == 1 else lay["ncls"]))
            spec["sel"] = rng.sample(pool, rng.randint(0, len(pool)))
            spec["form"] = rng.choice(["valid", "invalid", "valid_names", "invalid_names"])
        elif k in ("percent", "percent_partition"):
            a, b = sorted([_pct(rng, nn), _pct(rng, nn)])
            spec.update(f=a, t=b, cf=rng.random() < 0.5, ct=rng.random() < 0.5, use_f=rng.random() < 0.7, use_t=rng.random() < 0.7,
                        p=_pct(rng, nn) if trap is None else trap, c=rng.random() < 0.5)
            if trap is not None:
                spec["t"] = max(spec["t"], trap); spec["f"] = min(spec["f"], trap)
        elif k == "subset_indices":
            # explicit indices (also negative ones) as list / tuple / int64 ndarray / long tensor; the same container object is then reused for a
            # second wrapper over a dataset of another length
            m = rng.randint(0, min(8, nn + 2)) if nn > 0 else 0
            spec.update(idx=[rng.randint(-nn, nn - 1) for _ in range(m)] if nn > 0 else [], container=rng.choice(["list", "tuple", "ndarray", "tensor"]), extra=rng.randint(1, 9))
        elif k == "subset_index":
            a = rng.randint(0, nn)
            b = rng.randint(a, nn + 3)
            spec.update(a=a, b=b, use_a=rng.random() < 0.7, use_b=rng.random() < 0.7)
        elif k in ("subset_percent", "subset_partition", "classwise_percent", "classwise_partition"):
            a, b = sorted([_pct(rng, nn), _pct(rng, nn)])
            spec.update(f=a, t=b, use_f=rng.random() < 0.7, use_t=rng.random() < 0.7, p=_pct(rng, nn) if trap is None else trap)
            if trap is not None and rng.random() < 0.5:
                spec["t"] = trap
                spec["f"] = min(spec["f"], trap)
        elif k == "repeat":
            spec.update(form=rng.choice(["rep", "min"]), r=rng.randint(1, 5), m=rng.randint(1, 3 * max(nn, 1) + 2))
        elif k == "fewshot":
            spec.update(shots=rng.randint(1, 6))
        elif k == "classwise_index":
            a = rng.randint(0, 4)
            spec.update(a=a, b=rng.randint(a, 8), use_a=rng.random() < 0.6, use_b=rng.random() < 0.8, check=rng.random() < 0.3)
        elif k in ("shuffle", "intra"):
            spec.update(seeded=rng.random() < 0.8)
        yield spec


# ------------------------------------------------------------------------------------------------ helpers
_codes = []


def _CODES():
    if not _codes:
        mods = [importlib.import_module(_DW + m) for m in (
            "class_filter_wrapper", "percent_filter_wrapper", "subset_wrapper", "shuffle_wrapper", "repeat_wrapper", "oversampling_wrapper",
            "sort_by_class_wrapper", "intra_class_shuffle_wrapper", "fewshot_wrapper", "classwise_subset_wrapper")]
        mods += [importlib.import_module("kappadata.utils.class_counts"), importlib.import_module("kappadata.utils.getall_as_tensor")]
        _codes.extend(codes_of(*mods))
    return _codes


def _leaf(lay, names=False):
    if lay.get("inner_shuffle") is not None:
        # lay["classes"] is already in base order: rebuild the leaf order from the inverse permutation
        inv = _INV[0]
        leaf_classes = [None] * lay["n"]
        for leaf_i, pos in inv.items():
            leaf_classes[leaf_i] = lay["classes"][pos]
        ds = Leaf(lay["n"], tag="L", classes=leaf_classes, n_classes=lay["ncls"])
        if lay.get("pre_analyse"):
            for mk in (lambda: kdw.ClasswiseSubsetWrapper(ds, end_index=1), lambda: kdw.SortByClassWrapper(ds), lambda: kdw.OversamplingWrapper(ds),
                       lambda: importlib.import_module("kappadata.utils.class_counts").get_class_counts_and_indices(ds)):
                try:
                    mk()
                except Exception:
                    pass  # whether the root itself can be analysed is judged by the cases without inner layer
        return kdw.ShuffleWrapper(ds, seed=lay["inner_shuffle"])
    ds = Leaf(lay["n"], tag="L", classes=lay["classes"], n_classes=lay["ncls"], getall_kind=lay.get("getall", "list"))
    if names:
        ds.class_names = [f"name{c}" for c in range(2 if lay["ncls"] == 1 else lay["ncls"])]
    return ds


_INV = [None]  # leaf index -> position in the (inner-shuffled) base the wrapper under test sits on


def _ids(run, w, what):
    def f():
        out = []
        for i in range(len(w)):
            tok = w.getitem_x(i)
            out.append(tok[1] if _INV[0] is None else _INV[0][tok[1]])
        return out
    ok, ids = call_real(run, f, what=f"{what}: reading the selection")
    return ids if ok else None


def _construct(run, fn, n, what, refusal_class=None):
    """constructor under the logical step budget"""
    run.count("ctor_step_budget_runs")
    with StepBudget(60 * (n + 12) + 600, _CODES(), what=what):
        return call_real(run, fn, refusal_class=refusal_class, crash_key="ctor-crash", what=what)


def _bounds(p, n, ceil):
    """admissible integer boundaries for 'p percent of n' under the floor/ceil rule.

    p*n is evaluated in every arithmetic a correct implementation may use (float64, float32 - torch promotes
    python-float x int-tensor to float32 -, the exact rational value of the double, the decimal literal); they only
    differ when p*n is within rounding error of an integer."""
    vals = [p * n, float(np.float32(p) * np.float32(n)), Fraction(p) * n, Fraction(repr(float(p))) * n]
    if ceil:
        return {int(math.ceil(v)) for v in vals}
    return {int(math.floor(v)) for v in vals}


def _is_range(ids):
    return all(ids[i + 1] == ids[i] + 1 for i in range(len(ids) - 1))


_XPROC = []   # (item, ids) of seeded selections of this run, recomputed in a fresh interpreter by finalize()


def plain_selection(item):
    """child side of the cross-interpreter clause: the leaf indices a seeded wrapper selects"""
    lay = item["layout"]
    ds = Leaf(lay["n"], tag="L", classes=lay["classes"], n_classes=lay["ncls"])
    k, seed, P = item["kind"], item["seed"], item["params"]
    if k == "fewshot":
        w = kdw.FewshotWrapper(ds, num_shots=P["shots"], seed=seed)
    elif k == "shuffle":
        w = kdw.ShuffleWrapper(ds, seed=seed)
    elif k == "intra":
        w = kdw.IntraClassShuffleWrapper(ds, seed=seed)
    else:
        raise ValueError(k)
    return [w.getitem_x(i)[1] for i in range(len(w))]


def _note_seeded(run, spec, lay, ids, params=None):
    if len(_XPROC) < 48 and lay.get("inner_shuffle") is None and lay["n"] <= 60:
        _XPROC.append(({"kind": spec["kind"], "layout": {"n": lay["n"], "ncls": lay["ncls"], "classes": list(lay["classes"])}, "seed": spec["seed"], "params": params or {}}, list(ids)))


def finalize(run):
    """'the selection is a function of the constructor arguments and seed only' - also in another interpreter instance (other hash salt,
    other process-global RNG states): the seeded selections recorded in this run are recomputed in a child interpreter"""
    _xproc_compare(run, _XPROC)
    del _XPROC[:]


def _xproc_compare(run, _XPROC):
    import subprocess
    import sys
    if not _XPROC:
        return
    items = [it for it, _ in _XPROC]
    env = dict(os.environ, PYTHONHASHSEED=str(1 + run.seed % 7), PYTHONPATH=os.pathsep.join([str(core.REPO), str(core.VERIF)]), OMP_NUM_THREADS="1")
    try:
        p = subprocess.run([sys.executable, "-m", "kdv.h03_child"], input=json.dumps({"items": items}), capture_output=True, text=True, timeout=600, cwd=str(core.VERIF), env=env)
        line = next((ln for ln in p.stdout.splitlines() if ln.startswith("KDV03RESULT ")), None)
        res = json.loads(line[len("KDV03RESULT "):]) if line else None
    except Exception as e:  # timeout, crash of the child: nothing was compared
        res = None
        run.notes["cross_interpreter_child"] = f"{type(e).__name__}: {e}"[:300]
    if not res or "results" not in res:
        run.notes.setdefault("cross_interpreter_child", "no result from the child interpreter (not compared)")
        return
    for (item, ids), r in zip(_XPROC, res["results"]):
        if "ids" not in r:
            run.count("cross_interpreter_child_errors")
            continue
        run.count("cross_interpreter_selections_compared")
        if r["ids"] != ids:
            run.violation(f"{item['kind']}:not-reproducible-across-interpreters",
                          f"{item['kind']} wrapper with seed {item['seed']}, params {item['params']} on classes {_s(item['layout']['classes'])}: this interpreter selects {_s(ids)}, "
                          f"a fresh interpreter (PYTHONHASHSEED={res.get('hashseed')}) selects {_s(r['ids'])}", {"kind": "xproc", "item": item, "ids": ids})


def _differential(run, spec, build, what):
    """seed-only dependence: same args under two different global RNG states"""
    GlobalRngSentinel.seed_all(spec["g"][0])
    ok1, w1 = _construct(run, build, spec["layout"]["n"], what)
    GlobalRngSentinel.seed_all(spec["g"][1])
    np.random.random(3)
    ok2, w2 = _construct(run, build, spec["layout"]["n"], what)
    if not (ok1 and ok2):
        return None
    a, b = _ids(run, w1, what), _ids(run, w2, what)
    if a is None or b is None:
        return None
    run.count("seed_differential_checked")
    if a != b:
        run.violation(f"{spec['kind']}:global-rng-dependence", f"{what}: two constructions with equal arguments differ under different global RNG states: {a[:12]} vs {b[:12]}")
        return None
    return w1, a


# ------------------------------------------------------------------------------------------------ case execution
def run_case(run, spec):
    k = spec["kind"]
    if k == "xproc":  # replay of a cross-interpreter witness: this interpreter's selection is recomputed, then compared with a child's
        return _xproc_compare(run, [(spec["item"], plain_selection(spec["item"]))])
    lay = spec["layout"]
    _INV[0] = None
    if spec.get("inner_shuffle") is not None and lay["n"] > 0:
        # the wrapper under test is stacked on ShuffleWrapper(leaf): positions of that base are the "original order" of the promise
        perm = [int(i) for i in kdw.ShuffleWrapper(_leaf(lay), seed=spec["inner_shuffle"]).indices]
        _INV[0] = {leaf_i: pos for pos, leaf_i in enumerate(perm)}
        lay = dict(lay, classes=[lay["classes"][j] for j in perm], inner_shuffle=spec["inner_shuffle"], pre_analyse=bool(spec.get("pre_analyse")))
        run.count("cases_on_inner_shuffle")
    n, cls, ncls = lay["n"], lay["classes"], lay["ncls"]
    run.cover(k, min(n, 3), _layout_class(lay), "binary-dim1" if ncls == 1 and 1 in cls else "multi")
    dim1 = ncls == 1
    if ncls == 1:
        ncls = 2  # class shape (1,) announces a binary dataset with labels {0, 1}
    V = run.violation
    def ok_sel():
        run.count("selection_checked")
        if len(run.samples) < 6 and n >= 3:
            run.sample({"wrapper": k, "classes": cls[:16], "args": {a: b for a, b in spec.items() if a not in ("layout", "g", "kind")}})

    if k == "classfilter":
        sel = spec["sel"]
        form = spec["form"]
        kw = {"valid": {"valid_classes": sel}, "invalid": {"invalid_classes": sel},
              "valid_names": {"valid_class_names": [f"name{c}" for c in sel]},
              "invalid_names": {"invalid_class_names": [f"name{c}" for c in sel]}}[form]
        ds = _leaf(lay, names=True)
        ok, w = _construct(run, lambda: kdw.ClassFilterWrapper(ds, **kw), n, f"ClassFilterWrapper({kw})")
        if not ok:
            return
        ids = _ids(run, w, "ClassFilterWrapper")
        if ids is None:
            return
        keep = (lambda c: c in sel) if form.startswith("valid") else (lambda c: c not in sel)
        want = [i for i in range(n) if keep(cls[i])]
        ok_sel()
        if ids != want:
            V(f"classfilter:{form}", f"ClassFilterWrapper({_s(kw)}) on classes {_s(cls)} selected {_s(ids)}, promised {_s(want)}")
        return

    if k == "percent":
        kw = {}
        if spec["use_f"]:
            kw["from_percent"] = spec["f"]
        if spec["use_t"]:
            kw["to_percent"] = spec["t"]
        kw["ceil_from_index"], kw["ceil_to_index"] = spec["cf"], spec["ct"]
        ds = _leaf(lay)
        ok, w = _construct(run, lambda: kdw.PercentFilterWrapper(ds, **kw), n, f"PercentFilterWrapper({kw})")
        if not ok:
            return
        ids = _ids(run, w, "PercentFilterWrapper")
        if ids is None:
            return
        A = _bounds(kw.get("from_percent", 0.0), n, spec["cf"])
        Bd = _bounds(kw.get("to_percent", 1.0), n, spec["ct"])
        ok_sel()
        good = any(ids == list(range(a, max(a, b))) for a in A for b in Bd)
        if not good:
            key = "percent:zero-upper-bound" if kw.get("to_percent", 1.0) == 0 else "percent:range"
            V(key, f"PercentFilterWrapper({kw}) on {n} samples selected {_s(ids)}, promised range({sorted(A)}..{sorted(Bd)})")
        return

    if k in ("percent_partition", "subset_partition", "classwise_partition"):
        p = spec["p"]
        ds = _leaf(lay)
        if k == "percent_partition":
            c = spec["c"]
            mk_lo = lambda: kdw.PercentFilterWrapper(ds, to_percent=p, ceil_to_index=c)
            mk_hi = lambda: kdw.PercentFilterWrapper(ds, from_percent=p, ceil_from_index=c)
            name = f"PercentFilterWrapper(to_percent={p}) / (from_percent={p}), ceil={c}"
        elif k == "subset_partition":
            mk_lo = lambda: kdw.SubsetWrapper(ds, end_percent=p)
            mk_hi = lambda: kdw.SubsetWrapper(ds, start_percent=p)
            name = f"SubsetWrapper(end_percent={p}) / (start_percent={p})"
        else:
            mk_lo = lambda: kdw.ClasswiseSubsetWrapper(ds, end_percent=p)
            mk_hi = lambda: kdw.ClasswiseSubsetWrapper(ds, start_percent=p)
            name = f"ClasswiseSubsetWrapper(end_percent={p}) / (start_percent={p})"
        ok1, lo = _construct(run, mk_lo, n, name)
        ok2, hi = _construct(run, mk_hi, n, name)
        if not (ok1 and ok2):
            return
        a, b = _ids(run, lo, name), _ids(run, hi, name)
        if a is None or b is None:
            return
        run.count("partition_checked")
        both = Counter(a) + Counter(b)
        if k == "classwise_partition":
            # unlabeled (-1) samples belong to no class: whether a class-wise subset carries them along is not judged
            lab = lambda seq: Counter(i for i in seq if 0 <= i < n and cls[i] >= 0)
            good = lab(a) + lab(b) == Counter(i for i in range(n) if cls[i] >= 0) and all(0 <= i < n for i in a + b)
        else:
            good = a + b == list(range(n))
        if not good:
            key = f"{k}:zero-bound" if p == 0 else f"{k}:not-a-partition"
            V(key, f"{name} on {n} samples (classes {_s(cls)}): lower part {_s(a)}, upper part {_s(b)} do not partition range({n})")
        return

    if k == "subset_indices":
        import torch
        raw = list(spec["idx"])
        mk = {"list": list, "tuple": tuple, "ndarray": lambda v: np.array(v, dtype=np.int64), "tensor": lambda v: torch.tensor(v, dtype=torch.long)}[spec["container"]]
        given = mk(raw)
        ds = _leaf(lay)
        ok, w = _construct(run, lambda: kdw.SubsetWrapper(ds, indices=given), n, f"SubsetWrapper(indices={raw} as {spec['container']})")
        if not ok:
            return
        ids = _ids(run, w, "SubsetWrapper(indices=...)")
        if ids is None:
            return
        ok_sel()
        want = [i % n for i in raw] if n > 0 else []
        if ids != want:
            V("subset_indices:selection", f"SubsetWrapper(indices={raw} as {spec['container']}) on {n} samples exposes {_s(ids)}, the indices name {_s(want)}")
            return
        if [int(v) for v in given] != raw:
            V("subset_indices:argument-modified", f"SubsetWrapper(indices=...) changed the caller's {spec['container']}: {raw} -> {[int(v) for v in given]}")
            return
        # the same container object for a second wrapper over a LONGER dataset: negative entries count from that dataset's end
        n2 = n + spec["extra"]
        lay2 = {"n": n2, "ncls": lay["ncls"], "classes": list(lay["classes"]) + [0] * spec["extra"]}
        inv_saved, _INV[0] = _INV[0], None
        ds2 = _leaf(lay2)
        ok, w2 = _construct(run, lambda: kdw.SubsetWrapper(ds2, indices=given), n2, f"second SubsetWrapper(indices=<same {spec['container']} object>)")
        if ok:
            ids2 = _ids(run, w2, "second SubsetWrapper(indices=...)")
            if ids2 is not None:
                run.count("reused_index_containers_checked")
                want2 = [i % n2 for i in raw]
                if ids2 != want2:
                    V("subset_indices:reused-container", f"a second SubsetWrapper over {n2} samples built from the same {spec['container']} object {raw} (first used over {n} samples) exposes {_s(ids2)}, the indices name {_s(want2)}")
        _INV[0] = inv_saved
        return

    if k == "subset_index":
        kw = {}
        if spec["use_a"]:
            kw["start_index"] = spec["a"]
        if spec["use_b"] or not kw:
            kw["end_index"] = spec["b"]
        ds = _leaf(lay)
        ok, w = _construct(run, lambda: kdw.SubsetWrapper(ds, **kw), n, f"SubsetWrapper({kw})")
        if not ok:
            return
        ids = _ids(run, w, "SubsetWrapper")
        if ids is None:
            return
        a = kw.get("start_index", 0)
        b = min(kw.get("end_index", n), n)
        ok_sel()
        if ids != list(range(a, max(a, b))):
            key = "subset_index:zero-end" if kw.get("end_index", 1) == 0 else "subset_index:range"
            V(key, f"SubsetWrapper({kw}) on {n} samples selected {_s(ids)}, promised range({a},{b})")
        return

    if k == "subset_percent":
        kw = {}
        if spec["use_f"]:
            kw["start_percent"] = spec["f"]
        if spec["use_t"] or not kw:
            kw["end_percent"] = spec["t"]
        ds = _leaf(lay)
        ok, w = _construct(run, lambda: kdw.SubsetWrapper(ds, **kw), n, f"SubsetWrapper({kw})")
        if not ok:
            return
        ids = _ids(run, w, "SubsetWrapper")
        if ids is None:
            return
        A = _bounds(kw.get("start_percent", 0.0), n, False)
        Bd = _bounds(kw.get("end_percent", 1.0), n, False)
        ok_sel()
        if not any(ids == list(range(a, max(a, b))) for a in A for b in Bd):
            key = "subset_percent:zero-end" if kw.get("end_percent", 1.0) == 0 else "subset_percent:range"
            V(key, f"SubsetWrapper({kw}) on {n} samples selected {_s(ids)}, promised range({sorted(A)}..{sorted(Bd)})")
        return

    if k == "shuffle":
        ds = _leaf(lay)
        if spec["seeded"]:
            r = _differential(run, spec, lambda: kdw.ShuffleWrapper(ds, seed=spec["seed"]), f"ShuffleWrapper(seed={spec['seed']})")
            if r is None:
                return
            ids = r[1]
            _note_seeded(run, spec, lay, ids)
        else:
            ok, w = _construct(run, lambda: kdw.ShuffleWrapper(ds), n, "ShuffleWrapper()")
            if not ok:
                return
            ids = _ids(run, w, "ShuffleWrapper")
            if ids is None:
                return
        ok_sel()
        if sorted(ids) != list(range(n)):
            V("shuffle:not-a-permutation", f"ShuffleWrapper on {n} samples exposes {_s(ids)}")
        return

    if any(c < 0 for c in cls) and k not in ("over_multiply", "classwise_index", "classwise_percent"):
        cls = [c if c >= 0 else 0 for c in cls]
        lay = dict(lay, classes=cls)

    if k == "sort":
        ds = _leaf(lay)
        ok, w = _construct(run, lambda: kdw.SortByClassWrapper(ds), n, "SortByClassWrapper")
        if not ok:
            return
        ids = _ids(run, w, "SortByClassWrapper")
        if ids is None:
            return
        want = sorted(range(n), key=lambda i: cls[i])  # python sort is stable
        ok_sel()
        if ids != want:
            V("sort:order", f"SortByClassWrapper on classes {_s(cls)} exposes {_s(ids)}, promised stable class order {_s(want)}")
        return

    if k == "intra":
        ds = _leaf(lay)
        if spec["seeded"]:
            r = _differential(run, spec, lambda: kdw.IntraClassShuffleWrapper(ds, seed=spec["seed"]), f"IntraClassShuffleWrapper(seed={spec['seed']})")
            if r is None:
                return
            ids = r[1]
            _note_seeded(run, spec, lay, ids)
        else:
            ok, w = _construct(run, lambda: kdw.IntraClassShuffleWrapper(ds), n, "IntraClassShuffleWrapper()")
            if not ok:
                return
            ids = _ids(run, w, "IntraClassShuffleWrapper")
            if ids is None:
                return
        ok_sel()
        if sorted(ids) != list(range(n)):
            V("intra:not-a-permutation", f"IntraClassShuffleWrapper on classes {_s(cls)} exposes {_s(ids)}")
        elif [cls[i] for i in ids] != cls:
            V("intra:class-sequence", f"IntraClassShuffleWrapper changed the per-position class sequence: {_s([cls[i] for i in ids])} vs {_s(cls)}")
        return

    if k == "repeat":
        ds = _leaf(lay)
        if spec["form"] == "rep":
            kw = {"repetitions": spec["r"]}
        else:
            kw = {"min_size": spec["m"]}
        ok, w = _construct(run, lambda: kdw.RepeatWrapper(ds, **kw), n * 6, f"RepeatWrapper({kw})")
        if not ok:
            return
        ids = _ids(run, w, "RepeatWrapper")
        if ids is None:
            return
        ok_sel()
        if len(ids) % n != 0 or ids != list(range(n)) * (len(ids) // n):
            V("repeat:not-round-robin", f"RepeatWrapper({kw}) on {n} samples exposes {_s(ids)}")
        elif spec["form"] == "rep" and len(ids) != n * spec["r"]:
            V("repeat:count", f"RepeatWrapper(repetitions={spec['r']}) on {n} samples has length {len(ids)}")
        elif spec["form"] == "min" and not (spec["m"] <= len(ids) < spec["m"] + n):
            V("repeat:min-size", f"RepeatWrapper(min_size={spec['m']}) on {n} samples has length {len(ids)}")
        return

    if k in ("over_multiply", "over_exact"):
        if n == 0 or all(c < 0 for c in cls):
            return
        mode = "multiply" if k == "over_multiply" else "exact"
        ds = _leaf(lay)
        counts = Counter(c for c in cls if c >= 0)
        mx = max(counts.values())
        ok, w = _construct(run, lambda: kdw.OversamplingWrapper(ds, mode=mode), n + mx * ncls, f"OversamplingWrapper(mode={mode})")
        if not ok:
            return
        ids = _ids(run, w, "OversamplingWrapper")
        if ids is None:
            return
        ok_sel()
        use = Counter(ids)
        if any(not 0 <= i < n for i in ids):
            V(f"{k}:invalid-index", f"OversamplingWrapper exposes {_s(ids)}")
            return
        if mode == "multiply":
            if ids[:n] != list(range(n)):
                V("over_multiply:originals-not-kept", f"first {n} entries are {_s(ids[:n])}")
                return
            for i in range(n):
                want = 1 if cls[i] < 0 else mx // counts[cls[i]]
                if use[i] != want:
                    V("over_multiply:balance", f"classes {_s(cls)}: sample {i} (class {cls[i]}, count {counts.get(cls[i])}, max {mx}) is used {use[i]}x, promised {want}x")
                    return
        else:
            for i in range(n):
                c = counts[cls[i]]
                if not (mx // c <= use[i] <= -(-mx // c)) or use[i] < 1:
                    V("over_exact:uneven", f"classes {_s(cls)}: sample {i} used {use[i]}x, class count {c}, max {mx}")
                    return
            per = Counter(cls[i] for i in ids)
            if any(per[c] != mx for c in counts):
                V("over_exact:balance", f"classes {_s(cls)}: per-class totals {dict(per)}, promised {mx} each")
        return

    if k == "fewshot":
        if n == 0:
            return
        ds = _leaf(lay)
        r = _differential(run, spec, lambda: kdw.FewshotWrapper(ds, num_shots=spec["shots"], seed=spec["seed"]), f"FewshotWrapper(num_shots={spec['shots']}, seed={spec['seed']})")
        if r is None:
            return
        ids = r[1]
        _note_seeded(run, spec, lay, ids, {"shots": spec["shots"]})
        counts = Counter(cls)
        ok_sel()
        got = Counter(cls[i] for i in ids)
        if len(set(ids)) != len(ids) or any(got[c] != min(spec["shots"], counts[c]) for c in counts) or [cls[i] for i in ids] != sorted(cls[i] for i in ids):
            V("fewshot:amount", f"FewshotWrapper(num_shots={spec['shots']}) on classes {_s(cls)} exposes {_s(ids)} (classes {_s([cls[i] for i in ids])})")
        return

    if k in ("classwise_index", "classwise_percent"):
        ds = _leaf(lay)
        per_class = {c: [i for i in range(n) if cls[i] == c] for c in range(ncls)}
        if k == "classwise_index":
            kw = {}
            if spec["use_a"]:
                kw["start_index"] = spec["a"]
            if spec["use_b"] or not kw:
                kw["end_index"] = spec["b"]
            kw["check_enough_samples"] = spec["check"]
            a, b = kw.get("start_index", 0), min(kw.get("end_index", n), n)
            enough = all(len(v) >= b for v in per_class.values())
            refusal = "classwise-not-enough-samples" if (spec["check"] and not enough) else None
            if a > b:
                refusal = "classwise-start-beyond-dataset"  # start_index > len(dataset): the wrapper's own ordering assertion
            want = [i for c in range(ncls) for i in per_class[c][a:b]]
            zero = kw.get("end_index", 1) == 0
        else:
            kw = {}
            if spec["use_f"]:
                kw["start_percent"] = spec["f"]
            if spec["use_t"] or not kw:
                kw["end_percent"] = spec["t"]
            refusal = None
            want = None
            zero = kw.get("end_percent", 1.0) == 0
        ok, w = _construct(run, lambda: kdw.ClasswiseSubsetWrapper(ds, **kw), n, f"ClasswiseSubsetWrapper({kw})", refusal_class=refusal)
        if not ok:
            return
        ids = _ids(run, w, "ClasswiseSubsetWrapper")
        if ids is None:
            return
        ok_sel()
        if any(not 0 <= i < n for i in ids):
            V(f"{k}:invalid-index", f"ClasswiseSubsetWrapper({kw}) exposes {_s(ids)}")
            return
        if any(c < 0 for c in cls):
            run.count("classwise_with_unlabeled_samples")
            ids = [i for i in ids if cls[i] >= 0]  # unlabeled samples belong to no class: not judged
        if want is not None:
            good = ids == want
        else:
            # per class: admissible boundaries; search over the (few) admissible candidates per class
            def match(c, pos):
                if c == ncls:
                    return pos == len(ids)
                m = len(per_class[c])
                A = _bounds(kw.get("start_percent", 0.0), m, False)
                Bd = _bounds(kw.get("end_percent", 1.0), m, False)
                for cand in {tuple(per_class[c][x:max(x, y)]) for x in A for y in Bd}:
                    if tuple(ids[pos:pos + len(cand)]) == cand and match(c + 1, pos + len(cand)):
                        return True
                return False
            good = match(0, 0)
        if not good:
            V(f"{k}:zero-end" if zero else f"{k}:selection", f"ClasswiseSubsetWrapper({kw}) on classes {_s(cls)} exposes {_s(ids)}" + (f", promised {_s(want)}" if want is not None else ""))
        return
    raise ValueError(k)


def _layout_class(lay):
    c = Counter(lay["classes"])
    present = {k for k in c if k >= 0}
    return ("unl" if -1 in c else "lab", "absent" if len(present) < lay["ncls"] else "full", "single" if 1 in c.values() else "multi")


def _s(v):
    r = repr(v)
    return r if len(r) < 260 else r[:260] + "…"
