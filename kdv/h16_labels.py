"""Helpers of the C16 check (label-rewriting wrappers): leaf variant, label normalisation, small reference models.

Nothing here looks into the wrappers; everything works on values returned at the API boundary.
"""
from __future__ import annotations

import math
from fractions import Fraction

import numpy as np
import torch

from .harness import Leaf


class Leaf16(Leaf):
    """harness leaf whose per-sample label is a python int or a 0-d long tensor (`item_kind`); binary leaves announce
    the class shape (1,) with labels {0, 1} like tests_util.ClassDataset does.

    `alias_getall`: the bulk accessor hands out the leaf's own storage (list, ndarray or tensor) and the per-sample
    accessor reads from that storage, so an in-place edit by a wrapper changes the leaf's labels observably."""

    def __init__(self, n, classes, n_classes, getall_kind="list", alias_getall=False, item_kind="int", store_dtype="int64"):
        super().__init__(n, tag="L", classes=classes, n_classes=n_classes, getall_kind=getall_kind, alias_getall=alias_getall)
        self.item_kind = item_kind
        self.store_dtype = store_dtype  # dtype of ndarray / tensor bulk results (uint8 = CIFAR / MNIST style label storage)
        assert store_dtype != "uint8" or all(0 <= c < 256 for c in self.classes)
        self._store = None
        if alias_getall and getall_kind in ("ndarray", "tensor"):
            self._store = self._as_storage()

    def _as_storage(self):
        if self.getall_kind == "ndarray":
            return np.array(self.classes, dtype=getattr(np, self.store_dtype))
        return torch.tensor(self.classes, dtype=getattr(torch, self.store_dtype))

    def labels_now(self):
        return list(self.classes) if self._store is None else [int(v) for v in self._store.tolist()]

    def getall_class(self):
        if self._store is not None:
            return self._store
        if self.getall_kind in ("ndarray", "tensor"):
            return self._as_storage()
        return super().getall_class()

    def getitem_class(self, idx, ctx=None):
        v = super().getitem_class(idx, ctx)
        if self._store is not None:
            v = int(self._store[self._norm(idx)])
        if self.item_kind == "tensor0d":
            return torch.tensor(v)
        return v


# ------------------------------------------------------------------------------------------------ normalisation
def as_scalar(v):
    """python number for anything that is one scalar label (int, float, numpy scalar, 0-d array / tensor), else None"""
    if torch.is_tensor(v):
        if v.ndim != 0:
            return None
        v = v.item()
    elif isinstance(v, np.ndarray):
        if v.ndim != 0:
            return None
        v = v.item()
    elif isinstance(v, np.generic):
        v = v.item()
    if isinstance(v, bool) or not isinstance(v, (int, float)):
        return None
    return v


def as_vector(v):
    """list of python floats for a 1-d tensor / array / sequence, else None"""
    if torch.is_tensor(v):
        if v.ndim != 1:
            return None
        return [float(x) for x in v.tolist()]
    if isinstance(v, np.ndarray):
        if v.ndim != 1:
            return None
        return [float(x) for x in v.tolist()]
    if isinstance(v, (list, tuple)):
        out = [as_scalar(x) for x in v]
        if any(x is None for x in out):
            return None
        return [float(x) for x in out]
    return None


def norm_bulk(b):
    """bulk result (list / tuple / 1-d ndarray / 1-d tensor) -> list of python numbers, or None if it is not that"""
    if torch.is_tensor(b) or isinstance(b, np.ndarray):
        if b.ndim != 1:
            return None
        b = b.tolist()
    if not isinstance(b, (list, tuple)):
        return None
    out = [as_scalar(x) for x in b]
    if any(x is None for x in out):
        return None
    return out


def canon_item(v):
    """exactly comparable form of one per-sample result (two equal constructions must agree bit for bit)"""
    s = as_scalar(v)
    if s is not None:
        return ["s", float(s).hex() if isinstance(s, float) else s]
    vec = as_vector(v)
    if vec is not None:
        return ["v", [x.hex() for x in vec]]
    return ["?", repr(v)]


def in_range(label, dim):
    """label in [0, dim) or the -1 marker; class shape (1,) is the binary convention (labels 0 / 1)"""
    if label == -1:
        return True
    if label != int(label):
        return False
    if dim == 1:
        return label in (0, 1)
    return 0 <= label < dim


def is_marker(v):
    """-1 passed through: a scalar -1 or a vector whose entries are all -1"""
    s = as_scalar(v)
    if s is not None:
        return s == -1
    vec = as_vector(v)
    return vec is not None and len(vec) > 0 and all(x == -1 for x in vec)


# ------------------------------------------------------------------------------------------------ reference models
def allgather_model(n, world_size):
    """position -> sample whose label is shown there, 'as if the labels were all_gathered by world_size ranks':
    a distributed sampler pads the index list with its own head to a multiple of world_size, rank r takes every
    world_size-th index starting at r, all_gather concatenates rank after rank, the padding is cut off the end"""
    pad = (-n) % world_size
    padded = list(range(n)) + list(range(pad))
    gathered = [i for r in range(world_size) for i in padded[r::world_size]]
    return gathered[:n]


def floor_counts(p, n):
    """admissible values of floor(p * n) under float64 / exact-rational / decimal-literal evaluation of the product"""
    vals = [p * n, Fraction(p) * n, Fraction(repr(float(p))) * n]
    return {int(math.floor(v)) for v in vals}


def topk_candidates(row, k):
    """indices whose value is among the k largest of `row` (ties at the k-th value all count)"""
    srt = sorted(row, reverse=True)
    kth = srt[k - 1]
    return {j for j, v in enumerate(row) if v >= kth}


class MixLeaf(Leaf):
    """python-int labelled dataset with tensor x, for the library's own in-place consumer of one-hot vectors (KDMixWrapper)"""

    def __init__(self, classes, n_classes):
        super().__init__(len(classes), tag="M", classes=classes, n_classes=n_classes)

    def getitem_x(self, idx, ctx=None):
        return torch.full(size=(2, 2), fill_value=float(self._norm(idx)))
