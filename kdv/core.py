"""Shared runner machinery: cases, verdicts, known findings, evidence, sharding.

Every property module exposes

    LEVEL      = "exploration" | "fault_enumeration"
    RULE       = text: how cases are generated and what makes one distinct / non-trivial
    ASSUMPTIONS = [..]
    def gen_cases(run) -> iterator of JSON-able case specs      (uses run.rng, run.tier, run.budget)
    def run_case(run, spec) -> None                             (executes the REAL code, feeds monitors)
    def finalize(run) -> None   (optional; whole-run oracles, e.g. statistical bounds)
    MONITORS   = [names of counters that must be > 0, else the run is INCONCLUSIVE]

`run_case` reports through `run.violation(key, what, spec)`; `key` names the *mechanism* and is what
known_findings.json is matched against.
"""
from __future__ import annotations

import hashlib
import json
import os
import random
import subprocess
import sys
import tempfile
import time
import traceback
from collections import Counter
from pathlib import Path

VERIF = Path(__file__).resolve().parent.parent
REPO = Path(os.environ.get("KDV_REPO", "/repo"))
_SCRATCH = str(REPO) != "/repo"  # checks tried against a scratch copy must not touch the committed evidence
EVIDENCE_DIR = Path(os.environ.get("KDV_EVIDENCE_DIR", "/tmp/kdv_scratch/evidence" if _SCRATCH else VERIF / "evidence"))
REPLAY_DIR = Path(os.environ.get("KDV_REPLAY_DIR", "/tmp/kdv_scratch/replays" if _SCRATCH else VERIF / "replays"))
KNOWN_FINDINGS = VERIF / "known_findings.json"
NCPU = min(16, os.cpu_count() or 1)


class Inconclusive(Exception):
    pass


class StepBudgetExceeded(BaseException):
    """raised by the sys.monitoring step budget (BaseException so that `except Exception` in the code
    under test cannot swallow it)"""


def canon(obj):
    return json.dumps(obj, sort_keys=True, separators=(",", ":"), default=_json_default)


def _json_default(o):
    try:
        import numpy as np
        if isinstance(o, np.integer):
            return int(o)
        if isinstance(o, np.floating):
            return float(o)
        if isinstance(o, np.ndarray):
            return o.tolist()
    except Exception:
        pass
    try:
        import torch
        if torch.is_tensor(o):
            return o.tolist()
    except Exception:
        pass
    if isinstance(o, (set, frozenset)):
        return sorted(o)
    if isinstance(o, tuple):
        return list(o)
    return repr(o)


def digest(obj):
    return hashlib.sha1(canon(obj).encode()).hexdigest()[:16]


def load_known_findings(pid):
    if not KNOWN_FINDINGS.exists():
        return {}
    entries = json.loads(KNOWN_FINDINGS.read_text())
    return {e["key"]: e for e in entries if e["property"] == pid and e.get("status") == "open"}


def classify_exception(exc):
    """-> ("guard"|"crash", where) : guard = an explicit `assert` / `raise` statement written in the repository,
    recognised from the innermost traceback frame."""
    tb = traceback.extract_tb(exc.__traceback__)
    where = "?"
    kind = "crash"
    if tb:
        fr = tb[-1]
        where = f"{fr.filename}:{fr.lineno}"
        line = (fr.line or "").strip()
        in_repo = str(REPO / "kappadata") in fr.filename
        if in_repo and (line.startswith("assert") or line.startswith("raise ")):
            if isinstance(exc, (AssertionError, NotImplementedError, ValueError, RuntimeError)):
                kind = "guard"
        # multi-line asserts: extract_tb gives the first line of the statement on 3.12
    return kind, where


def short_tb(exc, limit=6):
    return "".join(traceback.format_exception(type(exc), exc, exc.__traceback__)[-limit:])[-1500:]


class Run:
    def __init__(self, pid, tier, seed, level, shard=None, budget_scale=1.0):
        self.pid = pid
        self.tier = tier
        self.seed = seed
        self.level = level
        self.shard = shard  # (i, n) or None
        self.budget_scale = budget_scale
        salt = 0 if shard is None else shard[0] + 1
        self.rng = random.Random(f"{pid}/{seed}/{salt}")
        self.counters = Counter()
        self.classes = set()          # distinct coverage classes (tuples)
        self.case_digests = set()     # distinct non-trivial cases
        self.evaluations = 0
        self.samples = []
        self.violations = []          # dicts {key, what, spec, replay}
        self.known_hits = Counter()   # key -> count
        self.refusals = Counter()     # refusal class -> count
        self.notes = {}
        self.t0 = time.time()
        self.known = load_known_findings(pid)
        self.exhaustive = None
        self._cur_spec = None
        self._viol_per_key = {}
        self._auto_samples = []

    # ----- budgets
    def quick(self):
        return self.tier == "quick"

    def n(self, quick, thorough):
        """number of cases for this tier (per shard in thorough)"""
        v = quick if self.tier == "quick" else thorough
        if self.shard is not None:
            v = max(1, v // self.shard[1])
        return max(1, int(v * self.budget_scale))

    # ----- reporting from run_case
    def count(self, name, k=1):
        self.counters[name] += k

    def cover(self, *cls):
        self.classes.add(canon(cls))

    def sample(self, obj, cap=6):
        if len(self.samples) < cap:
            self.samples.append(json.loads(canon(obj)))

    def refusal(self, cls):
        self.refusals[cls] += 1

    def violation(self, key, what, spec=None):
        spec = spec if spec is not None else self._cur_spec
        if key in self.known:
            self.known_hits[key] += 1
            return
        # at most 6 written-out witnesses per mechanism (a defect that fires on every call must not hide a second one)
        self._viol_per_key[key] = self._viol_per_key.get(key, 0) + 1
        if self._viol_per_key[key] > 6 or len(self.violations) >= 90:
            self.counters["violations_not_recorded"] += 1
            return
        self.violations.append({"key": key, "what": what, "spec": spec})

    # ----- driver
    def execute(self, mod, spec, trivial=False):
        self._cur_spec = spec
        self.evaluations += 1
        if len(self._auto_samples) < 3 and not trivial:
            self._auto_samples.append(json.loads(canon(spec)))
        if not trivial:
            self.case_digests.add(digest(spec))
        try:
            mod.run_case(self, spec)
        except Inconclusive:
            raise
        except StepBudgetExceeded as e:
            self.violation("nontermination", f"logical step budget exceeded: {e}", spec)
        except Exception as e:  # harness must not die silently: an unexpected escape is reported
            kind, where = classify_exception(e)
            self.violation(f"unhandled-{kind}:{type(e).__name__}", f"{type(e).__name__}: {e} at {where}\n{short_tb(e)}", spec)
        finally:
            self._cur_spec = None

    def partial(self):
        return {
            "counters": dict(self.counters), "classes": sorted(self.classes), "case_digests": sorted(self.case_digests),
            "evaluations": self.evaluations, "samples": self.samples, "violations": self.violations,
            "known_hits": dict(self.known_hits), "refusals": dict(self.refusals), "notes": self.notes,
            "exhaustive": self.exhaustive, "auto_samples": self._auto_samples,
        }

    def merge(self, p):
        self.counters.update(p["counters"])
        self.classes.update(p["classes"])
        self.case_digests.update(p["case_digests"])
        self.evaluations += p["evaluations"]
        for s in p["samples"]:
            if len(self.samples) < 8:
                self.samples.append(s)
        for s in p.get("auto_samples", []):
            if len(self._auto_samples) < 3:
                self._auto_samples.append(s)
        self.violations.extend(p["violations"])
        self.known_hits.update(p["known_hits"])
        self.refusals.update(p["refusals"])
        for k, v in p["notes"].items():
            if isinstance(v, list):
                self.notes.setdefault(k, [])
                for x in v:
                    if x not in self.notes[k]:
                        self.notes[k].append(x)
            elif isinstance(v, (int, float)) and not isinstance(v, bool):
                self.notes[k] = self.notes.get(k, 0) + v
            else:
                self.notes[k] = v
        if p.get("exhaustive") is not None:
            self.exhaustive = p["exhaustive"] if self.exhaustive is None else (self.exhaustive and p["exhaustive"])


def write_evidence(run, mod, inconclusive=None):
    EVIDENCE_DIR.mkdir(parents=True, exist_ok=True)
    cov = {
        "evaluations": run.evaluations,
        "distinct_nontrivial": len(run.case_digests),
        "rule": mod.RULE,
        "samples": run.samples[:8] if run.samples else [{"case_spec": x} for x in run._auto_samples],
        "distinct_coverage_classes": len(run.classes),
        "coverage_classes_sample": [json.loads(c) for c in sorted(run.classes)[:40]],
        "monitor_counters": dict(sorted(run.counters.items())),
        "refusals_by_class": dict(run.refusals),
        "known_finding_hits": dict(run.known_hits),
    }
    if run.exhaustive is not None:
        cov["exhaustive"] = bool(run.exhaustive)
    cov.update(run.notes)
    ev = {
        "property_id": run.pid, "tier": run.tier, "seed": run.seed, "level": run.level, "coverage": cov,
        "assumptions": list(getattr(mod, "ASSUMPTIONS", [])),
        "wall_s": round(time.time() - run.t0, 2),
        "violations": len(run.violations),
    }
    if inconclusive:
        ev["coverage"]["inconclusive"] = inconclusive
    (EVIDENCE_DIR / f"{run.pid}.json").write_text(json.dumps(ev, indent=1, default=_json_default) + "\n")


def finish(run, mod):
    """print verdict lines, write replays + evidence, return exit code"""
    inconclusive = []
    for m in getattr(mod, "MONITORS", []):
        if run.counters.get(m, 0) == 0:
            inconclusive.append(f"monitor '{m}' observed nothing")
    if run.evaluations == 0:
        inconclusive.append("no case executed")
    if len(run.case_digests) < 2 and not run.violations:
        inconclusive.append("fewer than 2 distinct non-trivial cases")
    for key, cnt in sorted(run.known_hits.items()):
        print(f"KNOWN-FINDING: property={run.pid} {run.known[key]['what']} [key={key}, {cnt} witnesses this run]")
    code = 0
    if run.violations:
        code = 1
        seen = set()
        for v in run.violations:
            d = REPLAY_DIR / run.pid
            d.mkdir(parents=True, exist_ok=True)
            path = d / f"{digest(v['spec'])}.json"
            path.write_text(json.dumps({"property": run.pid, "key": v["key"], "what": v["what"], "spec": v["spec"]},
                                       indent=1, default=_json_default) + "\n")
            if path in seen:
                continue
            seen.add(path)
            first = v["what"].strip().splitlines()[0][:300] if v["what"] else ""
            print(f"VIOLATION property={run.pid} replay={path} key={v['key']} :: {first}")
    elif inconclusive:
        code = 3
        print(f"INCONCLUSIVE property={run.pid}: " + "; ".join(inconclusive))
    write_evidence(run, mod, inconclusive or None)
    dt = time.time() - run.t0
    print(f"[{run.pid}] tier={run.tier} seed={run.seed} evaluations={run.evaluations} distinct={len(run.case_digests)} "
          f"classes={len(run.classes)} violations={len(run.violations)} known={sum(run.known_hits.values())} "
          f"refusals={dict(run.refusals)} wall={dt:.1f}s -> {'HELD' if code == 0 else 'VIOLATED' if code == 1 else 'INCONCLUSIVE'}")
    return code


def run_inprocess(mod, run, deadline_s=None):
    t_end = None if deadline_s is None else time.time() + deadline_s
    if hasattr(mod, "setup"):
        mod.setup(run)
    for spec in mod.gen_cases(run):
        trivial = bool(spec.pop("_trivial", False)) if isinstance(spec, dict) else False
        run.execute(mod, spec, trivial=trivial)
        if t_end is not None and time.time() > t_end:
            run.notes["stopped_by_time_budget"] = True
            break
    if hasattr(mod, "finalize"):
        try:
            mod.finalize(run)
        except Inconclusive:
            raise
        except Exception as e:
            run.violation("finalize-crash", f"{type(e).__name__}: {e}\n{short_tb(e)}", {"finalize": True})


def run_sharded(modname, pid, tier, seed, nshards, level, timeout_s, extra_env=None):
    """thorough tier: one subprocess per shard (never multiprocessing.Pool), merged in the parent"""
    tmp = Path(tempfile.mkdtemp(prefix=f"kdv_{pid}_"))
    procs = []
    env = dict(os.environ)
    env.update(extra_env or {})
    for i in range(nshards):
        out = tmp / f"shard{i}.json"
        cmd = [sys.executable, "-m", "kdv.main", pid, "--tier", tier, "--seed", str(seed), "--shard", f"{i}/{nshards}", "--partial-out", str(out)]
        procs.append((i, out, subprocess.Popen(cmd, cwd=str(VERIF), env=env, stdout=subprocess.PIPE, stderr=subprocess.STDOUT, text=True)))
    parts, problems = [], []
    t_end = time.time() + timeout_s
    for i, out, p in procs:
        try:
            stdout, _ = p.communicate(timeout=max(1, t_end - time.time()))
        except subprocess.TimeoutExpired:
            p.kill()
            stdout, _ = p.communicate()
            problems.append(f"shard {i} hit the wall-clock watchdog ({timeout_s}s)")
            continue
        if out.exists():
            parts.append(json.loads(out.read_text()))
        else:
            problems.append(f"shard {i} died without a result (rc={p.returncode}): {stdout[-800:]}")
    import shutil
    shutil.rmtree(tmp, ignore_errors=True)
    return parts, problems
