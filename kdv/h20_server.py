"""Light fork server for C20: runs the REAL kappadata.copying functions in forked children under an audit-hook monitor.

It is started as its own process and imports only kappadata.copying.{folder,image_folder,copying_utils} and
kappadata.utils.logging from the repository (the package __init__ files of `kappadata` and `kappadata.utils`, which pull
in torch, are replaced by empty namespace stubs) - forking a 30 MB process costs ~1 ms, forking one with torch loaded ~50 ms.

protocol: one JSON request per line on stdin {root, fn, g, l, rel, kill_at, workers}; one JSON response per line on stdout.
"""
import json
import os
import signal
import sys
import time
import types

REPO = sys.argv[1]
for name, sub in (("kappadata", "kappadata"), ("kappadata.utils", "kappadata/utils")):
    m = types.ModuleType(name)
    m.__path__ = [os.path.join(REPO, sub)]
    sys.modules[name] = m
import kappadata.copying.folder as _folder  # noqa: E402
import kappadata.copying.image_folder as _image_folder  # noqa: E402

assert _folder.__file__.startswith(REPO), _folder.__file__

MUT_EVENTS = {"os.mkdir", "os.rmdir", "os.remove", "os.rename", "os.utime", "os.chmod", "os.chown", "os.link", "os.symlink", "os.truncate",
              "shutil.copyfile", "shutil.copymode", "shutil.copystat", "shutil.copytree", "shutil.rmtree", "shutil.move", "os.replace"}
FS_EVENTS = MUT_EVENTS | {"open", "os.listdir", "os.scandir"}


def child_main(req, wfd):
    rootstr = req["root"]
    kill_at = req.get("kill_at")
    fail_at = req.get("fail_at")
    state = {"n": 0, "armed": True}

    def emit(obj):
        os.write(wfd, (json.dumps(obj) + "\n").encode())

    def hook(event, args):
        if not state["armed"] or event not in FS_EVENTS:
            return
        paths = [os.fsdecode(a) for a in args[:2] if isinstance(a, (str, bytes, os.PathLike))]
        if not any(p.startswith(rootstr) for p in paths):
            return
        mutating = event in MUT_EVENTS
        if event == "open":
            mode, flags = args[1], args[2] if len(args) > 2 else 0
            mutating = bool((isinstance(mode, str) and any(c in mode for c in "wax+")) or
                            (isinstance(flags, int) and flags & (os.O_WRONLY | os.O_RDWR | os.O_CREAT | os.O_TRUNC | os.O_APPEND)))
        state["n"] += 1
        if kill_at is not None and state["n"] == kill_at:
            os.kill(os.getpid(), signal.SIGKILL)
            time.sleep(10)
        emit(["E", event, [p[len(rootstr):] for p in paths if p.startswith(rootstr)], mutating])
        if fail_at is not None and state["n"] == fail_at:
            # the operation fails with an I/O error instead of the process dying (an exception raised by an audit hook becomes the
            # operation's exception)
            import errno
            raise OSError(errno.EIO, "injected I/O error", paths[0] if paths else None)

    from pathlib import Path
    if req.get("fsize_limit"):
        # a full disk / quota: every write beyond the limit fails with EFBIG - in this process and in every worker it starts
        import resource
        signal.signal(signal.SIGXFSZ, signal.SIG_IGN)
        resource.setrlimit(resource.RLIMIT_FSIZE, (int(req["fsize_limit"]), int(req["fsize_limit"])))
    sys.addaudithook(hook)

    def one_call(r):
        fn = _folder.copy_folder_from_global_to_local if r["fn"] == "folder" else _image_folder.copy_imagefolder_from_global_to_local
        res = fn(global_path=Path(r["g"]), local_path=Path(r["l"]), relative_path=r["rel"], num_workers=r.get("workers", 0))
        return {k: getattr(res, k) for k in ("was_copied", "was_deleted", "source_format", "was_zip", "was_zip_classwise") if hasattr(res, k)}

    try:
        if "seq" in req:
            # several calls in ONE process (state that survives between calls, e.g. memoised helpers); the harness may
            # re-pack the source between two calls
            results = []
            for step in req["seq"]:
                if "stat" in step:
                    # harness-side observation between two calls: identity and modification time of every file of a finished copy
                    state["armed"] = False
                    base = Path(step["stat"])
                    results.append({"stat": {str(q.relative_to(base)): [q.lstat().st_ino, q.lstat().st_mtime_ns, q.lstat().st_size]
                                             for q in sorted(base.rglob("*")) if not q.is_dir()}})
                    state["armed"] = True
                elif "repack" in step:
                    state["armed"] = False
                    _repack(Path(step["repack"]["src"]), step["repack"]["to"])
                    state["armed"] = True
                else:
                    results.append(one_call(step["call"]))
            state["armed"] = False
            emit(["R", {"results": results}])
        else:
            res = one_call(req)
            state["armed"] = False
            emit(["R", res])
    except BaseException as e:  # noqa
        state["armed"] = False
        import traceback
        emit(["X", f"{type(e).__name__}: {e} :: " + "".join(traceback.format_tb(e.__traceback__)[-2:])[-600:]])


def _repack(src, to):
    """harness-side change of the source format between two calls (not part of the code under test)"""
    import shutil
    import zipfile
    if to == "zips":
        files = sorted(p for p in src.rglob("*") if p.is_file())
        dirs = sorted(p for p in src.rglob("*") if p.is_dir())
        with zipfile.ZipFile(src / "batch_0.zip.tmp", "w") as z:
            for p in dirs:
                z.writestr(str(p.relative_to(src)) + "/", b"")  # keep (empty) directories
            for p in files:
                z.write(p, str(p.relative_to(src)))
        for p in sorted(src.iterdir()):
            if p.name == "batch_0.zip.tmp":
                continue
            shutil.rmtree(p) if p.is_dir() and not p.is_symlink() else p.unlink()
        (src / "batch_0.zip.tmp").rename(src / "batch_0.zip")
    else:
        for zp in sorted(src.glob("*.zip")):
            with zipfile.ZipFile(zp) as z:
                z.extractall(src)
            zp.unlink()


def call(req):
    import select
    rfd, wfd = os.pipe()
    pid = os.fork()
    if pid == 0:
        try:
            os.close(rfd)
            os.setsid()  # own process group: unzip workers (joblib/loky grandchildren) can be removed together with the child
            child_main(req, wfd)
        finally:
            os._exit(0)
    os.close(wfd)
    os.set_blocking(rfd, False)
    chunks = []
    st = None
    # read until the child itself has exited (grandchildren may keep the pipe's write end open for minutes)
    while True:
        r, _, _ = select.select([rfd], [], [], 0.05)
        if r:
            try:
                b = os.read(rfd, 65536)
            except BlockingIOError:
                b = None
            if b:
                chunks.append(b)
                continue
            if b == b"":
                _, st = os.waitpid(pid, 0)
                break
        done, status = os.waitpid(pid, os.WNOHANG)
        if done:
            st = status
            while True:  # drain what is left
                try:
                    b = os.read(rfd, 65536)
                except BlockingIOError:
                    break
                if not b:
                    break
                chunks.append(b)
            break
    os.close(rfd)
    try:
        os.killpg(pid, signal.SIGKILL)  # leftover unzip workers of this call
    except (ProcessLookupError, PermissionError):
        pass
    events, result, err = [], None, None
    for ln in b"".join(chunks).decode(errors="replace").splitlines():
        try:
            rec = json.loads(ln)
        except Exception:
            continue
        if rec[0] == "E":
            events.append((rec[1], rec[2], rec[3]))
        elif rec[0] == "R":
            result = rec[1]
        elif rec[0] == "X":
            err = rec[1]
    status = "killed" if os.WIFSIGNALED(st) else "raised" if err is not None else "returned" if result is not None else "lost"
    return {"status": status, "result": result, "events": events, "err": err}


def main():
    sys.stdout.write(json.dumps({"ready": True, "folder_file": _folder.__file__, "torch_loaded": "torch" in sys.modules}) + "\n")
    sys.stdout.flush()
    for line in sys.stdin:
        line = line.strip()
        if not line:
            continue
        sys.stdout.write(json.dumps(call(json.loads(line))) + "\n")
        sys.stdout.flush()


def oneshot(argv):
    """run one call directly in this process (used under strace for syscall-level fault injection)"""
    from pathlib import Path
    fn = _folder.copy_folder_from_global_to_local if argv[0] == "folder" else _image_folder.copy_imagefolder_from_global_to_local
    res = fn(global_path=Path(argv[1]), local_path=Path(argv[2]), relative_path=None if argv[3] == "-" else argv[3])
    print("RESULT", res)


if __name__ == "__main__":
    if len(sys.argv) > 2 and sys.argv[2] == "--oneshot":
        oneshot(sys.argv[3:])
    else:
        main()
