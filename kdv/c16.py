"""C16 — label-rewriting wrappers are coherent, in range and reproducible.

Every case builds a logging leaf dataset (known labels, decodable x / y tokens) and one or two of the ten label
wrappers on top of it, twice, under two different states of the process-global RNGs. Judged at the API boundary only:

  coherent      getall_class() == [getitem_class(i)] element-wise as label identity; for the two pure encoders
                (LabelSmoothingWrapper, OneHotWrapper) the value at the bulk label must be the maximum of the vector
  in range      every label is -1 or lies in [0, getshape_class()[0])   (class shape (1,) = binary convention: 0 / 1)
  untouched     getitem_x / getitem_y / len of the stack are those of the leaf; the labels of the dataset *below* the
                wrapper (and of the leaf, whose bulk accessor may hand out its internal list) are the same after any
                sequence of bulk / per-sample calls
  function      repeated queries in a random order give one answer per query; the second construction (other global
                RNG state, same arguments and seed) gives the same answers
  encodings     non-negative, sum to one, value at the original class >= every other value; -1 is passed through;
                binary datasets: a scalar in [0, 1] on the original side of 0.5

plus a few one-line statements taken from the wrappers' docstrings / pinned unit tests (all-gather order, "unapplied
swap keeps the label", number of samples SemiWrapper hides, superclass = at most k input classes, top-k label is one
of the k best, threshold 0 / 1 extremes, setters of KDRandomClassWrapper regenerate).
"""
from __future__ import annotations

import importlib
import json
import math
import os
import random as pyrandom
import shutil
import tempfile
import types
from pathlib import Path

import numpy as np
import torch

from . import core
from . import h16_labels as H
from .harness import GlobalRngSentinel, StepBudget, call_real, codes_of

_DW = "kappadata.wrappers.dataset_wrappers."
_SW = "kappadata.wrappers.sample_wrappers."
_MODS = {
    "classgroups": _DW + "class_groups_wrapper", "superclass": _DW + "random_superclass_wrapper",
    "swap": _DW + "swap_label_wrapper", "overwrite": _DW + "overwrite_classes_wrapper",
    "allgather": _DW + "allgather_class_wrapper", "pseudo": _DW + "kd_pseudo_label_wrapper",
    "randomclass": _SW + "kd_random_class_wrapper", "semi": _SW + "semi_wrapper",
    "smoothing": _SW + "label_smoothing_wrapper", "onehot": _SW + "one_hot_wrapper",
}
_CLS = {
    "classgroups": "ClassGroupsWrapper", "superclass": "RandomSuperclassWrapper", "swap": "SwapLabelWrapper",
    "overwrite": "OverwriteClassesWrapper", "allgather": "AllgatherClassWrapper", "pseudo": "KDPseudoLabelWrapper",
    "randomclass": "KDRandomClassWrapper", "semi": "SemiWrapper", "smoothing": "LabelSmoothingWrapper", "onehot": "OneHotWrapper",
}
_ONE_HOT = importlib.import_module("kappadata.utils.one_hot").to_one_hot_vector
_MIX = importlib.import_module(_SW + "kd_mix_wrapper").KDMixWrapper
W = types.SimpleNamespace(**{k: getattr(importlib.import_module(m), _CLS[k]) for k, m in _MODS.items()})

LEVEL = "exploration"
RULE = ("per wrapper kind (10 kinds, round-robin then random; 25% two-layer stacks): leaf of 0..40 samples, 2..12 classes or "
        "binary, layouts uniform / skewed / absent / singleton / sorted, optional -1 entries where the wrapper passes them "
        "on, bulk result as list (aliased or copied) / ndarray / tensor, per-sample label int or 0-d tensor; arguments from "
        "the quantifier's boundary classes (group sizes = divisors of the class count, splits 1..3, swap p in {0, 1, ..}, "
        "world sizes {1, n, divisors, non-divisors} <= n, pseudo-label tables hard / soft / thresholded {0, 1, quantile} / "
        "top-k {1..C} x tau {None, float, inf} + seed, semi percent {0, 1, k/n, ..}, smoothing {0, 1, ..}); a case = "
        "(leaf, layers, two global-RNG seeds, access-order seed); non-trivial = >= 2 samples; distinct by full spec")
ASSUMPTIONS = [
    "unseeded constructions (seed=None with shuffling, top-k pseudo labels without seed) are outside the 'function of arguments and seed' clause and are not driven",
    "mapping wrappers that index tables by the incoming label (ClassGroupsWrapper, RandomSuperclassWrapper) are only fed labelled, non-binary datasets, OneHotWrapper only non-binary ones; the property does not say what they do with -1 / binary labels",
    "one-hot encoding of an unlabelled (-1) sample (OneHotWrapper.getitem_class, utils.one_hot.to_one_hot_vector): accepted are a rejection by RuntimeError / ValueError / AssertionError / IndexError / NotImplementedError (enumerated refusal classes onehot-unlabeled, onehot-helper-unlabeled; the current code raises torch's 'Class values must be non-negative') or an output whose entries are all -1; any other output is 'unlabelled became a class'",
    "encoders are stacked only on wrappers that hand the leaf's label object through unchanged (SemiWrapper, AllgatherClassWrapper); which python type a mapping wrapper returns is not part of the property",
    "soft pseudo-label tables have a unique row maximum (gap > 1e-4) and moderate values (no probability below 1e-4), tau >= 0.5; top-k ties at the k-th value count as admissible",
    "SemiWrapper's count is floor(percent * n) evaluated in float64 or exactly; both are accepted",
    "the caller does not modify returned bulk lists; bulk results are compared numerically (list / ndarray / tensor all accepted)",
    "thresholds other than 0 / 1 keep a distance of 1e-5 from every row confidence (row-wise vs table-wise softmax may differ in the last digit), except exact-tie tables: rows of identical logits (class count 2 / 4 / 8) or two identical logits and -inf otherwise, whose confidence is exactly 1/count resp. 0.5 on both paths, with the threshold at or above that value; only bulk == per-sample is judged there, not which side of the tie is right",
    "the in-place consumer between two encoder reads is KDMixWrapper(mixup_p=1, mixup_alpha=1, seed) over a harness dataset with the same python-int labels (labelled, non-binary layers only); its own outputs are judged by C10 / C11, not here",
    "bulk label storage of the leaf: list, or ndarray / tensor of dtype int64 / int32 / int16 / uint8 (uint8 only without -1 entries)",
    "soft / thresholded pseudo-label tables are stored as float32 / float16 / bfloat16 / float64 (unique row maximum in that dtype); 'top' thresholds sit exactly on one row's top probability as computed in the table's own dtype, or one representable value above / below: established on the current tree (1200 wrapper comparisons per dtype) that row-wise and table-wise softmax are bit-identical there; only bulk == per-sample is judged",
    "cross-interpreter clause: a bounded batch (<= 10 configurations per seeded wrapper family in quick, 12 per shard in thorough, plus a few unseeded ones; >= 3 samples) is recomputed in ONE child interpreter (python -m kdv.h16_child) started with another PYTHONHASHSEED; per-sample results, bulk labels and class count must be equal; a child that crashes / times out / cannot rebuild a configuration means 'not compared' (monitor stays 0 -> inconclusive), never a violation",
    "reconfiguration through KDRandomClassWrapper's public setters is driven below pass-through wrappers and encoders only (wrappers that compute a table at construction are a function of their constructor arguments); encoders are stacked on KDRandomClassWrapper only while its labels are python ints",
    "in-place edits of wrapped labels are observed through leaves whose bulk accessor hands out their own list / ndarray / tensor (as KDRandomClassWrapper.getall_class does); leaves returning copies cannot show them",
    "encoded vectors: tolerance 1e-5 on the sum, 1e-7 on sign and on the arg-max comparison (float32 arithmetic)",
]
MONITORS = ["threshold_on_row_confidence_tables", "cross_interpreter_labels_compared", "helper_unlabelled_probes", "interference_reads_checked", "evidence_mix_samples_between_reads", "reconfigured_layers_checked", "exact_tie_tables", "bulk_vs_item_checked", "range_checked", "other_items_checked", "wrapped_labels_checked", "history_queries_checked",
            "seed_differential_checked", "encoding_checked", "aliasing_leaf_cases", "topk_bulk_refusals"]

KINDS = list(_MODS)
BINARY_OK = {"swap", "overwrite", "allgather", "pseudo", "randomclass", "semi", "smoothing"}
UNL_OK = {"swap", "overwrite", "allgather", "pseudo", "randomclass", "semi", "smoothing", "onehot"}
ENCODERS = {"smoothing", "onehot"}
PASS_THROUGH = {"semi", "allgather"}
TENSOR_ITEM_OK = {"smoothing", "onehot", "semi", "allgather"}


class _Abort(Exception):
    """a violation was already reported for this case; unwind"""


# ================================================================================================ generation
def _seed_choice(rng, allow_none=False):
    r = rng.random()
    if r < 0.15:
        return "default"
    if allow_none and r < 0.3:
        return "none"
    return rng.choice([0, 1, rng.randrange(10 ** 6)])


def _labels(rng, n, dim, unl):
    pool = [0, 1] if dim == 1 else list(range(dim))
    out = [rng.choice(pool) for _ in range(n)]
    if unl:
        out = [(-1 if rng.random() < 0.2 else c) for c in out]
    return out


def _pct(rng, n):
    r = rng.random()
    if r < 0.15:
        return 0.0
    if r < 0.3:
        return 1.0
    if r < 0.6 and n > 0:
        return rng.randint(0, n) / n
    if r < 0.7:
        return rng.choice([0.1, 0.2, 0.3, 0.7, 1 / 3, 2 / 3, 0.55, 0.29])
    return round(rng.random(), rng.choice([2, 3, 17]))


def _gen_leaf(rng, kind):
    n = rng.choice([0, 1, 2, 3, 5, 8, 13, rng.randint(0, 40), rng.randint(0, 40)])
    if kind == "allgather":
        n = max(n, 1)
    binary = kind in BINARY_OK and rng.random() < 0.15
    dim = 1 if binary else rng.randint(2, 12)
    pool = [0, 1] if binary else list(range(dim))
    style = rng.choice(["uniform", "skewed", "absent", "singleton", "sorted"])
    present = pool
    if style == "absent" and len(pool) > 1:
        present = rng.sample(pool, rng.randint(1, len(pool) - 1))
    wts = [1.0 / (1 + 3 * j) for j in range(len(present))] if style == "skewed" else [1.0] * len(present)
    cls = rng.choices(present, weights=wts, k=n)
    if style == "singleton" and n > 2 and len(present) > 1:
        c = rng.choice(present)
        cls = [x if x != c else present[(present.index(c) + 1) % len(present)] for x in cls]
        cls[rng.randrange(n)] = c
    if style == "sorted":
        cls.sort()
    unl = kind in UNL_OK and rng.random() < 0.3
    if unl:
        cls = [(-1 if rng.random() < 0.2 else c) for c in cls]
    getall = rng.choice(["list", "list", "list", "ndarray", "ndarray", "tensor", "tensor"])
    dtypes = ["int64", "int64", "int16", "int32"] + (["uint8", "uint8"] if not unl else [])  # uint8 cannot hold -1
    return {"n": n, "dim": dim, "classes": cls, "style": style, "getall": getall,
            "dtype": rng.choice(dtypes) if getall != "list" else "int64",
            "alias": rng.random() < (0.7 if getall == "list" else 0.5),
            "item": "tensor0d" if kind in TENSOR_ITEM_OK and rng.random() < 0.3 else "int"}


def _gen_layer(rng, kind, n, dim, unl):
    """-> (layer spec, dim_out, unl_out)"""
    L = {"kind": kind}
    if kind == "classgroups":
        divs = [d for d in range(1, dim + 1) if dim % d == 0]
        L.update(cpg=rng.choice(divs + [1, dim]), shuffle=rng.random() < 0.6)
        L["seed"] = _seed_choice(rng, allow_none=not L["shuffle"])
        return L, dim, unl
    if kind == "superclass":
        L.update(cps=rng.choice([1, dim, rng.randint(1, dim), rng.randint(1, dim)]), splits=rng.choice([1, 1, 2, 3]),
                 shuffle=rng.random() < 0.7)
        s = _seed_choice(rng, allow_none=not L["shuffle"])
        if s == "default":  # the default seed of this wrapper is None (= global RNG): only without shuffling
            s = "default" if not L["shuffle"] else 0
        L["seed"] = s
        return L, math.ceil(dim / L["cps"]) * L["splits"], unl
    if kind == "swap":
        L.update(p=rng.choice([0.0, 1.0, 0.5, 0, 1, round(rng.random(), 3)]), seed=_seed_choice(rng))
        return L, dim, unl
    if kind == "overwrite":
        ounl = rng.random() < 0.2
        L.update(classes=_labels(rng, n, dim, ounl), form=rng.choice(["list", "list", "tensor", "uri", "uri_str"]))
        return L, dim, ounl
    if kind == "allgather":
        divs = [d for d in range(1, n + 1) if n % d == 0]
        nondivs = [d for d in range(1, n + 1) if n % d != 0] or [1]
        L.update(ws=rng.choice([1, n, rng.choice(divs), rng.choice(nondivs), rng.choice(nondivs), rng.randint(1, n)]))
        return L, dim, unl
    if kind == "pseudo":
        forms = ["hard"] if dim == 1 else ["hard", "soft", "thr", "thr", "topk", "topk"]
        form = rng.choice(forms)
        L.update(form=form, tseed=rng.randrange(10 ** 6), src=rng.choice(["arg"] * 8 + ["uri", "uri_str"]))
        unl_out = False
        if form == "hard":
            L["hard_unl"] = rng.random() < 0.2
            unl_out = L["hard_unl"]
            if rng.random() < 0.15:
                L["src"] = "uri_dict"
        else:
            L["scale"] = rng.choice([0.5, 1.5, 3.0])
        if form == "thr":
            L["thr"] = rng.choice([0.0, 1.0, "q", "q", "q", round(rng.random(), 3)])
            L["q"] = rng.random()
            unl_out = True
            if rng.random() < 0.5:
                # rows whose confidence equals the threshold exactly, in float arithmetic on a row as well as on the table:
                # all logits identical (class count a power of two -> 1 / count) or two identical logits and -inf (-> 0.5)
                L["tie"] = {"kind": rng.choice(["uniform", "pair"]) if dim in (2, 4, 8) else "pair", "c": rng.choice([0.0, 2.5, -1.0, 0.37]),
                            "share": rng.choice([0.1, 0.3, 1.0])}
                L["thr"] = rng.choice(["tie", "tie", "tie", 0.9, 1.0])  # never below the tie: which tied class wins is not judged
        if form in ("soft", "thr") and "tie" not in L:
            # storage dtype of the table (half-precision tables save disk space); the threshold may sit right on a row's top
            # probability as computed in that dtype, or one representable value above / below it
            L["tdtype"] = rng.choice(["float32", "float16", "float16", "bfloat16", "bfloat16", "float64"])
            if form == "thr" and rng.random() < 0.7:
                L["thr"], L["ulp"] = "top", rng.choice([-1, 0, 0, 0, 1])
        if form == "topk":
            L.update(topk=rng.choice([1, dim, rng.randint(1, dim)]), tau=rng.choice([None, "inf", 0.5, 1.0, 2.0, 5.0]),
                     seed=rng.choice([0, 1, rng.randrange(10 ** 6)]))
            if isinstance(L["tau"], float):
                L["scale"] = min(L["scale"], 3 * L["tau"])  # tempered weights stay above 1e-4 (float32 weights go into a float64 multinomial)
        return L, dim, unl_out
    if kind == "randomclass":
        mode = rng.choice(["random", "randperm", "gatherbug"] if n >= 1 else ["random", "randperm"])
        nc = rng.choice([None, 1, 2, rng.randint(1, 10), rng.randint(1, 10)])
        L.update(mode=mode, num_classes=nc, seed=_seed_choice(rng))
        if mode == "gatherbug":
            L["ws"] = rng.choice([1, n, rng.randint(1, n)])
        elif rng.random() < 0.5:
            attr = rng.choice(["seed", "mode", "num_classes"])
            val = {"seed": rng.randrange(10 ** 6), "mode": "randperm" if mode == "random" else "random", "num_classes": rng.randint(1, 10)}[attr]
            L["setter"] = [attr, val]
        return L, (nc if nc is not None else dim), False
    if kind == "semi":
        L.update(p=_pct(rng, n), seed=_seed_choice(rng))
        return L, dim, True
    if kind == "smoothing":
        L.update(s=rng.choice([0, 1, 0.0, 1.0, 0.1, 0.5, round(rng.random(), 3), 1e-9]))
        return L, dim, unl
    if kind == "onehot":
        return L, dim, unl
    raise ValueError(kind)


def _allowed_second(kind1, layer1, n, dim, unl):
    if kind1 in ENCODERS or (kind1 == "pseudo" and layer1["form"] == "topk"):
        return []
    out = []
    for k in KINDS:
        if k in ("classgroups", "superclass") and (unl or dim == 1):
            continue
        if k == "onehot" and dim == 1:
            continue
        if k in ENCODERS and kind1 not in PASS_THROUGH:
            continue
        if k == "allgather" and n == 0:
            continue
        if dim == 1 and k not in BINARY_OK:
            continue
        if unl and k not in UNL_OK:
            continue
        out.append(k)
    return out


def gen_cases(run):
    total = run.n(2400, 256000)
    rng = run.rng
    for i in range(total):
        kind = KINDS[i % len(KINDS)] if i < 6 * len(KINDS) else rng.choice(KINDS)
        leaf = _gen_leaf(rng, kind)
        n, dim = leaf["n"], leaf["dim"]
        unl = any(c < 0 for c in leaf["classes"])
        l1, dim1, unl1 = _gen_layer(rng, kind, n, dim, unl)
        layers = [l1]
        if rng.random() < 0.25:
            ks = _allowed_second(kind, l1, n, dim1, unl1 or unl)
            if ks:
                k2 = rng.choice(ks)
                l2, _, _ = _gen_layer(rng, k2, n, dim1, unl1 or unl)
                layers.append(l2)
        if any(L["kind"] not in TENSOR_ITEM_OK for L in layers):
            leaf["item"] = "int"
        if i % 12 == 7 or (i >= 6 * len(KINDS) and rng.random() < 0.06):
            leaf, layers, reconf = _gen_reconfig(rng)
        else:
            reconf = None
        spec = {"leaf": leaf, "layers": layers, "g": [rng.randrange(2 ** 31), rng.randrange(2 ** 31)], "ops_seed": rng.randrange(10 ** 6)}
        if reconf is not None:
            spec["reconfig"] = reconf
        if leaf["n"] < 2:
            spec["_trivial"] = True
        yield spec


def _gen_reconfig(rng):
    """KDRandomClassWrapper, optionally a pass-through wrapper, then an encoder; afterwards the inner wrapper is
    reconfigured through its public setters (1..3 times) and the stack is judged again"""
    leaf = _gen_leaf(rng, "randomclass")
    leaf["item"] = "int"
    n = leaf["n"]
    enc = rng.choice(["onehot", "onehot", "smoothing"])
    lo = 2  # one-hot over a binary class shape is not driven; keep both encoders on the multi-class side
    nc = rng.randint(lo, 10)
    mode = rng.choice(["random", "randperm"])
    layers = [{"kind": "randomclass", "mode": mode, "num_classes": nc, "seed": _seed_choice(rng)}]
    mids = ["semi"] + (["allgather"] if n >= 1 else [])
    if mids and rng.random() < 0.35:
        layers.append(_gen_layer(rng, rng.choice(mids), n, nc, False)[0])
    layers.append(_gen_layer(rng, enc, n, nc, False)[0])
    steps = []
    for _ in range(rng.choice([1, 1, 2, 3])):
        attr = rng.choice(["num_classes", "num_classes", "num_classes", "seed", "mode"])
        if attr == "num_classes":
            val = rng.choice([v for v in (lo, nc - 1, nc + 1, 2 * nc, rng.randint(lo, 12), rng.randint(lo, 12)) if v >= lo and v != nc])
            nc = val
        elif attr == "seed":
            val = rng.randrange(10 ** 6)
        else:
            val = mode = "randperm" if mode == "random" else "random"
        steps.append([attr, val])
    return leaf, layers, steps


# ================================================================================================ construction
_codes = []


def _CODES():
    if not _codes:
        mods = [importlib.import_module(m) for m in _MODS.values()]
        mods += [importlib.import_module("kappadata.utils.getall_as_tensor"), importlib.import_module("kappadata.utils.one_hot")]
        _codes.extend(codes_of(*mods))
    return _codes


class _Tmp:
    def __init__(self):
        self.dir = None
        self.k = 0

    def path(self, name):
        if self.dir is None:
            self.dir = Path(tempfile.mkdtemp(prefix="kdv_c16_"))
        self.k += 1
        return self.dir / f"{self.k}_{name}"

    def close(self):
        if self.dir is not None:
            shutil.rmtree(self.dir, ignore_errors=True)


def _seed_kw(kw, L):
    s = L["seed"]
    if s == "default":
        return
    kw["seed"] = None if s == "none" else s


def _pseudo_table(L, n, dim):
    """deterministic table from the spec: hard -> (n,) long; otherwise (n, dim) float with a unique row maximum;
    top-k without temperature gets probabilities (rows sum to one), everything else logits"""
    g = torch.Generator().manual_seed(L["tseed"])
    if L["form"] == "hard":
        t = torch.randint(0, 2 if dim == 1 else dim, size=(n,), generator=g)
        if L.get("hard_unl") and n > 0:
            t = torch.where(torch.rand(n, generator=g) < 0.25, torch.full_like(t, -1), t)
        return t
    t = (torch.rand(n, dim, generator=g) * 2 - 1) * L["scale"]
    if n > 0 and dim > 1:
        top2 = t.topk(2, dim=1)
        close = (top2.values[:, 0] - top2.values[:, 1]) < 1e-3
        t[torch.arange(n)[close], top2.indices[close, 0]] += 0.01
    if L.get("tie") and n > 0:
        tie, p = L["tie"], _tie_prob(L, dim)
        for _ in range(8):  # every other row keeps a clear distance from the tie value
            conf = t.softmax(dim=1).max(dim=1)
            near = (conf.values - p).abs() < 1e-3
            if not near.any():
                break
            t[torch.arange(n)[near], conf.indices[near]] += 1.0
        near = (t.softmax(dim=1).max(dim=1).values - p).abs() < 1e-3
        pick = (torch.rand(n, generator=g) < tie["share"]) | near
        pick[L["tseed"] % n] = True
        cols = torch.rand(n, dim, generator=g).argsort(dim=1)[:, :2]
        for i in torch.arange(n)[pick].tolist():
            if tie["kind"] == "uniform":
                t[i] = tie["c"]
            else:
                t[i] = float("-inf")
                t[i, cols[i]] = tie["c"]
    if L["form"] == "topk" and L["tau"] is None:
        t = t.softmax(dim=1)
    if L.get("tdtype", "float32") != "float32":
        t = t.to(getattr(torch, L["tdtype"]))
        for _ in range(6):  # the row maximum stays unique after rounding to the table's dtype
            if t.size(0) == 0 or t.size(1) < 2:
                break
            top2 = t.float().topk(2, dim=1) if t.dtype != torch.float64 else t.topk(2, dim=1)
            tied = top2.values[:, 0] == top2.values[:, 1]
            if not tied.any():
                break
            t[torch.arange(t.size(0))[tied], top2.indices[tied, 0]] += 0.25
    return t


def _tie_prob(L, dim):
    return 1.0 / dim if L["tie"]["kind"] == "uniform" else 0.5


def _threshold(L, table):
    """threshold of a 'thr' table: the extremes 0 / 1 as given; anything else is kept at least 1e-5 away from every
    row confidence, so that a row-wise and a table-wise softmax (last-digit differences) cannot disagree about it"""
    thr = L["thr"]
    if thr == "tie":
        return _tie_prob(L, table.size(1))
    if thr == "top":
        if len(table) == 0:
            return 0.5
        top = table.softmax(dim=1).max(dim=1).values[min(int(L["q"] * len(table)), len(table) - 1)]  # in the table's own dtype
        bits = {2: torch.int16, 4: torch.int32, 8: torch.int64}[top.element_size()]
        return (top.view(bits) + L["ulp"]).view(top.dtype).item()  # positive floats: neighbouring bit patterns are neighbouring values
    if thr in (0.0, 1.0) or len(table) == 0:
        return 0.5 if thr == "q" else float(thr)
    mx = sorted(table.softmax(dim=1).max(dim=1).values.tolist())
    if thr == "q":
        j = min(int(L["q"] * len(mx)), len(mx) - 1)
        lo = mx[j - 1] if j > 0 else mx[0] - 0.05
        thr = (lo + mx[j]) / 2  # between two observed confidences (or below all)
    thr = float(thr)
    for _ in range(200):
        if all(abs(c - thr) >= 1e-5 for c in mx):
            break
        thr += 1e-4
    return thr


def _describe(L):
    return f"{_CLS[L['kind']]}({', '.join(f'{k}={v!r}' for k, v in L.items() if k not in ('kind', 'classes'))})"


def _ctor(L, below, n, dim_in, tmp, aux):
    """-> zero-argument callable constructing the real wrapper (all inputs derived from the spec)"""
    k = L["kind"]
    if k == "classgroups":
        kw = dict(classes_per_group=L["cpg"], shuffle=L["shuffle"])
        _seed_kw(kw, L)
        return lambda: W.classgroups(dataset=below, **kw)
    if k == "superclass":
        kw = dict(classes_per_superclass=L["cps"], superclass_splits=L["splits"], shuffle=L["shuffle"])
        _seed_kw(kw, L)
        return lambda: W.superclass(dataset=below, **kw)
    if k == "swap":
        kw = dict(p=L["p"])
        _seed_kw(kw, L)
        return lambda: W.swap(dataset=below, **kw)
    if k == "overwrite":
        cls = list(L["classes"])
        if L["form"] == "list":
            return lambda: W.overwrite(below, classes=cls)
        t = torch.tensor(cls, dtype=torch.long)
        if L["form"] == "tensor":
            return lambda: W.overwrite(below, classes=t)
        p = tmp.path("overwritten.th")
        torch.save(t, p)
        uri = p if L["form"] == "uri" else str(p)
        return lambda: W.overwrite(below, uri=uri)
    if k == "allgather":
        return lambda: W.allgather(dataset=below, world_size=L["ws"])
    if k == "pseudo":
        table = _pseudo_table(L, n, dim_in)
        aux["table"] = table
        if L.get("tie") and n > 0 and L["thr"] == "tie":
            aux["exact_tie"] = True
        kw = {}
        if L["form"] == "thr":
            kw["threshold"] = aux["thr"] = _threshold(L, table)
        if L["form"] == "topk":
            kw.update(topk=L["topk"], seed=L["seed"])
            if L["tau"] is not None:
                kw["tau"] = float("inf") if L["tau"] == "inf" else L["tau"]
        if L["src"] == "arg":
            return lambda: W.pseudo(below, pseudo_labels=table.clone(), **kw)
        p = tmp.path("pseudo.th")
        if L["src"] == "uri_dict":
            conf = torch.rand(n, generator=torch.Generator().manual_seed(L["tseed"] + 1))
            torch.save({"label": table, "confidence": conf}, p)
        else:
            torch.save(table, p)
        uri = str(p) if L["src"] == "uri_str" else p
        return lambda: W.pseudo(below, uri=uri, **kw)
    if k == "randomclass":
        kw = dict(mode=L["mode"], num_classes=L["num_classes"])
        _seed_kw(kw, L)
        if L["mode"] == "gatherbug":
            kw["mode_kwargs"] = dict(world_size=L["ws"])
        return lambda: W.randomclass(dataset=below, **kw)
    if k == "semi":
        kw = dict(semi_percent=L["p"])
        _seed_kw(kw, L)
        return lambda: W.semi(dataset=below, **kw)
    if k == "smoothing":
        return lambda: W.smoothing(dataset=below, smoothing=L["s"])
    if k == "onehot":
        return lambda: W.onehot(dataset=below)
    raise ValueError(k)


def _construct(run, L, below, n, dim_in, tmp, aux):
    what = _describe(L)
    fn = _ctor(L, below, n, dim_in, tmp, aux)
    run.count("ctor_step_budget_runs")
    with StepBudget(80 * (n + 16) + 800, _CODES(), what=what):
        ok, w = call_real(run, fn, crash_key=f"{L['kind']}:ctor-crash", what=f"constructing {what} over {n} samples")
    if not ok:
        raise _Abort
    return w


# ================================================================================================ observation
def _real(run, fn, key, what, refusal=None):
    ok, v = call_real(run, fn, refusal_class=refusal, crash_key=key, what=what)
    if not ok and (refusal is None or core.classify_exception(v)[0] != "guard"):
        raise _Abort  # reported by call_real
    return ok, v


def _s(v):
    r = repr(v)
    return r if len(r) < 300 else r[:300] + "…"


def _read_labels(run, ds, n, key, what):
    """[ds.getitem_class(i)] as python numbers (None where the result is not a scalar)"""
    ok, vals = _real(run, lambda: [ds.getitem_class(i) for i in range(n)], key, what)
    return [H.as_scalar(v) for v in vals]


def _observe(run, L, below, w, below_labels, dim_in, leaf, leaf_spec, ops_seed, full, aux, interfere=True):
    """all observations of one layer; returns dict(items, canon, bulk, dim). `full`=False: only what the seed
    differential needs."""
    k = L["kind"]
    n = leaf_spec["n"]
    what = f"{_describe(L)} over labels {_s(below_labels)}"
    V = run.violation
    topk = k == "pseudo" and L["form"] == "topk"
    refusal = "pseudo-topk-bulk" if topk else None

    _, shape = _real(run, lambda: w.getshape_class(), f"{k}:shape-crash", what)
    if not (isinstance(shape, tuple) and len(shape) == 1 and H.as_scalar(shape[0]) is not None and shape[0] == int(shape[0]) and shape[0] >= 1):
        V(f"{k}:class-shape", f"{what}: getshape_class() returned {shape!r}, a 1-tuple with a positive class count is announced")
        raise _Abort
    dim = int(shape[0])

    def bulk_call():
        ok, b = _real(run, lambda: w.getall_class(), f"{k}:bulk-crash", f"{what}: getall_class()", refusal=refusal)
        if not ok:
            run.count("topk_bulk_refusals")
            return None
        nb = H.norm_bulk(b)
        if nb is None:
            V(f"{k}:bulk-not-a-label-list", f"{what}: getall_class() returned {_s(b)}")
            raise _Abort
        return nb

    def item_call(i, with_ctx):
        return _get_item(run, k, w, i, below_labels[i] == -1, what, with_ctx)

    # ---- history: random order of bulk / per-sample / x queries; one answer per query
    first = {}
    if full:
        orng = pyrandom.Random(ops_seed)
        bulks = 0
        for _ in range(min(2 * n + 3, 36)):
            r = orng.random()
            if r < 0.15 or n == 0:
                if bulks >= 3:
                    continue
                bulks += 1
                q, res = ("bulk",), bulk_call()
                if res is None:
                    continue
            elif r < 0.8:
                i = orng.randrange(n)
                q, res = ("item", i), H.canon_item(item_call(i, orng.random() < 0.4))
            else:
                i = orng.randrange(n)
                _, tok = _real(run, lambda: w.getitem_x(i), f"{k}:x-crash", f"{what}: getitem_x({i})")
                q, res = ("x", i), tok
            run.count("history_queries_checked")
            if q in first and first[q] != res:
                V(f"{k}:unstable-across-calls", f"{what}: query {q} answered {_s(first[q])} first and {_s(res)} later in the same access sequence")
                raise _Abort
            first.setdefault(q, res)

    # ---- canonical pass
    raw = [item_call(i, False) for i in range(n)]
    canon = [H.canon_item(v) for v in raw]
    bulk = bulk_call()
    if full:
        for i in range(n):
            if ("item", i) in first and first[("item", i)] != canon[i]:
                V(f"{k}:unstable-across-calls", f"{what}: getitem_class({i}) answered {_s(first[('item', i)])} first and {_s(canon[i])} later")
                raise _Abort
        if ("bulk",) in first and bulk is not None and first[("bulk",)] != bulk:
            V(f"{k}:unstable-across-calls", f"{what}: getall_class() answered {_s(first[('bulk',)])} first and {_s(bulk)} later")
            raise _Abort
    out = {"canon": canon, "bulk": bulk, "dim": dim, "raw": raw}
    if not full:
        return out

    ok_len, ln = _real(run, lambda: len(w), f"{k}:len-crash", what)
    if ln != n:
        V(f"{k}:other-item-changed", f"{what}: len() is {ln}, the wrapped dataset has {n} samples")
        raise _Abort
    if bulk is not None and len(bulk) != n:
        V(f"{k}:bulk-length", f"{what}: getall_class() has {len(bulk)} entries for {n} samples: {_s(bulk)}")
        raise _Abort

    # ---- labels (or encodings)
    if k in ENCODERS:
        items = _check_encodings(run, L, what, raw, bulk, below_labels, dim_in, dim)
        if k == "onehot" and dim >= 2:
            _helper_probe(run, what, dim)
        if interfere:
            _encoder_interference(run, L, what, w, below, canon, bulk, below_labels, dim_in, dim, n, ops_seed)
    else:
        items = [H.as_scalar(v) for v in raw]
        bad = [i for i, v in enumerate(items) if v is None]
        if bad:
            V(f"{k}:item-not-a-label", f"{what}: getitem_class({bad[0]}) returned {_s(raw[bad[0]])}")
            raise _Abort
        if bulk is not None:
            run.count("bulk_vs_item_checked")
            if bulk != items:
                V(_classify_bulk(L, items, bulk, below_labels, n), f"{what}: getall_class() = {_s(bulk)} but per-sample labels are {_s(items)}")
                raise _Abort
        run.count("range_checked")
        for src, vals in (("getitem_class", items), ("getall_class", bulk or [])):
            off = [(i, v) for i, v in enumerate(vals) if not H.in_range(v, dim)]
            if off:
                V(f"{k}:out-of-range", f"{what}: {src} produced label {off[0][1]} at {off[0][0]}, announced class shape ({dim},)")
                raise _Abort
    out["items"] = items

    # ---- other data untouched
    run.count("other_items_checked")
    _, xs = _real(run, lambda: [(w.getitem_x(i), w.getitem_y(i)) for i in range(n)], f"{k}:x-crash", what)
    for i, (x, y) in enumerate(xs):
        if x != ("L", i) or y != ("y", "L", i):
            V(f"{k}:other-item-changed", f"{what}: position {i} delivers x={x!r} y={y!r}, the leaf has ('L', {i}) / ('y', 'L', {i})")
            raise _Abort

    # ---- the wrapped dataset's own labels
    run.count("wrapped_labels_checked")
    now = _read_labels(run, below, n, f"{k}:below-crash", what)
    if now != below_labels:
        V(f"{k}:wrapped-labels-mutated", f"{what}: after the bulk / per-sample calls the wrapped dataset's own labels are {_s(now)}, before: {_s(below_labels)}")
        raise _Abort
    if leaf.labels_now() != leaf_spec["classes"]:
        V(f"{k}:wrapped-labels-mutated", f"{what}: the leaf's label storage was edited in place: {_s(leaf.labels_now())}, before: {_s(leaf_spec['classes'])}")
        raise _Abort

    _semantics(run, L, what, w, items, bulk, below_labels, dim_in, dim, n, aux)
    return out


_REFUSED = "<refused: unlabelled sample>"
_REJECTIONS = (RuntimeError, ValueError, AssertionError, IndexError, NotImplementedError)


def _get_item(run, k, w, i, unlabelled, what, with_ctx=False):
    """one per-sample read. One-hot encoding of an unlabelled (-1) sample is the enumerated refusal class
    'onehot-unlabeled': the repository rejects the value with an exception (-> _REFUSED) or returns something that is
    judged by the encoding clauses; everything else goes through call_real"""
    fn = (lambda: w.getitem_class(i, ctx={})) if with_ctx else (lambda: w.getitem_class(i))
    if k == "onehot" and unlabelled:
        try:
            return fn()
        except core.StepBudgetExceeded:
            raise
        except _REJECTIONS:
            run.refusal("onehot-unlabeled")
            return _REFUSED
        except Exception as e:
            run.violation(f"{k}:item-crash:{type(e).__name__}", f"{what}: getitem_class({i}) of an unlabelled sample: {type(e).__name__}: {e}\n{core.short_tb(e)}")
            raise _Abort
    _, v = _real(run, fn, f"{k}:item-crash", f"{what}: getitem_class({i}{', ctx={}' if with_ctx else ''})")
    return v


def _helper_probe(run, what, dim):
    """kappadata.utils.one_hot.to_one_hot_vector (anchored helper, also used by the mix wrapper) with the -1 marker as
    python int and as 0-d tensor: rejected by an exception, or an output that still says 'unlabelled'"""
    for y in (-1, torch.tensor(-1)):
        run.count("helper_unlabelled_probes")
        try:
            v = _ONE_HOT(y, n_classes=dim)
        except core.StepBudgetExceeded:
            raise
        except _REJECTIONS:
            run.refusal("onehot-helper-unlabeled")
            continue
        except Exception as e:
            run.violation(f"onehot:helper-crash:{type(e).__name__}", f"{what}: to_one_hot_vector({y!r}, n_classes={dim}): {type(e).__name__}: {e}\n{core.short_tb(e)}")
            raise _Abort
        if not H.is_marker(v):
            run.violation("onehot:unlabeled-becomes-class", f"{what}: to_one_hot_vector({y!r}, n_classes={dim}) returned {_s(v)} — the -1 marker must be rejected or stay a marker, never become a class")
            raise _Abort


def _encoder_interference(run, L, what, w, below, canon, bulk, below_labels, dim_in, dim, n, ops_seed):
    """the caller owns what it gets: between two reads of the same items (i) the vectors returned by a read are
    modified in place and (ii) the library's own in-place consumer of one-hot vectors (KDMixWrapper with mixup_p=1,
    over a dataset with the same python-int labels) produces samples; a later read, and a fresh wrapper, must still
    give the encodings of the first read"""
    k = L["kind"]
    if n == 0:
        return
    again = [_get_item(run, k, w, i, below_labels[i] == -1, what) for i in range(n)]
    touched = 0
    for v in again:
        if torch.is_tensor(v) and v.is_floating_point():
            v.mul_(0.5).add_(0.25)
            touched += 1
    mixed = 0
    if dim_in >= 2 and all(type(o) is int and o >= 0 for o in below_labels):
        try:  # the mix wrapper itself is not judged here (C10 / C11): a failure of it only loses this interference
            mix = _MIX(dataset=H.MixLeaf(below_labels, dim_in), mixup_p=1.0, mixup_alpha=1.0, seed=ops_seed)
            for i in range(min(n, 12)):
                mix.getitem_class(i)
                mixed += 1
        except Exception:
            run.count("evidence_mix_consumer_failed")
    run.count("interference_reads_checked")
    run.count("evidence_vectors_modified_in_place", touched)
    run.count("evidence_mix_samples_between_reads", mixed)
    fresh_w = _ctor(L, below, n, dim_in, None, {})
    _, fresh_w = _real(run, fresh_w, f"{k}:ctor-crash", what)
    for name, ds in (("the same wrapper", w), ("a fresh wrapper", fresh_w)):
        later = [_get_item(run, k, ds, i, below_labels[i] == -1, what) for i in range(n)]
        later_canon = [H.canon_item(v) for v in later]
        bad = [i for i in range(n) if later_canon[i] != canon[i]]
        if bad:
            i = bad[0]
            run.violation(f"{k}:encoding-depends-on-earlier-calls",
                          f"{what}: after the vectors of an earlier read were modified in place ({touched}) and {mixed} mixup samples were drawn over the "
                          f"same labels, {name} encodes sample {i} (label {below_labels[i]}) as {_s(later[i])}; the first read gave {_s(canon[i])}")
            raise _Abort
        _check_encodings(run, L, what, later, bulk, below_labels, dim_in, dim)


def _classify_bulk(L, items, bulk, below_labels, n):
    """name the mechanism of a bulk / per-sample disagreement from what was observed"""
    k = L["kind"]
    if k == "allgather" and len(bulk) == n:
        m = H.allgather_model(n, L["ws"])
        if bulk == [below_labels[m[m[i]]] for i in range(n)]:
            return "allgather:bulk-double-map"
    if k == "pseudo" and L["form"] == "thr" and len(bulk) == n and all(b == it or it == -1 for b, it in zip(bulk, items)):
        return "pseudo:bulk-ignores-threshold"
    if k == "pseudo" and L["form"] == "thr" and len(bulk) == n and all(b == it or b == -1 for b, it in zip(bulk, items)):
        return "pseudo:bulk-threshold-stricter-than-per-sample"
    if bulk == below_labels:
        return f"{k}:bulk-falls-through-to-wrapped-labels"
    return f"{k}:bulk-vs-item"


def _check_encodings(run, L, what, raw, bulk, below_labels, dim_in, dim):
    k = L["kind"]
    V = run.violation
    if dim != dim_in:
        V(f"{k}:class-shape", f"{what}: announces class shape ({dim},), the wrapped dataset ({dim_in},)")
        raise _Abort
    if bulk is not None:
        off = [(i, v) for i, v in enumerate(bulk) if not H.in_range(v, dim)]
        if off:
            V(f"{k}:out-of-range", f"{what}: getall_class produced label {off[0][1]} at {off[0][0]}, announced class shape ({dim},)")
            raise _Abort
    items = []
    for i, v in enumerate(raw):
        o = below_labels[i]
        b = bulk[i] if bulk is not None else o
        run.count("encoding_checked")
        here = f"{what}: sample {i} (original label {o}, bulk label {b}) encodes as {_s(v)}"
        if o == -1:
            if v is _REFUSED:  # rejected by the repository's own exception (refusal class onehot-unlabeled)
                if b != -1:
                    V(f"{k}:bulk-vs-item", here)
                    raise _Abort
                items.append(-1)
                continue
            if not H.is_marker(v):
                if k == "onehot":
                    V("onehot:unlabeled-becomes-class", here + " — an unlabelled sample must be rejected or stay marked, never be encoded as a class")
                else:
                    V(f"{k}:marker-not-passed", here + " — an unlabelled sample must stay marked with -1")
                raise _Abort
            if b != -1:
                V(f"{k}:bulk-vs-item", here)
                raise _Abort
            items.append(-1)
            continue
        s = H.as_scalar(v)
        if dim == 1:  # binary: scalar in [0, 1] on the original side of one half
            if s is None:
                vec = H.as_vector(v)
                s = vec[0] if vec is not None and len(vec) == 1 else None
            if s is None or not (0 <= s <= 1) or (o == 1 and s < 0.5) or (o == 0 and s > 0.5):
                V(f"{k}:encoding-binary", here + " — a binary label must stay in [0, 1] on its side of 0.5")
                raise _Abort
            if (b == 1 and s < 0.5) or (b == 0 and s > 0.5) or b not in (0, 1):
                V(f"{k}:bulk-vs-item", here)
                raise _Abort
            items.append(o)
            continue
        if s is not None:  # a hard label instead of a vector: only 'no smoothing' may leave the label as it is
            if not (k == "smoothing" and L["s"] == 0):
                V(f"{k}:encoding-shape", here + f" — a vector of {dim} class weights is announced")
                raise _Abort
            if s != o or s != b:
                V(f"{k}:bulk-vs-item" if s == o else f"{k}:encoding-argmax", here)
                raise _Abort
            items.append(o)
            continue
        vec = H.as_vector(v)
        if vec is None or len(vec) != dim:
            V(f"{k}:encoding-shape", here + f" — a vector of {dim} class weights is announced")
            raise _Abort
        if min(vec) < -1e-7:
            V(f"{k}:encoding-negative", here)
            raise _Abort
        if abs(sum(vec) - 1.0) > 1e-5:
            V(f"{k}:encoding-sum", here + f" — sums to {sum(vec)!r}")
            raise _Abort
        if vec[o] < max(vec) - 1e-7:
            V(f"{k}:encoding-argmax", here + " — the original class does not carry the largest weight")
            raise _Abort
        if not (0 <= b < dim and b == int(b)) or vec[int(b)] < max(vec) - 1e-7:
            V(f"{k}:bulk-vs-item", here + " — the bulk label does not carry the largest weight")
            raise _Abort
        if k == "onehot" and sorted(vec) != [0.0] * (dim - 1) + [1.0]:
            V("onehot:not-one-hot", here)
            raise _Abort
        items.append(o)
    if bulk is not None:
        run.count("bulk_vs_item_checked")
    run.count("range_checked")
    return items


def _semantics(run, L, what, w, items, bulk, below_labels, dim_in, dim, n, aux):
    """one-line promises from docstrings / pinned unit tests, per wrapper"""
    k = L["kind"]
    V = run.violation
    if k in ENCODERS:
        return
    run.count("semantic_checked")
    if k == "allgather":
        m = H.allgather_model(n, L["ws"])
        want = [below_labels[j] for j in m]
        if items != want:
            V("allgather:order", f"{what}: per-sample labels {_s(items)}; labels gathered from {L['ws']} ranks would be {_s(want)}")
    elif k == "overwrite":
        if items != L["classes"]:
            V("overwrite:per-sample", f"{what}: per-sample labels {_s(items)}, given classes {_s(L['classes'])}")
    elif k == "semi":
        if any(v != -1 and v != o for v, o in zip(items, below_labels)):
            V("semi:labelled-changed", f"{what}: a sample that keeps a label must keep its own: {_s(items)}")
            return
        c0 = sum(1 for o in below_labels if o == -1)
        c = sum(1 for v in items if v == -1)
        if not any(max(c0, m) <= c <= min(n, c0 + m) for m in H.floor_counts(L["p"], n)):
            V("semi:count", f"{what}: {c} samples are unlabelled ({c0} were before); semi_percent={L['p']} of {n} promises {sorted(H.floor_counts(L['p'], n))} hidden labels")
    elif k == "swap":
        _, app = _real(run, lambda: [w.getitem_apply(i) for i in range(n)], "swap:apply-crash", what)
        if any((not a) and v != o for a, v, o in zip(app, items, below_labels)):
            V("swap:unapplied-changed", f"{what}: apply flags {_s(app)}, labels {_s(items)} — a sample that is not swapped must keep its label")
        elif L["p"] == 0 and (any(app) or items != below_labels):
            V("swap:p-extreme", f"{what}: p=0 must not swap anything; apply flags {_s(app)}")
        elif L["p"] == 1 and not all(app):
            V("swap:p-extreme", f"{what}: p=1 must swap every sample; apply flags {_s(app)}")
    elif k == "superclass":
        want_dim = math.ceil(dim_in / L["cps"]) * L["splits"]
        if dim != want_dim:
            V("superclass:class-shape", f"{what}: announces {dim} classes; {dim_in} classes merged {L['cps']} at a time in {L['splits']} split(s) are {want_dim}")
            return
        members, images = {}, {}
        for o, v in zip(below_labels, items):
            members.setdefault(v, set()).add(o)
            images.setdefault(o, set()).add(v)
        if any(len(s) > L["cps"] for s in members.values()) or any(len(s) > L["splits"] for s in images.values()):
            V("superclass:merge-structure", f"{what}: labels {_s(items)} — a superclass holds more than {L['cps']} input classes or an input class is spread over more than {L['splits']} labels")
        elif L["cps"] == 1 and L["splits"] == 1 and not L["shuffle"] and items != below_labels:
            V("superclass:identity", f"{what}: one class per superclass without shuffling must be the identity, got {_s(items)}")
    elif k == "classgroups":
        cpg = L["cpg"]
        members, images = {}, {}
        for o, v in zip(below_labels, items):
            members.setdefault(v // cpg, set()).add(o)
            images.setdefault(o, set()).add(v // cpg)
        if any(len(s) > cpg for s in members.values()) or any(len(s) > 1 for s in images.values()):
            V("classgroups:group-structure", f"{what}: labels {_s(items)} — a group of {cpg} labels receives more than {cpg} input classes or an input class is spread over several groups")
        elif cpg == 1 and not L["shuffle"] and items != below_labels:
            V("classgroups:identity", f"{what}: one class per group without shuffling must be the identity, got {_s(items)}")
        else:
            _, before = _real(run, lambda: ([w.getitem_class_before_grouping(i) for i in range(n)], w.getall_class_before_grouping()), "classgroups:before-crash", what)
            if [H.as_scalar(v) for v in before[0]] != below_labels or H.norm_bulk(before[1]) != below_labels:
                V("classgroups:before-grouping", f"{what}: the *_before_grouping accessors return {_s(before)}")
    elif k == "pseudo":
        table = aux["table"]
        form = L["form"]
        if L.get("thr") == "top" and n > 0:
            run.count("threshold_on_row_confidence_tables")
            run.count(f"evidence_threshold_on_row_{L.get('tdtype', 'float32')}")
        if aux.get("exact_tie"):
            run.count("exact_tie_tables")
        if form == "hard":
            if items != table.tolist():
                V("pseudo:per-sample", f"{what}: per-sample labels {_s(items)}, given pseudo labels {_s(table.tolist())}")
        elif form in ("soft", "thr"):
            am = table.argmax(dim=1).tolist() if n else []
            # in a narrow dtype two entries of a row can round to the same probability: every index that attains the row maximum of the raw
            # row or of its softmax (computed in the table's own dtype, as the wrapper does) is a legitimate argmax
            def _max_set(i):
                import torch
                row = table[i]
                sm = row.float().softmax(dim=0) if row.dtype in (torch.int64, torch.int32) else row.softmax(dim=0)
                return {int(j) for j in (row == row.max()).nonzero().flatten().tolist()} | {int(j) for j in (sm == sm.max()).nonzero().flatten().tolist()}
            if any(v != a and not (form == "thr" and v == -1) and v not in _max_set(i) for i, (v, a) in enumerate(zip(items, am))):
                V("pseudo:not-argmax-or-marker", f"{what}: per-sample labels {_s(items)}, row maxima at {_s(am)}")
            elif form == "thr" and L["thr"] == 0.0 and any(v == -1 for v in items):
                V("pseudo:threshold-extreme", f"{what}: threshold 0 hides labels: {_s(items)}")
            elif form == "thr" and L["thr"] == 1.0 and any(v != -1 for v in items):
                V("pseudo:threshold-extreme", f"{what}: threshold 1 keeps labels: {_s(items)}")
        elif form == "topk":
            rows = table.tolist()
            badi = [i for i, v in enumerate(items) if v not in H.topk_candidates(rows[i], L["topk"])]
            if badi:
                V("pseudo:not-in-topk", f"{what}: sample {badi[0]} got label {items[badi[0]]}, row {_s(rows[badi[0]])}, k={L['topk']}")
    elif k == "randomclass":
        want_dim = L["num_classes"] if L["num_classes"] is not None else dim_in
        if dim != want_dim:
            V("randomclass:class-shape", f"{what}: announces {dim} classes, constructed with {want_dim}")
        elif L["mode"] == "randperm" and (len(set(items[:dim])) != len(items[:dim]) or any(items[i] != items[i % dim] for i in range(n))):
            V("randomclass:randperm", f"{what}: labels {_s(items)} are not one permutation of the classes repeated")


# ================================================================================================ case execution
def _stack(run, spec, which, full, tmp):
    """build the whole stack once under global seed g[which]; returns per-layer observations"""
    leaf_spec = spec["leaf"]
    n = leaf_spec["n"]
    GlobalRngSentinel.seed_all(spec["g"][which])
    if which == 1:
        np.random.random(3), torch.rand(2), pyrandom.random()
    leaf = H.Leaf16(n, classes=leaf_spec["classes"], n_classes=leaf_spec["dim"], getall_kind=leaf_spec["getall"],
                    alias_getall=leaf_spec["alias"], item_kind=leaf_spec["item"],
                    store_dtype=leaf_spec.get("dtype", "int64"))
    below, below_labels, dim_in = leaf, list(leaf_spec["classes"]), leaf_spec["dim"]
    obs = []
    for li, L in enumerate(spec["layers"]):
        aux = {}
        snap = GlobalRngSentinel.snapshot()
        w = _construct(run, L, below, n, dim_in, tmp, aux)
        o = _observe(run, L, below, w, below_labels, dim_in, leaf, leaf_spec, spec["ops_seed"] + li, full, aux)
        if GlobalRngSentinel.diff(snap, GlobalRngSentinel.snapshot()):
            run.count("evidence_global_rng_consumed")  # evidence only: the property speaks about dependence, not consumption
        if full and L["kind"] == "randomclass" and "setter" in L:
            _setter(run, L, below, n, dim_in, tmp)
        o["w"] = w
        obs.append(o)
        if li + 1 < len(spec["layers"]):
            if full:
                below_labels = o["items"]
            else:
                below_labels = [H.as_scalar(v) for v in o["raw"]]
            below, dim_in = w, o["dim"]
    if full and leaf.alias_getall:
        run.count("aliasing_leaf_cases")
    run.count("evidence_leaf_loads", len(leaf.log))
    if full and spec.get("reconfig"):
        _reconfigure(run, spec, obs, leaf)
    return obs


def _reconfigure(run, spec, obs, leaf):
    """set the inner KDRandomClassWrapper's public properties while other wrappers are stacked on it; after every
    step each layer has to satisfy the same clauses again (range against the class shape announced *now*, encoding
    length, bulk vs per-sample, untouched data), the inner wrapper against its new arguments"""
    leaf_spec = spec["leaf"]
    n = leaf_spec["n"]
    layers = [dict(L) for L in spec["layers"]]
    inner = obs[0]["w"]
    for si, (attr, val) in enumerate(spec["reconfig"]):
        _real(run, lambda: setattr(inner, attr, val), "randomclass:setter-crash", f"{_describe(layers[0])}.{attr} = {val!r} below {[L['kind'] for L in layers[1:]]}")
        layers[0][attr] = val
        below, below_labels, dim_in = leaf, list(leaf_spec["classes"]), leaf_spec["dim"]
        for li, L in enumerate(layers):
            w = obs[li]["w"]
            if L["kind"] in ENCODERS and any(type(v) is not int for v in [below.getitem_class(i) for i in range(n)]):
                run.count("reconfig_skipped_label_type")  # the encoders document python-int / 0-d tensor labels only
                return
            o = _observe(run, L, below, w, below_labels, dim_in, leaf, leaf_spec, spec["ops_seed"] + 101 * (si + 1) + li, True, {},
                         interfere=si + 1 == len(spec["reconfig"]))
            run.count("reconfigured_layers_checked")
            below, below_labels, dim_in = w, o["items"], o["dim"]


def _setter(run, L, below, n, dim_in, tmp):
    """KDRandomClassWrapper's seed / mode / num_classes setters: afterwards the wrapper must be what a fresh
    construction with the new value is (tried on an instance of its own; the stack's instance stays as constructed)"""
    attr, val = L["setter"]
    what = f"{_describe(L)} after .{attr} = {val!r}"
    w = _construct(run, L, below, n, dim_in, tmp, {})
    _real(run, lambda: setattr(w, attr, val), "randomclass:setter-crash", what)
    L2 = dict(L, **{attr: val})
    L2.pop("setter")
    fresh = _construct(run, L2, below, n, dim_in, tmp, {})
    _, (gb, gs, wb, ws) = _real(run, lambda: (w.getall_class(), w.getshape_class(), fresh.getall_class(), fresh.getshape_class()), "randomclass:bulk-crash", what)
    got = (_read_labels(run, w, n, "randomclass:item-crash", what), H.norm_bulk(gb), gs)
    want = (_read_labels(run, fresh, n, "randomclass:item-crash", what), H.norm_bulk(wb), ws)
    run.count("setter_checked")
    if got != want:
        run.violation("randomclass:setter-stale", f"{what}: labels / bulk / shape {_s(got)}; a fresh construction gives {_s(want)}")
        raise _Abort


# ================================================================================================ cross-interpreter clause
_XPROC = []            # [(case spec, this interpreter's per-layer labels)]
_XQUOTA = {}           # kind -> recorded
XPROC_TIMEOUT_S = 600


def _seeded_kinds(spec):
    out = []
    for L in spec["layers"]:
        k = L["kind"]
        if (k in ("semi", "swap") or (k == "randomclass" and L["mode"] != "gatherbug") or (k == "superclass" and L["shuffle"])
                or (k == "pseudo" and L["form"] == "topk") or (k == "classgroups" and L["shuffle"] and L["seed"] != "none")):
            out.append(k)
    return out


def _plain(obs):
    return json.loads(json.dumps([{"per_sample": o["canon"], "bulk": o["bulk"], "classes": o["dim"]} for o in obs], default=core._json_default))


def plain_labels(spec):
    """per layer: per-sample results (exactly comparable form), bulk labels, announced class count - reads only, no
    verdicts (also run by the child interpreter, see h16_child)"""
    run = core.Run("C16", "quick", 0, LEVEL)
    tmp = _Tmp()
    try:
        return _plain(_stack(run, spec, 0, False, tmp))
    finally:
        tmp.close()


def _xproc_record(run, spec, A):
    """keep a bounded batch with every seeded family (and a few unseeded ones) for the child interpreter"""
    if spec["leaf"]["n"] < 3:
        return
    seeded = _seeded_kinds(spec)
    kinds = seeded or [L["kind"] for L in spec["layers"]]
    cap = (10 if run.quick() else 12) if seeded else 2
    if all(_XQUOTA.get(("s" if seeded else "u", k), 0) >= cap for k in kinds):
        return
    for k in kinds:
        _XQUOTA[("s" if seeded else "u", k)] = _XQUOTA.get(("s" if seeded else "u", k), 0) + 1
    case = {key: v for key, v in spec.items() if key != "reconfig"}
    _XPROC.append((json.loads(json.dumps(case)), _plain(A)))


def finalize(run):
    """'the mapping is a function of the constructor arguments and seed' - also in another interpreter instance (other
    string-hash salt, other process-global RNG states; ranks / restarted runs are other interpreters): the recorded
    configurations are recomputed in ONE child interpreter and compared"""
    try:
        _xproc_compare(run, _XPROC)
    finally:
        del _XPROC[:]
        _XQUOTA.clear()
        _drop_child()


_CHILD = []            # the child interpreter, started while the cases run (quick tier: its start-up overlaps the main loop)


def _spawn_child(run):
    import subprocess
    import sys
    hs = 1 + (run.seed * 7919 + 1616 + (run.shard[0] if run.shard else 0)) % 4000000000
    if str(hs) == os.environ.get("PYTHONHASHSEED"):
        hs += 1
    env = dict(os.environ, PYTHONHASHSEED=str(hs), PYTHONPATH=os.pathsep.join([str(core.REPO), str(core.VERIF)]), OMP_NUM_THREADS="1",
               MKL_NUM_THREADS="1", PYTHONDONTWRITEBYTECODE="1")
    return subprocess.Popen([sys.executable, "-m", "kdv.h16_child"], stdin=subprocess.PIPE, stdout=subprocess.PIPE, stderr=subprocess.STDOUT,
                            text=True, cwd=str(core.VERIF), env=env)


def setup(run):
    del _XPROC[:]
    _XQUOTA.clear()
    if run.quick() and not _CHILD:
        try:
            import atexit
            atexit.register(_drop_child)  # a replay of an ordinary case never asks the child anything
            _CHILD.append(_spawn_child(run))
        except Exception as e:
            run.notes["cross_interpreter_child"] = f"could not be started: {type(e).__name__}: {e}"[:300]


def _drop_child():
    while _CHILD:
        p = _CHILD.pop()
        try:
            p.kill()
            p.communicate(timeout=10)
        except Exception:
            pass


def _xproc_compare(run, batch):
    if not batch:
        _drop_child()
        return
    res = None
    p = None
    try:
        p = _CHILD.pop() if _CHILD else _spawn_child(run)
        out, _ = p.communicate(input=json.dumps({"specs": [c for c, _ in batch]}), timeout=XPROC_TIMEOUT_S)
        line = next((ln for ln in out.splitlines() if ln.startswith("KDV16RESULT ")), None)
        res = json.loads(line[len("KDV16RESULT "):]) if line else None
        if res is None:
            run.notes["cross_interpreter_child"] = f"no result line (rc={p.returncode}): {out[-300:]}"
    except Exception as e:  # timeout / crash of the child: nothing was compared (the deciding monitor stays 0)
        run.notes["cross_interpreter_child"] = f"{type(e).__name__}: {e}"[:300]
        try:
            if p is not None:
                p.kill()
                p.communicate(timeout=10)
        except Exception:
            pass
    if not res or "results" not in res:
        run.notes.setdefault("cross_interpreter_child", f"child interpreter gave no results (not compared): {res}")
        return
    for (case, mine), r in zip(batch, res["results"]):
        if "layers" not in r:
            run.count("cross_interpreter_child_errors")
            continue
        run.count("cross_interpreter_labels_compared")
        for k in _seeded_kinds(case):
            run.count(f"evidence_cross_interpreter_{k}")
        for L, a, b in zip(case["layers"], mine, r["layers"]):
            if a != b:
                diff = next((f for f in ("classes", "per_sample", "bulk") if a[f] != b[f]))
                run.violation(f"{L['kind']}:not-reproducible-across-interpreters",
                              f"{_describe(L)} over leaf labels {_s(case['leaf']['classes'])}: {diff} in this interpreter {_s(a[diff])}, in a fresh interpreter "
                              f"(PYTHONHASHSEED={res.get('hashseed')}) {_s(b[diff])} — equal arguments and seed", {"xproc": case})
                break


def run_case(run, spec):
    if "xproc" in spec:  # replay of a cross-interpreter witness: this interpreter's labels are recomputed, then compared with a child's
        return _xproc_compare(run, [(spec["xproc"], plain_labels(spec["xproc"]))])
    leaf_spec = spec["leaf"]
    kinds = [L["kind"] for L in spec["layers"]]
    top = spec["layers"][-1]
    variant = top.get("form") or top.get("mode") or ""
    run.cover("+".join(kinds), variant, min(leaf_spec["n"], 3), "binary" if leaf_spec["dim"] == 1 else "multi",
              "unl" if any(c < 0 for c in leaf_spec["classes"]) else "lab",
              leaf_spec["getall"] + ("-alias" if leaf_spec["alias"] else ""), leaf_spec.get("dtype", "int64"), leaf_spec["item"])
    tmp = _Tmp()
    try:
        A = _stack(run, spec, 0, True, tmp)
        B = _stack(run, spec, 1, False, tmp)
        for L, a, b in zip(spec["layers"], A, B):
            run.count("seed_differential_checked")
            if a["canon"] != b["canon"] or a["bulk"] != b["bulk"] or a["dim"] != b["dim"]:
                run.violation(f"{L['kind']}:global-rng-dependence",
                              f"{_describe(L)}: two constructions with equal arguments and seed under different global RNG states differ: "
                              f"per-sample {_s(a['canon'])} vs {_s(b['canon'])}; bulk {_s(a['bulk'])} vs {_s(b['bulk'])}; classes {a['dim']} vs {b['dim']}")
                break
        else:
            _xproc_record(run, spec, A)
        if len(spec["layers"]) > 1:
            run.count("stacked_cases")
        if leaf_spec["n"] >= 3:
            run.sample({"layers": spec["layers"], "leaf_labels": leaf_spec["classes"], "announced_classes": [a["dim"] for a in A],
                        "per_sample": [a["items"] for a in A], "bulk": [a["bulk"] for a in A]}, cap=8)
    except _Abort:
        pass
    finally:
        tmp.close()
