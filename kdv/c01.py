"""C01 — the mode string decides exactly which items a sample has, and in which order.

Event-log datasets: every loader returns a decodable token and logs (item, leaf index, id(ctx)); loaders record
ctx["<item>_idx"]. The reference for ModeWrapper(stack, mode, return_ctx)[i] is built from *direct* calls of the stack's
per-item loaders with a fresh ctx (independent of ModeWrapper's bookkeeping).
"""
from __future__ import annotations

import itertools

import numpy as np
import torch

import kappadata as _kd
import kappadata.wrappers as kdw
from kappadata.datasets.kd_dataset import KDDataset
from kappadata.datasets.kd_wrapper import KDWrapper
from kappadata.wrappers.mode_wrapper import ModeWrapper
from kappadata.wrappers.torch_wrapper import TorchWrapper

from . import core
from .harness import call_real, same

LEVEL = "exploration"
RULE = ("random stacks (depth<=4) of pass-through / item-transforming / ctx-recording KDWrappers, KDSubset layers, KDConcatDataset and "
        "fused-operation wrappers (harness fused wrapper with joint-load nonces; real KDMixWrapper(seed), XTransformWrapper over it) over "
        "logging roots of size 0..12; modes of length 1..6 over the available items with/without 'index' and 'ctx.<key>' (placed after the "
        "recording item); every index form (int, negative, slice, list), iteration, len, random access histories with repeats; TorchWrapper "
        "over tuple-returning torch datasets; static mode helpers on random batches; non-trivial = dataset non-empty; distinct by spec")
ASSUMPTIONS = [
    "an index beyond the last sample (len, len+3) must raise something instead of delivering a sample; indices below -len and duplicated members of a fused group in one mode are not driven",
    "for stacks declaring jointly loaded items only items implemented on the outermost wrapper are requested (constructor rejects the rest)",
    "TorchWrapper is driven over torch datasets whose samples are tuples (also 1-tuples, e.g. TensorDataset(x)); datasets returning bare samples are not driven",
    "extra separate loads next to a joint load are tolerated (counted in the evidence); exactly one joint load per fully present group is required",
]
MONITORS = ["samples_compared", "ctx_checks", "index_forms_checked", "fused_groups_checked", "helper_checks", "loader_log_entries"]

ITEMS = ["x", "class", "y"]


# ------------------------------------------------------------------------------------------------ harness datasets
class Root(KDDataset):
    def __init__(self, n, tag, items, log):
        super().__init__()
        self.n, self.tag, self.items, self.log = n, tag, items, log
        for it in ITEMS:
            if it not in items:
                continue

    def _load(self, item, idx, ctx):
        i = int(idx)
        if i < 0:
            i += self.n
        if not 0 <= i < self.n:
            raise IndexError(f"root {self.tag}: index {idx} out of range")
        self.log.append((item, self.tag, i, id(ctx) if ctx is not None else None))
        seen = None
        if item == "y":
            # y depends on what earlier items of this sample recorded (visible only if the per-sample ctx is propagated)
            seen = "no-ctx" if ctx is None else tuple(sorted(k for k in ctx if k != "y_idx"))
        if ctx is not None:
            ctx[f"{item}_idx"] = (self.tag, i)
        return (item, self.tag, i) if seen is None else (item, self.tag, i, seen)

    def __len__(self):
        return self.n

    def getshape_class(self):
        return (4,)


def _mk_root(n, tag, items, log):
    ns = {}
    for it in items:
        ns[f"getitem_{it}"] = (lambda it: lambda self, idx, ctx=None: self._load(it, idx, ctx))(it)
    return type("Root_" + "".join(items), (Root,), ns)(n, tag, items, log)


class ItemTag(KDWrapper):
    """transforms one item visibly; everything else is delegated"""

    def __init__(self, dataset, item, tag):
        super().__init__(dataset=dataset)
        self._item, self._tag = item, tag

    def __getattr__(self, name):
        if name == "getitem_" + self.__dict__.get("_item", "\0"):
            inner = getattr(self.dataset, name)
            return lambda idx, ctx=None: (self._tag, inner(idx, ctx))
        return super().__getattr__(name)


class CtxRec(KDWrapper):
    """records into ctx whenever its x is loaded; asks for ctx propagation"""

    def __init__(self, dataset, key):
        super().__init__(dataset=dataset)
        self._key = key

    @property
    def requires_propagate_ctx(self):
        return True

    def getitem_x(self, idx, ctx=None):
        v = self.dataset.getitem_x(idx, ctx)
        if ctx is not None:
            ctx[self._key] = ("seen", int(idx))
        return v


class FusedXC(KDWrapper):
    """declares x and class as jointly loaded; every load carries a nonce so that joint loads are recognisable"""

    def __init__(self, dataset, wlog):
        super().__init__(dataset=dataset)
        self.wlog = wlog
        self.nonce = 0

    @property
    def fused_operations(self):
        return super().fused_operations + [["x", "class"]]

    def _next(self):
        self.nonce += 1
        return self.nonce

    def getitem_x(self, idx, ctx=None):
        self.wlog.append(("x", int(idx)))
        return ("F", self.dataset.getitem_x(idx, ctx), self._next())

    def getitem_class(self, idx, ctx=None):
        self.wlog.append(("class", int(idx)))
        return ("F", self.dataset.getitem_class(idx, ctx), self._next())

    def getitem_y(self, idx, ctx=None):
        return self.dataset.getitem_y(idx, ctx)

    def getitem_xclass(self, idx, ctx=None):
        self.wlog.append(("xclass", int(idx)))
        k = self._next()
        return ("F", self.dataset.getitem_x(idx, ctx), k), ("F", self.dataset.getitem_class(idx, ctx), k)


class OuterOfFused(KDWrapper):
    """an outer wrapper that implements the fused operation of an inner wrapper (as XTransformWrapper does)"""

    def getitem_x(self, idx, ctx=None):
        return ("O", self.dataset.getitem_x(idx, ctx))

    def getitem_class(self, idx, ctx=None):
        return self.dataset.getitem_class(idx, ctx)

    def getitem_y(self, idx, ctx=None):
        return self.dataset.getitem_y(idx, ctx)

    def getitem_xclass(self, idx, ctx=None):
        x, c = self.dataset.getitem_xclass(idx, ctx)
        return ("O", x), c


_IGNORE_SEEN = [False]  # fused stacks: the order in which the loaders run (joint load first) is not the mode order -> what y "saw" is not judged


def _strip_nonce(v):
    """token without the joint-load nonce (for value comparison), and the nonce"""
    if _IGNORE_SEEN[0] and isinstance(v, tuple) and len(v) == 4 and v[0] == "y":
        return v[:3], None
    if isinstance(v, tuple) and len(v) == 2 and v[0] == "O":
        inner, k = _strip_nonce(v[1])
        return ("O", inner), k
    if isinstance(v, tuple) and len(v) == 3 and v[0] == "F":
        return ("F", v[1]), v[2]
    return v, None


# ------------------------------------------------------------------------------------------------ generation
def gen_cases(run):
    rng = run.rng
    n = run.n(16000, 960000)
    for i in range(n):
        r = rng.random()
        if r < 0.72:
            kind = "stack"
        elif r < 0.8:
            kind = "helpers"
        elif r < 0.9:
            kind = "torch"
        else:
            kind = "realfused"
        spec = {"kind": kind, "seed": rng.randrange(10 ** 6)}
        if kind == "stack":
            items = rng.choice([["x"], ["x", "class"], ["x", "class", "y"], ["x", "class", "y"]])
            fused = "class" in items and rng.random() < 0.35
            depth = rng.randint(0, 4)
            layers = []
            for _ in range(depth):
                layers.append(rng.choice(["pass", "tagx", "tagc", "ctxrec", "subset", "concat"]))
            spec.update(items=items, n=rng.choice([0, 1, 2, 3, 5, 8, 12]), layers=layers, fused=fused,
                        fused_outer=fused and rng.random() < 0.5, return_ctx=rng.random() < 0.5, mode_len=rng.randint(1, 6))
            if spec["n"] == 0:
                spec["_trivial"] = True
        elif kind == "torch":
            spec.update(n=rng.randint(1, 8), width=rng.choice([1, 1, 2, 3, 4]))  # width 1: samples are 1-tuples (e.g. TensorDataset(x))
        elif kind == "realfused":
            spec.update(n=rng.randint(2, 9), outer=rng.random() < 0.5, return_ctx=rng.random() < 0.5)
        yield spec


def _build_stack(spec, log, wlog, rng):
    n = spec["n"]
    items = spec["items"]
    ds = _mk_root(n, "A", items, log)
    ctx_keys = [f"{it}_idx" for it in items]
    for L in spec["layers"]:
        if L == "pass":
            ds = KDWrapper(ds)
        elif L == "tagx":
            ds = ItemTag(ds, "x", f"t{len(log)}x")
        elif L == "tagc":
            if "class" in items:
                ds = ItemTag(ds, "class", "tc")
        elif L == "ctxrec":
            ds = CtxRec(ds, "rec")
            if "rec" not in ctx_keys:
                ctx_keys.append("rec")
        elif L == "subset":
            m = len(ds)
            idx = [int(rng.integers(-m, m)) for _ in range(int(rng.integers(0, m + 3)))] if m > 0 else []
            ds = _kd.KDSubset(ds, idx)
        elif L == "concat":
            other = _mk_root(int(rng.integers(0, 4)), "B", items, log)
            ds = _kd.KDConcatDataset([ds, other] if rng.random() < 0.5 else [other, ds])
            ctx_keys = [k for k in ctx_keys if k != "rec"]  # samples of the other part do not record it
    if spec["fused"]:
        ds = FusedXC(ds, wlog)
        if spec["fused_outer"]:
            ds = OuterOfFused(ds)
    return ds, ctx_keys


def _gen_mode(spec, ctx_keys, rng, rec_requires_x):
    items = list(spec["items"])
    L = spec["mode_len"]
    mode = []
    recorded = set()
    tries = 0
    while len(mode) < L and tries < 50:
        tries += 1
        r = rng.random()
        if r < 0.2:
            mode.append("index")
        elif r < 0.4 and recorded:
            mode.append("ctx." + sorted(recorded)[int(rng.integers(len(recorded)))])
        else:
            it = items[int(rng.integers(len(items)))]
            if spec["fused"] and it in ("x", "class") and it in mode:
                continue  # duplicated member of a fused group: not driven
            mode.append(it)
            recorded.add(f"{it}_idx")
            if it == "x" and "rec" in ctx_keys:
                recorded.add("rec")
    if not mode:
        mode = [items[0]]
    return mode


# ------------------------------------------------------------------------------------------------ oracle
def _reference(stack, mode, i, propagate=True):
    """direct loader calls in mode order with one fresh ctx (None if the per-sample ctx is not propagated) -> (expected values, ctx)"""
    ctx = {} if propagate else None
    out = []
    for m in mode:
        if m == "index":
            out.append(i)
        elif m.startswith("ctx."):
            out.append(ctx[m[4:]])
        else:
            out.append(getattr(stack, "getitem_" + m)(i, ctx))
    return out, ctx


def run_case(run, spec):
    if spec["kind"] == "helpers":
        return _run_helpers(run, spec)
    if spec["kind"] == "torch":
        return _run_torch(run, spec)
    if spec["kind"] == "realfused":
        return _run_realfused(run, spec)
    rng = np.random.default_rng(spec["seed"])
    log, wlog = [], []
    ds, ctx_keys = _build_stack(spec, log, wlog, rng)
    mode = _gen_mode(spec, ctx_keys, rng, True)
    mode_str = " ".join(mode)
    return_ctx = spec["return_ctx"]
    ok, mw = call_real(run, lambda: ModeWrapper(ds, mode=mode_str, return_ctx=return_ctx), crash_key="ctor-crash", what=f"ModeWrapper(mode={mode_str!r})")
    if not ok:
        return
    n = len(ds)
    group_present = spec["fused"] and "x" in mode and "class" in mode
    run.cover(len(mode), "index" in mode, any(m.startswith("ctx.") for m in mode), return_ctx, spec["fused"], group_present,
              tuple(sorted(set(spec["layers"]))), min(n, 2))
    ok, L = call_real(run, lambda: len(mw), what="len(ModeWrapper)")
    if not ok:
        return
    if L != n:
        run.violation("len", f"len(ModeWrapper)={L}, len(stack)={n}")
        return
    desc = f"stack layers={spec['layers']} fused={spec['fused']}/{spec['fused_outer']} items={spec['items']} n={n} mode={mode_str!r} return_ctx={return_ctx}"
    _IGNORE_SEEN[0] = bool(spec["fused"])
    # the per-sample ctx is propagated to the loaders iff it is returned, requested through a ctx.<key> item, or required by a layer of the stack
    expect_propagate = return_ctx or any(m.startswith("ctx.") for m in mode) or "ctxrec" in spec["layers"]
    alive_ctx = []  # keep returned ctx objects alive so that ids cannot be recycled

    def check_one(got, i_norm, call_desc, log_slice, wlog_slice):
        """compare one returned sample with the reference for normalised index i_norm"""
        run.count("samples_compared")
        if return_ctx:
            if not (isinstance(got, tuple) and len(got) == 2 and isinstance(got[1], dict)):
                run.violation("return-ctx-layout", f"{desc}: {call_desc} returned {_s(got)}, expected (items, ctx)")
                return False
            items_part, ctx = got
        else:
            items_part, ctx = got, None
        # layout: bare for one item, tuple of n otherwise
        if len(mode) == 1:
            vals = [items_part]
            if isinstance(items_part, tuple) and items_part and isinstance(items_part[0], tuple) and mode[0] != "index" and len(items_part) == 1:
                run.violation("single-item-not-bare", f"{desc}: {call_desc} returned a 1-tuple for a single-item mode")
                return False
        else:
            if not isinstance(items_part, tuple) or len(items_part) != len(mode):
                run.violation("tuple-layout", f"{desc}: {call_desc} returned {_s(items_part)} (type {type(items_part).__name__}), expected a tuple of {len(mode)}")
                return False
            vals = list(items_part)
        ref_vals, ref_ctx = _reference(ds, mode, i_norm, expect_propagate)
        # compare position by position (tokens from the harness fused wrapper carry a fresh nonce per load)
        nonces = {}
        for k, (g, w, m) in enumerate(zip(vals, ref_vals, mode)):
            g0, gn = _strip_nonce(g)
            w0, _ = _strip_nonce(w)
            if g0 != w0:
                key = "index-item" if m == "index" else "ctx-item" if m.startswith("ctx.") else ("fused-position" if spec["fused"] and m in ("x", "class") else "item-value")
                run.violation(key, f"{desc}: {call_desc} position {k} ({m}) is {_s(g)}, the stack's loader gives {_s(w)}")
                return False
            if gn is not None:
                nonces[m] = gn
        if group_present:
            run.count("fused_groups_checked")
            if nonces.get("x") != nonces.get("class"):
                run.violation("fused-not-joint", f"{desc}: {call_desc} x and class stem from different loads (nonces {nonces}); they are declared jointly loaded")
                return False
            joint = [e for e in wlog_slice if e[0] == "xclass"]
            if len(joint) != 1:
                run.violation("fused-joint-load-count", f"{desc}: {call_desc} performed {len(joint)} joint loads (wrapper log {wlog_slice})")
                return False
            run.count("extra_separate_loads_next_to_joint", len([e for e in wlog_slice if e[0] != "xclass"]))
        # ctx: fresh, only this sample's entries, equal to what the loaders record
        if return_ctx:
            run.count("ctx_checks")
            if any(ctx is c for c in alive_ctx):
                run.violation("ctx-not-fresh", f"{desc}: {call_desc} returned a ctx object that an earlier call had returned")
                return False
            if "poison" in ctx:
                run.violation("ctx-stale-entries", f"{desc}: {call_desc}: ctx carries an entry written into an earlier sample's ctx")
                return False
            if ctx != ref_ctx:
                run.violation("ctx-content", f"{desc}: {call_desc}: ctx is {_s(ctx)}, the loaders of sample {i_norm} record {_s(ref_ctx)}")
                return False
            ctx["poison"] = len(alive_ctx)
            alive_ctx.append(ctx)
        # loader log: one ctx object shared by all loaders of this __getitem__
        ids = {e[3] for e in log_slice}
        run.count("loader_log_entries", len(log_slice))
        propagate = expect_propagate
        if propagate and log_slice:
            if None in ids or len(ids) != 1:
                run.violation("ctx-not-shared", f"{desc}: {call_desc}: loaders of one sample received ctx objects {ids}")
                return False
            if return_ctx and ids != {id(ctx)}:
                run.violation("ctx-not-shared", f"{desc}: {call_desc}: the returned ctx is not the object the loaders wrote to")
                return False
        return True

    def get(idx_expr):
        a, b = len(log), len(wlog)
        ok, got = call_real(run, lambda: mw[idx_expr], what=f"{desc}: ds[{idx_expr!r}]")
        return ok, got, log[a:], wlog[b:]

    if n == 0:
        ok, got, _, _ = get(slice(None))
        if ok and got != []:
            run.violation("slice", f"{desc}: [:] on an empty dataset returned {_s(got)}")
        ok, it = call_real(run, lambda: list(itertools.islice(iter(mw), 2)), what="iter")
        if ok and it != []:
            run.violation("iter", f"{desc}: iteration over an empty dataset yields {_s(it)}")
        run.count("index_forms_checked", 2)
        return

    # ---- history: random access order with repeats, positive and negative ints
    hist = [int(rng.integers(-n, n)) for _ in range(min(3 * n + 2, 14))]
    hist += [0, n - 1, -1, -n, hist[0]]
    for hpos, i in enumerate(hist):
        # every third access of every second case uses a numpy integer (what np.random.permutation / index arrays hand out)
        i_arg = np.int64(i) if (spec["seed"] % 2 == 0 and hpos % 3 == 1) else i
        if i_arg is not i:
            run.count("numpy_integer_indices")
        ok, got, ls, ws = get(i_arg)
        if not ok:
            return
        run.count("index_forms_checked")
        if not check_one(got, i % n if i >= 0 else i + n, f"ds[{i!r}{' as np.int64' if i_arg is not i else ''}]", ls, ws):
            return
    # ---- an index beyond the last sample must not silently deliver some other sample (sequence semantics: it raises)
    if not any(L == "concat" for L in spec["layers"]) and any(m != "index" and not m.startswith("ctx.") for m in mode):
        for bad in (n, n + 3):
            run.count("index_forms_checked")
            try:
                got = mw[bad]
            except Exception:
                continue
            run.violation("out-of-range-returns-a-sample", f"{desc}: ds[{bad}] on {n} samples returned {_s(got)} instead of raising")
            return
    # ---- slices and index lists: sequence semantics against a list of per-index results
    sl_cases = [slice(None), slice(1, None), slice(None, -1), slice(None, None, -1), slice(int(rng.integers(-n - 1, n + 2)), int(rng.integers(-n - 1, n + 2)), int(rng.choice([-2, -1, 1, 2, 3]))),
                slice(n - 1, None, -2), slice(-1, None)]
    for sl in sl_cases:
        want_idx = list(range(n))[sl]
        ok, got, ls, ws = get(sl)
        if not ok:
            return
        run.count("index_forms_checked")
        if not isinstance(got, list) or len(got) != len(want_idx):
            run.violation("slice", f"{desc}: ds[{sl}] returned {len(got) if hasattr(got, '__len__') else got} entries, list semantics give indices {want_idx}")
            return
        if not _check_seq(run, desc, f"ds[{sl}]", got, want_idx, ds, mode, return_ctx, spec, expect_propagate):
            return
    li = [int(rng.integers(-n, n)) for _ in range(int(rng.integers(0, 6)))]
    if spec["seed"] % 3 == 0:
        li = [np.int64(i) for i in li]  # an index list built from a numpy array
    ok, got, ls, ws = get(li)
    if not ok:
        return
    run.count("index_forms_checked")
    if not isinstance(got, list) or len(got) != len(li) or not _check_seq(run, desc, f"ds[{li}]", got, [i % n for i in li], ds, mode, return_ctx, spec, expect_propagate):
        if isinstance(got, list) and len(got) != len(li):
            run.violation("index-list", f"{desc}: ds[{li}] returned {len(got)} entries")
        return
    # ---- iteration (cut at len+1 so that an endless iterator is seen)
    ok, got = call_real(run, lambda: list(itertools.islice(iter(mw), n + 1)), what=f"{desc}: iter")
    if not ok:
        return
    run.count("index_forms_checked")
    if len(got) != n:
        run.violation("iter", f"{desc}: iteration yields {len(got)}{'+' if len(got) > n else ''} samples for a dataset of {n}")
        return
    if not _check_seq(run, desc, "iter", got, list(range(n)), ds, mode, return_ctx, spec, expect_propagate):
        return
    # ---- two passes over the same object that overlap in time are independent (zip(ds, ds), nested loops)
    def two_passes():
        a, b = iter(mw), iter(mw)
        out_a, out_b = [], []
        for _ in range(n + 1):
            for it, out in ((a, out_a), (b, out_b)):
                try:
                    out.append(next(it))
                except StopIteration:
                    pass
        return out_a, out_b
    ok, (pa, pb) = call_real(run, two_passes, what=f"{desc}: two interleaved iterations")
    if not ok:
        return
    run.count("index_forms_checked")
    if len(pa) != n or len(pb) != n:
        run.violation("iter:passes-share-state", f"{desc}: two interleaved iterations over the same object yield {len(pa)} and {len(pb)} samples instead of {n} each")
        return
    if not _check_seq(run, desc, "interleaved iter (1st)", pa, list(range(n)), ds, mode, return_ctx, spec, expect_propagate) or \
            not _check_seq(run, desc, "interleaved iter (2nd)", pb, list(range(n)), ds, mode, return_ctx, spec, expect_propagate):
        return
    run.sample({"stack": spec["layers"], "fused": spec["fused"], "mode": mode_str, "return_ctx": return_ctx, "n": n, "sample0": _s(mw[0])})


def _check_seq(run, desc, what, got, want_idx, ds, mode, return_ctx, spec, propagate=True):
    for g, i in zip(got, want_idx):
        run.count("samples_compared")
        items_part = g[0] if return_ctx else g
        vals = [items_part] if len(mode) == 1 else list(items_part) if isinstance(items_part, tuple) else None
        if vals is None or len(vals) != len(mode):
            run.violation("tuple-layout", f"{desc}: {what}: entry for index {i} is {_s(g)}")
            return False
        ref_vals, ref_ctx = _reference(ds, mode, i, propagate)
        for k, (a, b) in enumerate(zip(vals, ref_vals)):
            if _strip_nonce(a)[0] != _strip_nonce(b)[0]:
                run.violation("sequence-semantics", f"{desc}: {what}: entry for index {i}, position {k} is {_s(a)}, expected {_s(b)}")
                return False
        if return_ctx:
            c = dict(g[1])
            c.pop("poison", None)
            if c != ref_ctx:
                run.violation("ctx-content", f"{desc}: {what}: ctx for index {i} is {_s(g[1])}, loaders record {_s(ref_ctx)}")
                return False
    return True


# ------------------------------------------------------------------------------------------------ static helpers
def _run_helpers(run, spec):
    rng = np.random.default_rng(spec["seed"])
    pool = ["x", "class", "index", "y", "semseg", "ctx.k"]
    k = int(rng.integers(1, 6))
    mode_items = list(rng.permutation(pool)[:k])
    mode = " ".join(mode_items)
    single = k == 1
    B = int(rng.integers(1, 5))
    fields = [torch.arange(B * 3, dtype=torch.float32).reshape(B, 3) + 100 * j for j in range(k)]
    batch = fields[0] if single and rng.random() < 0.7 else (tuple(fields) if rng.random() < 0.5 else list(fields))
    bare = not isinstance(batch, (list, tuple))
    run.cover("helpers", k, bare)
    H = ModeWrapper
    for j, it in enumerate(mode_items):
        run.count("helper_checks")
        ok, r = call_real(run, lambda: (H.has_item(mode=mode, item=it), H.get_item_index(mode=mode, item=it)), what="has_item/get_item_index")
        if not ok:
            return
        if r != (True, j):
            run.violation("helper:index", f"mode {mode!r}: has_item/get_item_index({it!r}) = {r}, expected (True, {j})")
            return
        ok, got = call_real(run, lambda: H.get_item(mode=mode, item=it, batch=batch), what="get_item")
        if not ok:
            return
        if got is not fields[j]:
            run.violation("helper:get_item", f"mode {mode!r}: get_item({it!r}) did not return field {j} of the batch")
            return
        new = torch.full((B, 2), -7.0)
        ok, nb = call_real(run, lambda: H.set_item(mode=mode, item=it, batch=batch, value=new), crash_key="helper-crash", what=f"set_item on a {'bare' if bare else type(batch).__name__} batch")
        if not ok:
            return
        ok, back = call_real(run, lambda: H.get_item(mode=mode, item=it, batch=nb), crash_key="helper-crash", what="get_item after set_item")
        if not ok:
            return
        if back is not new:
            run.violation("helper:set_item-single-item-batch" if bare else "helper:set_item", f"mode {mode!r} ({'bare' if bare else type(batch).__name__} batch): get_item after set_item({it!r}) returned {_s(back)} instead of the value set")
            return
        if bare:
            if isinstance(nb, (list, tuple)):
                run.violation("helper:set_item-single-item-batch", f"mode {mode!r}: set_item on a bare single-item batch changed the container layout to {type(nb).__name__} of {len(nb)}")
                return
        else:
            if len(nb) != k or any(nb[q] is not fields[q] for q in range(k) if q != j):
                run.violation("helper:set_item", f"mode {mode!r}: set_item({it!r}) changed other positions / the layout")
                return
    absent = [p for p in pool + ["zzz"] if p not in mode_items]
    for it in absent[:2]:
        run.count("helper_checks")
        ok, r = call_real(run, lambda: H.has_item(mode=mode, item=it), what="has_item")
        if ok and r is not False:
            run.violation("helper:has_item", f"mode {mode!r}: has_item({it!r}) = {r}")
            return
        ok, m2 = call_real(run, lambda: H.add_item(mode=mode, item=it), what="add_item")
        if ok and (m2.split(" ") != mode_items + [it]):
            run.violation("helper:add_item", f"add_item({mode!r}, {it!r}) = {m2!r}")
            return
    ok, m3 = call_real(run, lambda: H.add_item(mode=mode, item=mode_items[0]), what="add_item")
    if ok and m3 != mode:
        run.violation("helper:add_item", f"add_item of a present item changed the mode: {m3!r}")


# ------------------------------------------------------------------------------------------------ TorchWrapper
class _TupleDS(torch.utils.data.Dataset):
    def __init__(self, n, width):
        self.n, self.width = n, width
        self.marker = "tuple-ds"
        self.calls = 0

    def __getitem__(self, idx):
        if not 0 <= int(idx) < self.n:
            raise IndexError(idx)
        self.calls += 1  # the dataset is not a pure function of the index (augmentation, epoch state, ...): every access loads afresh
        return tuple(("f", j, int(idx), self.calls) for j in range(self.width))

    def __len__(self):
        return self.n


def _run_torch(run, spec):
    rng = np.random.default_rng(spec["seed"])
    n, width = spec["n"], spec["width"]
    names = (["x", "class", "y", "z"] if spec["seed"] % 2 else ["x", "x_aug", "class", "class_before_grouping"])[:width]  # item names may contain '_'
    # every TorchWrapper of the process has its own layout: the same item name sits at different tuple positions in different wrappers
    names = [names[j] for j in rng.permutation(width)]
    tmode = " ".join(names)
    base = _TupleDS(n, width)
    ok, tw = call_real(run, lambda: TorchWrapper(dataset=base, mode=tmode), crash_key="ctor-crash", what="TorchWrapper")
    if not ok:
        return
    req = [names[int(rng.integers(width))] for _ in range(int(rng.integers(1, 5)))]
    if rng.random() < 0.4:
        req.insert(int(rng.integers(len(req) + 1)), "index")
    ok, mw = call_real(run, lambda: ModeWrapper(tw, mode=" ".join(req)), crash_key="ctor-crash", what="ModeWrapper(TorchWrapper)")
    if not ok:
        return
    run.cover("torch", width, len(req))
    order = list(range(n)) + [-1]
    order += [int(rng.integers(n)) for _ in range(4)]
    order += [order[-1], order[-1]]  # the same index several times in a row
    for i in order:
        calls_before = base.calls
        ok, got = call_real(run, lambda: mw[i], what=f"ModeWrapper(TorchWrapper)[{i}]")
        if not ok:
            return
        run.count("samples_compared")
        ii = i % n
        vals = [got] if len(req) == 1 else list(got) if isinstance(got, tuple) else None
        if vals is None or len(vals) != len(req):
            run.violation("torchwrapper:item", f"TorchWrapper(mode={tmode!r}) under mode {' '.join(req)!r}: [{i}] = {_s(got)}")
            return
        for r, v in zip(req, vals):
            if r == "index":
                good = v == ii
            else:
                good = isinstance(v, tuple) and len(v) == 4 and v[:3] == ("f", names.index(r), ii)
                if good and not v[3] > calls_before:
                    run.violation("torchwrapper:stale-sample", f"TorchWrapper: [{i}] delivered {_s(v)}, a sample loaded before this access (load counter was {calls_before}); the wrapped dataset was not asked again")
                    return
            if not good:
                run.violation("torchwrapper:item", f"TorchWrapper(mode={tmode!r}) under mode {' '.join(req)!r}: [{i}] position {r} = {_s(v)}")
                return
    ok, r = call_real(run, lambda: (len(mw), tw.marker), what="len / attribute delegation of TorchWrapper")
    if ok and r != (n, "tuple-ds"):
        run.violation("torchwrapper:delegation", f"len/attribute delegation gives {r}")
        return
    # the wrapped torch dataset grows (a list-backed buffer that is appended to): len, the last sample and iteration follow it
    if spec["seed"] % 3 == 0:
        base.n = n + 2
        ok, r = call_real(run, lambda: (len(mw), mw[-1], len(list(itertools.islice(iter(mw), n + 5)))), what="TorchWrapper after the wrapped dataset grew")
        if not ok:
            return
        run.count("index_forms_checked", 3)
        last = r[1] if len(req) > 1 else (r[1],)
        okv = all((v == n + 1) if q == "index" else (isinstance(v, tuple) and v[:3] == ("f", names.index(q), n + 1)) for q, v in zip(req, last))
        if r[0] != n + 2 or r[2] != n + 2 or not okv:
            run.violation("torchwrapper:stale-length", f"TorchWrapper(mode={tmode!r}) under mode {' '.join(req)!r}: after the wrapped dataset grew from {n} to {n + 2} samples "
                                                       f"len is {r[0]}, iteration yields {r[2]} samples and [-1] is {_s(r[1])}")


# ------------------------------------------------------------------------------------------------ real fused wrappers
class _ImgRoot(KDDataset):
    def __init__(self, n):
        super().__init__()
        self.n = n

    def getitem_x(self, idx, ctx=None):
        return torch.full((2, 3), float(idx) + 1.0)

    def getitem_class(self, idx, ctx=None):
        return int(idx) % 4

    def getshape_class(self):
        return (4,)

    def __len__(self):
        return self.n


class _AddOne:
    def __call__(self, x):
        return x + 1000.0


def _run_realfused(run, spec):
    rng = np.random.default_rng(spec["seed"])
    n = spec["n"]
    mk = lambda: kdw.KDMixWrapper(_ImgRoot(n), mixup_p=1.0, mixup_alpha=1.0, seed=spec["seed"] % 1000)
    ok, ds = call_real(run, mk, crash_key="ctor-crash", what="KDMixWrapper")
    if not ok:
        return
    if spec["outer"]:
        ok, ds = call_real(run, lambda: kdw.XTransformWrapper(ds, transform=_AddOne()), crash_key="ctor-crash", what="XTransformWrapper(KDMixWrapper)")
        if not ok:
            return
    perms = [["x", "class"], ["class", "x"], ["index", "class", "x"], ["x", "index", "class"], ["class", "index", "x", "index"], ["x"], ["class"]]
    mode = perms[int(rng.integers(len(perms)))]
    ok, mw = call_real(run, lambda: ModeWrapper(ds, mode=" ".join(mode), return_ctx=spec["return_ctx"]), crash_key="ctor-crash", what=f"ModeWrapper(real fused, {mode})")
    if not ok:
        return
    run.cover("realfused", spec["outer"], tuple(mode))
    for i in range(n):
        ok, got = call_real(run, lambda: mw[i], what=f"real fused stack [{i}]")
        if not ok:
            return
        ok, joint = call_real(run, lambda: ds.getitem_xclass(i, {}), what="direct joint load")
        if not ok:
            return
        run.count("samples_compared")
        run.count("fused_groups_checked")
        items_part = got[0] if spec["return_ctx"] else got
        vals = [items_part] if len(mode) == 1 else list(items_part)
        want = {"x": joint[0], "class": joint[1], "index": i}
        for k, m in enumerate(mode):
            if not same(vals[k], want[m]):
                run.violation("fused-position:real", f"KDMixWrapper(seed){' under XTransformWrapper' if spec['outer'] else ''} mode {' '.join(mode)!r}: [{i}] position {k} ({m}) is {_s(vals[k])}, one joint load gives {_s(want[m])}")
                return


def _s(v):
    r = repr(v)
    return r if len(r) < 240 else r[:240] + "…"
