"""C07 — an injected seed fully determines an augmentation, and nothing else does.

Differential oracle on observable outputs (DESIGN §2/C07):

  instance A   built under global seed g1, no history
  instance B   built under global seed g2 (after extra global draws), with a call history before the injection
               (calls on other inputs, an earlier injection of another seed, a worker_init_fn re-seed)
  inject       t.set_rng(np.random.default_rng(s)) into both (two separate generator objects with equal seeds)
  run          the same input sequence through A and B; the three process-global RNGs are re-seeded *differently*
               before every call and snapshotted around every call
  judge        outputs(A) == outputs(B), ctx(A) == ctx(B)                     -> not-seed-determined (instances disagree)
               re-injecting s into A replays outputs and ctx                   -> not-seed-determined (replay differs)
               global NumPy / Torch / Python state bit-identical around calls  -> global-rng-consumed
               ... and around every set_rng(explicit generator) itself         -> injection-consumes-global-rng
               copy.deepcopy / pickle round trip of the injected instance continues
               like the original (outputs, ctx), taking it leaves the global RNGs alone  -> copied-instance-diverges / copy-consumes-global-rng
  histories before the injection include scale_strength paths (0, intermediate values) that differ between the twins and end at the
  same strength; a loader scenario reads a main-process-injected transform through DataLoader workers (no worker_init_fn) under two
  global seeds and compares every sample with a main-process twin at the same position of that worker's stream -> loader-worker-not-seed-determined
  compositions include ones whose public member list `transforms` was edited after construction (append / insert / replace / filled
  by a subclass after super().__init__), at top level and nested
               an in-domain construction / injection / call raising           -> *-crash / *-refused

A violating composition is minimised over its sub-trees (each sub-tree is a self-contained spec): the reported witness is
the smallest sub-tree that still violates, and the mechanism key names the class at its root.
"""
from __future__ import annotations

import copy
import pickle
import random as pyrandom

import numpy as np
import torch

from . import core
from . import h07_recipes as H
from .harness import GlobalRngSentinel, StepBudget, call_real, canon_value, codes_of

LEVEL = "exploration"
RULE = ("(1) every stochastic recipe of kdv/h07_recipes.py (one per shipped stochastic transform class incl. audio / semseg / "
        "ready-made pipelines) x its input kinds (PIL, tensor 1/3 channels, patches, (image, mask) pairs) x random in-domain "
        "parameters and sizes; (2) random well-typed compositions to depth 3 of compose (explicit, bare-list, dict-kind members, "
        "list-valued two-crop chains) / random-apply / patchwise / scheduled (inactive, or active with a constant schedule "
        "position) / semseg sequences over them. A case additionally fixes the injected seed (boundary seeds 0, 1, 2^32-1, "
        "2^63-1 and random), two global seeds, per-call global perturbation seeds and the pre-injection history of instance B. "
        "distinct by full spec; trivial = tree without a drawing leaf")
ASSUMPTIONS = [
    "inputs are handed over as fresh copies per call (several transforms write in place); in-place writers are not fed with expanded views",
    "the position of a KDScheduledTransform in its schedule is training progress, not randomness: active schedules are driven with a "
    "batch size so large that every call of a case falls into batch 0 (constant strength); different call counts before the injection "
    "would otherwise legitimately change the strength",
    "KDRandomRotation and KDColorJitter (and the BYOL pipelines containing it) are not placed below an *active* schedule: their "
    "scale_strength refuses / mis-scales (subject of C15), unrelated to seeding",
    "members of a compose that are not KDTransforms (torchvision callables) are only deterministic ones: the library documents no way to seed them",
    "children of KDRandomApply keep type and size (skip and apply must be interchangeable for the members that follow)",
    "semseg crops keep at least 6 px per side and a PatchwiseTransform sees at most 24 patches (degenerate strips handed to an "
    "aspect-preserving resize, and cost, are outside the seeding property)",
    "pipelines whose constructor crashes (BYOLTransform(norm='imagenet'), MAEFinetuneTransform()) are probed and reported in the notes, "
    "not judged; they are judged automatically once they can be constructed",
    "consumption of global RNG state is judged around every set_rng(explicit generator) (first injection, injection after a history, "
    "re-injection) and around every call after it; constructors and worker_init_fn draw from the global NumPy RNG by design and are "
    "outside the sentinel windows",
    "seed sensitivity (another seed gives another output) is evidence that the workload draws at all, never a verdict",
    "whether an instance can be deep-copied / pickled at all is not judged (counted as handles_not_copyable); only copies that exist must continue like the original",
    "member lists are edited through the public `transforms` attribute before the generator is injected",
    "ctx=None vs ctx=dict: only outputs are compared for calls without a ctx dict; a recorded parameter is checked against the applied one "
    "only for the threshold family, where it can be decoded from the output (and only if the transform records it at all)",
    "scale_strength histories are only driven on trees all of whose leaves scale without refusing / mis-scaling (no KDRandomRotation, no "
    "KDColorJitter family); both twins end at the same strength",
    "loader scenario: fork start method, sequential sampler, in-order delivery (torch defaults): batch j is produced by worker j % num_workers; "
    "trees with a KDScheduledTransform that never received its progress arguments are not sent into workers (its own assertion refuses)",
]
MONITORS = ["instance_pairs_compared", "outputs_compared", "ctx_entries_compared", "replays_compared", "sentinel_windows", "injection_windows",
            "copy_windows", "copied_handles_compared", "calls_without_ctx_compared", "edited_member_lists", "strength_histories", "loader_runs", "loader_samples_compared",
            "seed_sensitive_cases", "histories_before_injection"]

BOUNDARY_SEEDS = [0, 1, 5, 2 ** 32 - 1, 2 ** 32, 2 ** 63 - 1]
STEP_LIMIT = 400_000
WITNESSES_PER_KEY = 5


# ------------------------------------------------------------------------------------------------ generation
def _case(rng, tree, T):
    n = rng.choice([1, 2, 3, 3, 4, 4])
    hist = {
        "calls": rng.choice([0, 1, 2, 3, 5]),
        "pre_seed": rng.choice([None, None, rng.randrange(2 ** 32)]),
        "pre_calls": rng.choice([0, 1, 2]),
        "winit": rng.random() < 0.4,
        "burn": rng.choice([0, 1, 7]),
    }
    if _strength_ok(tree) and rng.random() < 0.5:
        # scale_strength histories before the injection: different paths for the twins (one visits 0 - the first batch of every
        # increasing schedule -, intermediate values), both ending at the SAME strength
        f = rng.choice([1.0, 1.0, 1.0, 0.5, 0.3, 0.0])
        pa = rng.choice([[f], [0.7, f], [f, f], [1.0, f]])
        pb = rng.choice([[0.0, f], [0.0, 0.4, f], [0.6, 0.0, f], [0.2, f], [0.0, 1.0, f]])
        if rng.random() < 0.2:
            pa, pb = pb, pa
        hist["strength"] = {"a": pa, "b": pb}
    s = rng.choice(BOUNDARY_SEEDS) if rng.random() < 0.35 else rng.randrange(2 ** 63)
    s_alt = s + 1 if s < 2 ** 63 - 1 else 12345
    g1 = rng.randrange(2 ** 31)
    g2 = rng.randrange(2 ** 31)
    if g2 == g1:
        g2 = (g1 + 1) % (2 ** 31)
    return {
        "tree": tree, "in": T, "x_seeds": [rng.randrange(10 ** 6) for _ in range(n)], "s": s, "s_alt": s_alt, "g": [g1, g2],
        "perturb": [rng.randrange(2 ** 31) for _ in range(4)], "hist": hist,
        # second handles (copy.deepcopy / pickle round trip of the injected instance) are taken before call number `at`
        # the deep copy is called WITHOUT a ctx dict (ctx=None on every call, or alternating): recording must not change the stream
        "handle": {"at": rng.choice([0, 0, rng.randrange(n)]), "ctx": rng.choice(["none", "none", "mixed"])},
    }


def _strength_ok(tree):
    """scale_strength is only driven on trees all of whose leaves scale without refusing / mis-scaling (see h07_recipes.strength_ok)"""
    return tree["t"] != "semseg_seq" and all(H.RECIPES[n["recipe"]].strength_ok and H.RECIPES[n["recipe"]].kd
                                             for n in H.iter_nodes(tree) if n["t"] == "leaf")


def setup(run):
    # discovery / constructibility notes (evidence, not judged)
    found, bad = H.discover_stochastic_classes()
    run.notes["discovered_classes"] = len(found)
    run.notes["uncovered_classes"] = H.uncovered_classes()
    run.notes["unimportable_modules"] = [f"{m}: {e}" for m, e in sorted(bad.items())]
    constructible, broken = [], []
    for name, rec in H.RECIPES.items():
        if rec.may_be_unconstructible:
            err = H.probe_constructible(name)
            if err is None:
                constructible.append(name)
            else:
                broken.append(f"{rec.cls.__name__} ({name}): {err}")
    run.notes["unconstructible_pipelines_not_judged"] = broken
    run._c07_constructible = tuple(constructible)
    run._c07_codes = None


def _flags(run):
    return {"constructible": getattr(run, "_c07_constructible", ())}


def gen_cases(run):
    rng = run.rng
    flags = _flags(run)
    # (1) every stochastic recipe on each of its input kinds
    reps = run.n(4, 16 * 12)
    names = [n for n, r in H.RECIPES.items() if r.kd and (r.stochastic or r.pipeline)
             and (not r.may_be_unconstructible or n in flags["constructible"])]
    for rep in range(reps):
        for name in names:
            rec = H.RECIPES[name]
            for T in rec.input_types(rng):
                o = rec.sample(rng, T)
                if o is None:
                    continue
                tree = {"t": "leaf", "recipe": name, "params": o[0], "in": T}
                if H.factory_resolvable(rec) and rng.random() < 0.15:
                    tree["via"] = "dict"
                spec = _case(rng, tree, T)
                if not H.has_stochastic_leaf(tree):
                    spec["_trivial"] = True
                yield spec
                if rep == 0 and name in H.BOUNDARY_PARAMS:
                    for over in H.BOUNDARY_PARAMS[name]():
                        btree = {"t": "leaf", "recipe": name, "params": dict(o[0], **over), "in": T}
                        bspec = _case(rng, btree, T)
                        bspec["x_seeds"] = (bspec["x_seeds"] * 3)[:3]  # >= 3 consecutive calls
                        bspec["x_seeds"] = [x + k for k, x in enumerate(bspec["x_seeds"])]
                        yield bspec
    # (3) loader scenario (few: every run forks worker processes) - first, so that a time budget cannot starve it
    yield from _gen_loader_cases(run, flags)
    # (2) random compositions
    for i in range(run.n(600, 64000)):
        T = H.random_input_type(rng)
        depth = rng.choice([1, 2, 2, 3, 3])
        tree, _ = H.gen_composition(rng, T, depth, flags)
        spec = _case(rng, tree, T)
        if not H.has_stochastic_leaf(tree):
            spec["_trivial"] = True
        yield spec


def _gen_loader_cases(run, flags):
    rng = run.rng
    for i in range(run.n(6, 16 * 10)):
        for _ in range(50):
            T = H.random_input_type(rng)
            tree, _o = H.gen_composition(rng, T, rng.choice([1, 2, 2, 3]), flags)
            # a scheduled transform that never got its progress arguments refuses to run inside a worker (own assertion)
            if H.has_stochastic_leaf(tree) and not any(n["t"] == "scheduled" and not n.get("active") for n in H.iter_nodes(tree)):
                break
        spec = _case(rng, tree, T)
        W = 1 + i % 2
        spec.update(kind="loader", W=W, bs=rng.choice([1, 2, 3]), gl=[rng.randrange(2 ** 31), rng.randrange(2 ** 31)],
                    x_seeds=[rng.randrange(10 ** 6) for _ in range(rng.choice([5, 6, 8]))])
        yield spec


# ------------------------------------------------------------------------------------------------ evaluation
def _seed_globals(seed):
    """re-seed the three process-global RNGs (same effect as harness.GlobalRngSentinel.seed_all on the CPU generators;
    torch.manual_seed additionally queues CUDA/XPU/MPS seeding with a formatted stack trace, ~1 ms per call, and the
    perturbation happens around every observed call)"""
    np.random.seed(seed % (2 ** 32))
    torch.default_generator.manual_seed(seed)
    pyrandom.seed(seed)


class _Collector:
    """stand-in for `run` handed to harness.call_real while a (sub-)tree is evaluated: findings are reported only after
    the violating tree has been minimised"""

    def __init__(self):
        self.found = []

    def violation(self, key, what, spec=None):
        self.found.append((key, what))

    def refusal(self, cls):  # no refusal classes are enumerated for C07
        raise AssertionError("unreachable")


def _codes(run):
    if getattr(run, "_c07_codes", None) is None:
        import sys
        mods = [m for n, m in list(sys.modules.items())
                if m is not None and (n.startswith("kappadata.transforms") or n.startswith("kappadata.common.transforms")
                                      or n in ("kappadata.utils.magnitude_sampler", "kappadata.utils.random", "kappadata.factory"))]
        run._c07_codes = codes_of(*mods)
    return run._c07_codes


def _has(tree, kind):
    return any(n["t"] == kind for n in H.iter_nodes(tree))


def _call(col, t, x, phase, use_ctx=True):
    ctx = {} if use_ctx else None
    ok, out = call_real(col, lambda: t(x, ctx), crash_key=f"{phase}-crash", what=f"{phase}: calling the transform")
    return ok, out, ctx


def _finding(col, default_phase):
    key, what = col.found[-1]
    # key is "<phase>-crash:Exc" or "refused-in-domain:Exc"
    if key.startswith("refused-in-domain"):
        key = f"{default_phase}-refused:{key.split(':', 1)[1]}"
    return {"kind": key, "what": what}


PH_SETUP, PH_PAIR, PH_REPLAY, PH_EVIDENCE = 0, 1, 2, 3


def evaluate(spec, stats=None, until=PH_EVIDENCE):
    """run the differential on spec["tree"] -> None | {"kind", "what", "phase"}   (no reporting; `stats` collects evidence).
    `until`: last phase to run (minimisation only needs the phases up to the one in which the whole tree failed)"""
    tree, T = spec["tree"], spec["tree"]["in"]
    S = GlobalRngSentinel
    col = _Collector()
    st = stats if stats is not None else {}

    def bump(k, v=1):
        st[k] = st.get(k, 0) + v

    def fail(phase, default):
        return dict(_finding(col, default), phase=phase)

    def inject(t, seed, tag, phase, what):
        """set_rng(explicit generator) under the global-RNG sentinel: handing over a generator must not touch the
        process-global NumPy / Torch / Python streams (construction may, by design of the library) -> None | finding"""
        gen = np.random.default_rng(seed)
        before = S.snapshot()
        ok_, _ = call_real(col, lambda: t.set_rng(gen), crash_key="set_rng-crash", what=what)
        after = S.snapshot()
        if not ok_:
            return fail(phase, "set_rng")
        bump("injection_windows")
        d = S.diff(before, after)
        if d:
            return {"kind": f"injection-consumes-global-rng:{'+'.join(d)}", "phase": phase,
                    "what": f"{what} on instance {tag} changed the process-global {d} RNG state: injecting an explicit generator "
                            f"consumed global randomness"}
        return None

    inputs = [H.make_input(T, xs) for xs in spec["x_seeds"]]
    g1, g2 = spec["g"]
    pert = spec["perturb"]
    h = spec["hist"]

    # ---- instance A: global seed g1, no history
    _seed_globals(g1)
    ok, A = call_real(col, lambda: H.build_composition(tree), crash_key="construct-crash", what="constructing the transform")
    if not ok:
        return fail(PH_SETUP, "construct")
    sh = h.get("strength") if _strength_ok(tree) else None

    def scale(t, values):
        for v in values:
            ok_, _ = call_real(col, lambda: t.scale_strength(v), crash_key="scale_strength-crash", what=f"scale_strength({v})")
            if not ok_:
                return fail(PH_SETUP, "scale_strength")
        return None

    if sh:
        f_ = scale(A, sh["a"])
        if f_ is not None:
            return f_
    f_ = inject(A, spec["s"], "A", PH_SETUP, "set_rng(default_rng(s))")
    if f_ is not None:
        return f_

    # ---- instance B: global seed g2, different amount of global draws, call history before the injection
    _seed_globals(g2)
    np.random.random(h["burn"])
    ok, B = call_real(col, lambda: H.build_composition(tree), crash_key="construct-crash", what="constructing the transform (2nd instance)")
    if not ok:
        return fail(PH_SETUP, "construct")
    nh = 0
    if sh:
        f_ = scale(B, sh["b"][:-1])
        if f_ is not None:
            return f_
        nh += 1
        bump("strength_histories")
    for j in range(h["calls"]):
        ok_, _, _ = _call(col, B, H.make_input(T, 10 ** 7 + j), "call")  # un-injected: B's construction-time generator
        nh += 1
        if not ok_:
            return fail(PH_SETUP, "call")
    if h["pre_seed"] is not None:
        f_ = inject(B, h["pre_seed"], "B", PH_SETUP, "set_rng(other seed)")
        if f_ is not None:
            return f_
        nh += 1
        for j in range(h["pre_calls"]):
            ok_, _, _ = _call(col, B, H.make_input(T, 2 * 10 ** 7 + j), "call")
            if not ok_:
                return fail(PH_SETUP, "call")
    if h["winit"] and hasattr(B, "worker_init_fn") and not _has(tree, "scheduled"):
        # re-seeds from the global RNG (what a dataloader worker does); schedules need progress arguments and are left alone
        ok, _ = call_real(col, lambda: B.worker_init_fn(0), crash_key="worker_init-crash", what="worker_init_fn(0)")
        if not ok:
            return fail(PH_SETUP, "worker_init")
        nh += 1
    if sh:
        f_ = scale(B, sh["b"][-1:])  # both twins end at the same strength
        if f_ is not None:
            return f_
    if nh:
        bump("histories_before_injection")
    _seed_globals(pert[0] + 5)  # injection under yet another global state
    f_ = inject(B, spec["s"], "B", PH_SETUP, "set_rng(default_rng(s)) after a history")
    if f_ is not None:
        return f_
    if until < PH_PAIR:
        return None

    def one(t, tag, i, pbase, phase, use_ctx=True):
        """one observed call: perturb the global RNGs, snapshot, call, snapshot -> (canon(out), canon(ctx)) | finding"""
        _seed_globals(pert[(pbase + i) % len(pert)] + 17 * i + pbase)
        if (pbase + i) % 2:
            np.random.random(3)  # different amounts of global draws before the call as well
        before = S.snapshot()
        ok_, out, ctx = _call(col, t, H.clone_input(inputs[i]), "call", use_ctx)
        after = S.snapshot()
        if not ok_:
            return fail(phase, "call")
        bump("sentinel_windows")
        if ctx is None:
            return canon_value(out), None
        f_ = _decode_recorded(tree, inputs[i], out, ctx, bump)
        if f_ is not None:
            return dict(f_, phase=phase)
        d = S.diff(before, after)
        if d:
            return {"kind": f"global-rng-consumed:{'+'.join(d)}", "phase": phase,
                    "what": f"call {i} of instance {tag} changed the process-global {d} RNG state although a generator had been injected"}
        bump("ctx_entries_compared", len(ctx))
        return canon_value(out), canon_value(ctx)

    # ---- paired calls: same inputs, equal injected seeds, different global states
    ra = []
    handles = []
    hs = spec.get("handle")
    for i in range(len(inputs)):
        if hs is not None and i == min(hs["at"], len(inputs) - 1):
            # second handles of the injected instance: a deep copy and a pickle round trip (what a dataloader worker gets)
            # must continue exactly like the original; taking them must not touch the global RNGs
            for k, mode in enumerate(("deepcopy", "pickle")):
                _seed_globals(pert[2] + 31 * i + k)
                before = S.snapshot()
                try:
                    c = copy.deepcopy(A) if mode == "deepcopy" else pickle.loads(pickle.dumps(A))
                except Exception:  # noqa: BLE001 - whether an object can be copied at all is not this property's subject
                    bump(f"handles_not_copyable[{mode}]")
                    continue
                after = S.snapshot()
                bump("copy_windows")
                d = S.diff(before, after)
                if d:
                    return {"kind": f"copy-consumes-global-rng:{'+'.join(d)}", "phase": PH_PAIR,
                            "what": f"{mode} of an instance with an injected generator (taken before call {i}) changed the process-global {d} RNG state"}
                handles.append((mode, c))
        a = one(A, "A", i, 0, PH_PAIR)
        if isinstance(a, dict):
            return a
        for k, (mode, c) in enumerate(handles):
            # the deep copy runs without a ctx dict (always / on alternating calls): only its outputs can be compared
            with_ctx = mode != "deepcopy" or (hs.get("ctx") == "mixed" and (i - hs["at"]) % 2 == 1) or hs.get("ctx") is None
            r_ = one(c, f"{mode} of A", i, 4 + k, PH_PAIR, use_ctx=with_ctx)
            if isinstance(r_, dict):
                return r_
            bump("copied_handles_compared")
            if not with_ctx:
                bump("calls_without_ctx_compared")
                if r_[0] != a[0]:
                    return {"kind": "ctx-recording-changes-stream", "phase": PH_PAIR,
                            "what": f"two equally seeded handles of one instance (set_rng(default_rng({spec['s']}))) disagree on the output of call {i}: "
                                    f"the original is called with a ctx dict, the copy with ctx=None ({hs.get('ctx')}, since call {hs['at']}) - recording "
                                    f"the context must not consume or change the random stream"}
                continue
            if r_ != a:
                part = "output" if r_[0] != a[0] else "recorded ctx"
                return {"kind": "copied-instance-diverges", "phase": PH_PAIR,
                        "what": f"a {mode} of the instance taken after set_rng(default_rng({spec['s']})) (before call {hs['at']}) does not continue "
                                f"like the original: {part} of call {i} differs{_census_hint(A)}"}
        b = one(B, "B", i, 1, PH_PAIR)
        if isinstance(b, dict):
            return b
        bump("outputs_compared")
        if a != b:
            part = "output" if a[0] != b[0] else "recorded ctx"
            return {"kind": "not-seed-determined", "phase": PH_PAIR,
                    "what": f"two independently constructed instances given set_rng(default_rng({spec['s']})) disagree on the {part} of call {i} "
                            f"(A: built under global seed {g1}, no call history{', scale_strength path ' + str(sh['a']) if sh else ''}; "
                            f"B: built under {g2}, history {h}){_census_hint(A)}"}
        ra.append(a)
    bump("instance_pairs_compared")
    if until < PH_REPLAY:
        return None

    # ---- re-injection replays
    f_ = inject(A, spec["s"], "A", PH_REPLAY, "re-injecting the seed")
    if f_ is not None:
        return f_
    for i in range(len(inputs)):
        r_ = one(A, "A(replay)", i, 2, PH_REPLAY)
        if isinstance(r_, dict):
            return r_
        if r_ != ra[i]:
            part = "output" if r_[0] != ra[i][0] else "recorded ctx"
            return {"kind": "not-seed-determined", "phase": PH_REPLAY,
                    "what": f"re-injecting default_rng({spec['s']}) into the same instance does not replay the {part} of call {i}{_census_hint(A)}"}
    bump("replays_compared")
    if until < PH_EVIDENCE:
        return None

    # ---- evidence: does the seed matter at all (i.e. did the workload draw)?
    f_ = inject(B, spec["s_alt"], "B", PH_EVIDENCE, "injecting another seed")
    if f_ is not None:
        return f_
    for i in range(len(inputs)):
        r_ = one(B, "B(other seed)", i, 3, PH_EVIDENCE)
        if isinstance(r_, dict):
            return r_
        if r_ != ra[i]:
            bump("seed_sensitive")
            break
    return None


def _decode_recorded(tree, x, out, ctx, bump):
    """where the applied parameter can be decoded from the output, a recorded parameter must be the applied one.
    threshold family (`x[x < thr] = 0`): zeroed positive pixels lie below the recorded threshold, surviving ones do not."""
    if tree["t"] != "leaf" or tree["recipe"] not in ("threshold", "random_threshold") or not torch.is_tensor(out):
        return None
    keys = [k for k in ctx if str(k).endswith(".threshold")]
    if not keys or out.shape != x.shape:
        return None
    v = float(ctx[keys[0]])
    if v < 0:  # "skipped" marker of the random-apply family
        return None
    bump("recorded_parameters_decoded")
    zeroed = x[(out == 0) & (x > 0)]
    kept = x[out != 0]
    if (zeroed.numel() and float(zeroed.max()) >= v) or (kept.numel() and float(kept.min()) < v):
        return {"kind": "recorded-parameter-not-applied",
                "what": f"ctx[{keys[0]!r}] = {v} but the output was thresholded elsewhere: largest zeroed pixel "
                        f"{float(zeroed.max()) if zeroed.numel() else None}, smallest surviving pixel {float(kept.min()) if kept.numel() else None}"}
    return None


# ------------------------------------------------------------------------------------------------ loader scenario
class _LoaderDataset(torch.utils.data.Dataset):
    """plain torch dataset: sample i = transform(copy of input i); reports the worker that produced it and whether the call
    changed the worker's process-global RNG states"""

    def __init__(self, inputs, transform):
        self.inputs = inputs
        self.transform = transform

    def __len__(self):
        return len(self.inputs)

    def __getitem__(self, idx):
        info = torch.utils.data.get_worker_info()
        ctx = {}
        before = GlobalRngSentinel.snapshot()
        err, out = None, None
        try:
            out = self.transform(H.clone_input(self.inputs[idx]), ctx)
        except Exception as e:  # noqa: BLE001 - reported to the parent as a finding
            kind, where = core.classify_exception(e)
            err = (kind, type(e).__name__, f"{type(e).__name__}: {e} at {where}")
        after = GlobalRngSentinel.snapshot()
        return {"idx": int(idx), "wid": -1 if info is None else int(info.id), "out": canon_value(out), "ctx": canon_value(ctx),
                "consumed": GlobalRngSentinel.diff(before, after), "err": err}


def _identity_collate(batch):
    return batch


def evaluate_loader(spec, stats=None, until=None):
    """a transform that got an explicit generator in the main process is read through a real DataLoader (num_workers 1..2, no
    worker_init_fn, fork) under two different global seeds: every delivered sample must be what a main-process twin with the same
    injected seed produces at the same call position within that worker (each forked worker continues the injected stream from the
    fork point), independent of the global seeds; the calls must not consume the worker's global RNG streams."""
    tree, T = spec["tree"], spec["tree"]["in"]
    col = _Collector()
    st = stats if stats is not None else {}

    def bump(k, v=1):
        st[k] = st.get(k, 0) + v

    def fail(default):
        return dict(_finding(col, default), phase=PH_PAIR)

    inputs = [H.make_input(T, xs) for xs in spec["x_seeds"]]
    g1, g2 = spec["g"]
    W, bs = spec["W"], spec["bs"]
    _seed_globals(g1)
    ok, A = call_real(col, lambda: H.build_composition(tree), crash_key="construct-crash", what="constructing the transform")
    if not ok:
        return fail("construct")
    ok, _ = call_real(col, lambda: A.set_rng(np.random.default_rng(spec["s"])), crash_key="set_rng-crash", what="set_rng(default_rng(s))")
    if not ok:
        return fail("set_rng")
    ds = _LoaderDataset(inputs, A)
    runs = []
    for gl in spec["gl"]:
        _seed_globals(gl)
        np.random.random(gl % 5)
        loader = torch.utils.data.DataLoader(ds, batch_size=bs, num_workers=W, shuffle=False, collate_fn=_identity_collate,
                                             multiprocessing_context="fork", timeout=120)
        try:
            items = [it for batch in loader for it in batch]
        except RuntimeError as e:
            if "timed out" in str(e).lower():
                raise core.Inconclusive(f"DataLoader watchdog: {e}")
            return {"kind": f"loader-crash:{type(e).__name__}", "phase": PH_PAIR, "what": f"DataLoader(num_workers={W}) over the seeded transform: {e}"[:1500]}
        bump("loader_runs")
        runs.append(items)
    # reference: per worker, an independently constructed main-process twin with the same injected seed, fed with that worker's samples
    for r, items in enumerate(runs):
        if sorted(it["idx"] for it in items) != list(range(len(inputs))):
            raise core.Inconclusive("loader did not deliver every sample exactly once")
        for w in sorted({it["wid"] for it in items}):
            mine = [it for it in items if it["wid"] == w]
            _seed_globals(g2 + w)
            ok, R = call_real(col, lambda: H.build_composition(tree), crash_key="construct-crash", what="constructing the twin")
            if not ok:
                return fail("construct")
            ok, _ = call_real(col, lambda: R.set_rng(np.random.default_rng(spec["s"])), crash_key="set_rng-crash", what="set_rng(default_rng(s)) (twin)")
            if not ok:
                return fail("set_rng")
            for pos, it in enumerate(mine):
                if it["err"] is not None:
                    kind, exc, text = it["err"]
                    return {"kind": f"call-{'refused' if kind == 'guard' else 'crash'}:{exc}", "phase": PH_PAIR,
                            "what": f"call inside dataloader worker {w}: {text}"}
                if it["consumed"]:
                    return {"kind": f"global-rng-consumed:{'+'.join(it['consumed'])}", "phase": PH_PAIR,
                            "what": f"sample {it['idx']} produced in dataloader worker {w} (num_workers={W}, global seed {spec['gl'][r]}) changed the "
                                    f"worker's process-global {it['consumed']} RNG state although a generator had been injected in the main process"}
                _seed_globals(g2 + 13 * pos)
                ok_, out, ctx = _call(col, R, H.clone_input(inputs[it["idx"]]), "call")
                if not ok_:
                    return fail("call")
                bump("loader_samples_compared")
                if canon_value(out) != it["out"] or canon_value(ctx) != it["ctx"]:
                    part = "output" if canon_value(out) != it["out"] else "recorded ctx"
                    return {"kind": "loader-worker-not-seed-determined", "phase": PH_PAIR,
                            "what": f"set_rng(default_rng({spec['s']})) in the main process, then DataLoader(num_workers={W}, batch_size={bs}, no "
                                    f"worker_init_fn) under global seed {spec['gl'][r]}: the {part} of sample {it['idx']} (call {pos} of worker {w}) is not what "
                                    f"a main-process twin with the same injected seed produces at that position of the stream"}
    return None


def _census_hint(A):
    """diagnostics only: member generators that were not replaced by the injection (private state, never a verdict)"""
    try:
        probe = np.random.default_rng(987654321)
        A.set_rng(probe)
        left = [p for p, g in H.generator_census(A) if g is not probe]
        if left:
            return f"; diagnostic: after set_rng the instance still holds other generator objects at {left[:6]}"
    except Exception:  # noqa: BLE001
        pass
    return ""


def _sub(spec, node, boost=1):
    """self-contained spec for a sub-tree; more inputs than the original case so that rarely-applied members (small p) still
    show their draws when the sub-tree is judged alone"""
    T = dict(node["in"])
    if "h" in T and T["h"] is None:  # size unknown at generation time (after a random resize): any size is in-domain
        T.update(h=21, w=30)
        node = dict(node, **{"in": T})
    n = len(spec["x_seeds"]) if spec.get("kind") == "loader" else (32 if node["t"] == "leaf" else 12) * boost
    xs = list(spec["x_seeds"]) + [spec["x_seeds"][0] + 1000 + i for i in range(n - len(spec["x_seeds"]))]
    return dict(spec, tree=node, x_seeds=xs, **{"in": T})


def _children(node):
    if node["t"] in ("compose", "semseg_seq"):
        return node["members"]
    if node["t"] in ("random_apply", "patchwise", "scheduled"):
        return [node["child"]]
    return []


def _minimise(spec, finding):
    """-> list of (sub_spec, finding): minimal violating sub-trees (violating when judged alone, no violating child).
    Top-down: only the children of violating nodes are judged."""
    out = []
    # construction / injection failures do not depend on draws: the same phase decides for every sub-tree, one round is enough
    setup_failure = finding["kind"].split(":")[0] in ("construct-crash", "construct-refused", "set_rng-crash", "set_rng-refused",
                                                      "scale_strength-crash", "scale_strength-refused",
                                                      "worker_init-crash", "worker_init-refused",
                                                      "injection-consumes-global-rng") and finding["phase"] == PH_SETUP
    until = PH_SETUP if setup_failure else max(finding["phase"], PH_PAIR)
    is_loader = spec.get("kind") == "loader"
    ev = evaluate_loader if is_loader else evaluate

    def descend(cur_spec, cur_finding):
        children = [ch for ch in _children(cur_spec["tree"]) if not (ch["t"] == "leaf" and not H.RECIPES[ch["recipe"]].kd)]
        hits = []
        for boost in ((1,) if (setup_failure or is_loader) else (1, 4)):
            # second round (only when no child violated alone, i.e. before the container itself is blamed): many more inputs,
            # so that members that are applied rarely / on tiny patches get a fair chance to show their own draws
            for ch in children:
                sub = _sub(spec, ch, boost)
                if is_loader and any(n["t"] == "scheduled" and not n.get("active") for n in H.iter_nodes(sub["tree"])):
                    continue
                f = ev(sub, until=until)
                if f is not None:
                    hits.append((sub, f))
            if hits:
                break
        for sub, f in hits:
            descend(sub, f)
        if not hits:
            out.append((cur_spec, cur_finding))

    descend(spec, finding)
    return out


# ------------------------------------------------------------------------------------------------ case execution
def run_case(run, spec):
    tree = spec["tree"]
    T = tree["in"]
    stats = {}
    if spec.get("kind") == "loader":
        finding = evaluate_loader(spec, stats)  # worker processes: bounded by the loader's own timeout
        run.cover("loader", spec["W"], spec["bs"], T["kind"], tree["t"])
    else:
        with StepBudget(STEP_LIMIT, _codes(run), what="differential run of one composition"):
            finding = evaluate(spec, stats)
    for k, v in stats.items():
        if k != "seed_sensitive":
            run.count(k, v)
    labels = H.node_classes(tree)
    sens = bool(stats.get("seed_sensitive"))
    if finding is None:
        run.count("cases_held")
        if sens:
            run.count("seed_sensitive_cases")
    # coverage / evidence
    kinds = sorted({n["t"] for n in H.iter_nodes(tree)})
    run.cover("shape", T["kind"], T.get("c", 0), "+".join(kinds), H.node_depth(tree))
    for n in H.iter_nodes(tree):
        if n["t"] == "leaf":
            run.cover("leaf", n["recipe"], n["in"]["kind"], n.get("via", "ctor"))
            if finding is None and sens and tree["t"] == "leaf":
                _note(run, "recipes_seed_sensitive", n["recipe"])
        elif n["t"] == "random_apply":
            run.cover("random_apply", "p0" if n["p"] == 0 else "p1" if n["p"] == 1 else "p", n["child"]["t"])
        elif n["t"] == "scheduled":
            run.cover("scheduled", "active" if n.get("active") else "inactive", n["child"]["t"], str(n.get("schedule")))
        elif n["t"] == "patchwise":
            run.cover("patchwise", n["child"]["t"], n["in"]["kind"])
        elif n["t"] == "compose":
            run.cover("compose", len(n["members"]), bool(n.get("implicit")))
            if n.get("edit"):
                run.count("edited_member_lists")
                run.cover("compose-edit", n["edit"]["mode"], n is not tree, n["members"][n["edit"].get("pos", 0)]["t"])
    run.cover("seed", "boundary" if spec["s"] in BOUNDARY_SEEDS else "random")
    run.cover("history", spec["hist"]["calls"] > 0, spec["hist"]["pre_seed"] is not None, spec["hist"]["winit"])
    if spec["hist"].get("strength"):
        sp = spec["hist"]["strength"]
        run.cover("strength-history", sp["a"][-1], 0.0 in sp["a"][:-1], 0.0 in sp["b"][:-1])
    if spec.get("handle"):
        run.cover("handle", "start" if spec["handle"]["at"] == 0 else "mid-stream")
    for c in set(labels):
        _note(run, "classes_exercised", c)
    if finding is None:
        if H.node_depth(tree) >= 2:
            run.sample({"tree": _brief(tree), "input": T, "seed": spec["s"], "calls": len(spec["x_seeds"]), "seed_sensitive": sens}, cap=5)
        return

    # ---- violation: minimise, then report each minimal violating sub-tree under its own mechanism key
    with StepBudget(STEP_LIMIT * 8, _codes(run), what="minimising a violating composition"):
        minimal = _minimise(spec, finding)
    for sub, f in minimal:
        label = H.node_label(sub["tree"])
        key = f"{f['kind']}:{label}"
        sub = {k: v for k, v in sub.items() if k != "_trivial"}
        # a handful of witnesses per mechanism: duplicates must not use up the runner's cap of recorded violations
        per_key = run.__dict__.setdefault("_c07_per_key", {})
        per_key[key] = per_key.get(key, 0) + 1
        if key in run.known or per_key[key] <= WITNESSES_PER_KEY:
            run.violation(key, f"{label}: {f['what']}\nminimal violating sub-tree: {_brief(sub['tree'])}", sub)
        else:
            run.count(f"further_witnesses[{key}]")


def _brief(node):
    t = node["t"]
    if t == "leaf":
        return f"{H.RECIPES[node['recipe']].cls.__name__}({', '.join(f'{k}={v}' for k, v in node['params'].items())})"
    if t in ("compose", "semseg_seq"):
        name = "Compose" if t == "compose" else "SemsegSeq"
        if node.get("edit"):
            name += f"<{node['edit']['mode']}@{node['edit'].get('pos', 0)}>"
        return f"{name}[{', '.join(_brief(m) for m in node['members'])}]"
    if t == "random_apply":
        return f"RandomApply(p={node['p']}, {_brief(node['child'])})"
    if t == "patchwise":
        return f"Patchwise({node['patch']}, {_brief(node['child'])})"
    if t == "scheduled":
        return f"Scheduled({'active' if node.get('active') else 'inactive'}, schedule={node.get('schedule')}, {_brief(node['child'])})"
    return t


def _note(run, key, val):
    lst = run.notes.setdefault(key, [])
    if val not in lst:
        lst.append(val)


def finalize_merged(run):
    seen = set(run.notes.get("recipes_seed_sensitive", []))
    expected = {n for n, r in H.RECIPES.items() if r.kd and r.stochastic and r.draws and not r.may_be_unconstructible}
    run.notes["recipes_never_seed_sensitive_standalone"] = sorted(expected - seen)
    run.notes["recipes_seed_sensitive"] = sorted(seen)
    run.notes["classes_exercised"] = sorted(run.notes.get("classes_exercised", []))
    run.notes["recipes_total"] = len(H.RECIPES)
