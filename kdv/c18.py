"""C18 — collator pipeline keeps the batch layout and the context contract.

Observed at the API boundary: `collator([ModeWrapper(ds, mode, return_ctx)[i] for i in idxs])` for
KDSingleCollator (called directly), KDSingleCollatorWrapper, KDComposeCollator and PadSequencesCollator, plus the
event logs of harness members (what each member's `collate` hook was handed).

Reference (written from the property text, not from the code): torch's default collation of the *item part* of the
samples, applied exactly once at the position the members ask for (`before`: ahead of the first such member unless it
already happened; `after`: right behind that member; None: the member does it itself); every member's visible edit
applied in member order; `(batch, ctx)` iff return_ctx; ctx = per-sample keys batched in sample order + member tags.
Padding collator: explicit front-content / zeros-behind / batch-maximum check per tensor field.
"""
from __future__ import annotations

import itertools
import os

import numpy as np
import torch
from torch.utils.data import default_collate

from kappadata.collators import KDComposeCollator, KDSingleCollatorWrapper, PadSequencesCollator
from kappadata.wrappers.mode_wrapper import ModeWrapper

from . import core
from .h18_members import (FIXED_TENSOR_ITEMS, FLOAT_ITEMS, OTHER_ITEMS, SEQ_ITEMS, RecMember, SeqDS, cv, describe,
                          edit_value, eq, snap)

LEVEL = "exploration"
RULE = ("four case families (pipe and pad cases additionally carry at most one extra: 12% use the object returned by set_rng / "
        "worker_init_fn as collate_fn; 15% hand return_ctx over as 1/0, np.bool_ or the result of np.any; 15% collate the same "
        "list of sample objects again with the same and/or a second separately built pipeline; 20% are built with another "
        "dataset_mode / return_ctx / member list and moved to the final configuration through the public attributes, from "
        "outside or in a subclass constructor. After every call of every family the caller's sample objects and per-sample "
        "ctx dicts are deep-compared with a snapshot taken before the call). 'pipe': a harness sequence dataset (fixed shapes), a mode of 1..4 distinct items (tensors "
        "of several ranks/dtypes, 0-dim tensor, python int / float / bool, numpy float64 / int16 scalars, str, index, ctx.<key>), return_ctx, B in 1..8 sample indices "
        "(random order, optional repeats), a member order of length 1..4 over {before, after, none (collates itself), "
        "none-raw (per-sample member that returns the samples uncollated)} (all 156 driven orders are enumerated first, "
        "then sampled: 2/3 served orders none-raw* (before+ | after before* | none), 1/3 any), builder in {direct KDSingleCollator "
        "call, KDSingleCollatorWrapper, KDComposeCollator}, per member an item it edits. 'pad': variable-length "
        "fields with a length profile (all-equal, all-zero, one-zero, random, increasing, one-long), trailing dims, "
        "B in 1..8, samples with/without ctx, collator return_ctx, same three builders. 'shared': ONE member instance "
        "behind 2..4 entry points with different dataset_mode / return_ctx (two KDSingleCollatorWrappers, the member "
        "configured for direct use and additionally wrapped, the member inside two KDComposeCollators, mixes), built in a "
        "random order and called 3..9 times in interleaved order, every call judged by the pipe oracle under the "
        "configuration of the entry point it went to. 'padhist': 2..4 batches through ONE PadSequencesCollator instance "
        "(direct / wrapper / compose), two thirds with equal padded shape but different length profiles per batch, all "
        "returned batches and ctx kept and verified after the last call. distinct by full spec; "
        "non-trivial = B >= 2 or a mode of >= 2 items")
ASSUMPTIONS = [
    "ModeWrapper.return_ctx equals the collator's return_ctx (the pipeline's own assertion message demands it); the only "
    "mismatch driven is PadSequencesCollator on samples with ctx under return_ctx=False, which the repository's tests pin "
    "to return (batch, ctx)",
    "none-mode members come in two harness kinds. One that demonstrably leaves the batch raw (per-sample edit, returns the "
    "sample list uncollated) may be followed by any member: the following members' requests decide the collation point "
    "([none-raw, before] -> once ahead of the before member; [none-raw, after] -> once behind the after member; ...). One "
    "that collates itself (like PadSequencesCollator) is claimed only in last position; a self-collating none member "
    "followed by any other member is not driven (the property does not say who owns collation), and neither are orders "
    "made of none-raw members only (nobody asks for collation)",
    "orders none-raw+ , before ... are driven only with return_ctx=False: with return_ctx=True the current pipeline splits "
    "ctx off for the none-mode member and splits a second time in the `before` branch (ValueError/assertion) - the code "
    "does not serve that corner, it is reported separately and driven only when KDV_C18_CTX_AFTER_RAW=1",
    "a member asking for raw samples (after / none) behind the collation point is the enumerated refusal class "
    "'raw-member-after-collation': the pipeline's own assertion must refuse it",
    "list and tuple are both accepted as 'sequence of n' (default collation turns tuples into lists); bare vs sequence, "
    "length, order, dtype, shape and content are exact",
    "per-sample ctx entries are ints, floats, strings and fixed-shape tensors with identical key sets across the batch "
    "(what default collation can batch); ctx values of ragged shape are not driven",
    "items are tensors, python ints / floats (incl. values float32 cannot represent) / bools, numpy scalars, strings, python lists / nested lists / tuples of numbers, dicts; for the padding collator a tuple-valued item as the only item and a (tuple item, dict item) pair in the first two mode positions are not driven - the collator recognises sample tuples and (items, ctx) samples by exactly these shapes; items that are themselves tuples/dicts are not driven for the padding collator",
    "KDSingleCollatorWrapper is held to the same contract as KDComposeCollator with one member",
    "return_ctx is a truth value: 1 / 0 / np.bool_ / np.True_ behave exactly like the python bool of the same truth value "
    "(the current tree only ever tests its truthiness)",
    "a collator call is a pure function of the samples: the caller's sample objects and per-sample ctx dicts (values and key "
    "order) are unchanged after every call on the current tree, so collating the same sample objects again - same or another "
    "pipeline - gives an equal result",
    "setters: whatever set_rng / worker_init_fn return (self on the current tree for set_rng, None for worker_init_fn) must, "
    "when it is an object, serve as collate_fn exactly like the object the setter was called on",
    "the public attributes dataset_mode, return_ctx, collators (compose) / collator (wrapper) are read at call time by all "
    "three entry classes on the current tree: a call follows the values the object reports then, also when a subclass "
    "constructor changed them after super().__init__",
    "a padding collator instance is stateless across batches: every result it returned stays correct while later "
    "batches go through the same instance (results are kept, as a prefetching DataLoader keeps them, and verified at the end)",
    "one member instance may sit behind several entry points (wrappers, composes, its own direct configuration); every "
    "entry point is held to its own dataset_mode / return_ctx whatever was built or called before (the member's only "
    "state in the harness is its log; stateful members are not driven)",
]
MONITORS = ["pipeline_outputs_checked", "member_inputs_checked", "ctx_merges_checked", "order_refusals_checked",
            "pad_fields_checked", "pad_other_fields_checked", "pad_ctx_checked", "shared_entry_calls_checked", "pad_history_results_checked", "fluent_returns_used", "reconfigured_calls_checked", "nonbool_flag_calls_checked", "repeated_collations_checked",
            "caller_objects_checked"]

REFUSAL = "raw-member-after-collation"
K_WRAPPER = "wrapper:bypasses-pipeline"
K_SETITEM = "modewrapper:set_item-single-item"
K_PAD_BARE = "pad:bare-non-sequence-item"

# member alphabet: b = before, a = after, n = none-mode member that collates itself (like PadSequencesCollator),
# r = none-mode member that leaves the batch raw (per-sample edit, returns the sample list uncollated)
_CODE = {"b": ("before", False), "a": ("after", False), "n": (None, False), "r": (None, True)}


def _order_class(o):
    """'served' | 'refused' (a raw-sample member behind the collation point) | None (not driven)"""
    if "n" in o[:-1] or set(o) == {"r"}:
        return None  # a self-collating none member followed by others / nobody ever asks for collation: not claimed
    collated = False
    for ch in o:
        if ch == "b":
            collated = True
        elif collated:
            return "refused"
        elif ch in "an":
            collated = True
    return "served"


def _ctx_excluded(o):
    """orders in which default collation is triggered by a `before` member after a raw none-mode member already ran:
    with return_ctx the current pipeline splits ctx off for the none-mode member and then splits again in the `before`
    branch - not served by the code, therefore driven only without ctx (see ASSUMPTIONS)"""
    if os.environ.get("KDV_C18_CTX_AFTER_RAW", "1") == "1":  # driven by default since the repository repair 8527d82
        return False
    i = o.find("b")
    return i > 0 and set(o[:i]) == {"r"}


ORDERS = [o for k in range(1, 5) for o in ("".join(t) for t in itertools.product("banr", repeat=k)) if _order_class(o)]
VALID_ORDERS = [o for o in ORDERS if _order_class(o) == "served"]  # r* followed by b+ | a b* | n
PIPE_ITEMS = list(SEQ_ITEMS + FIXED_TENSOR_ITEMS + OTHER_ITEMS)
PROFILES = ["equal", "zeros", "one_zero", "random", "increasing", "one_long"]


# ------------------------------------------------------------------------------------------------ generation
def _pick_mode(rng, pool, n, need=None):
    items = rng.sample(pool, min(n, len(pool)))
    if need and not any(i in need for i in items):
        items[rng.randrange(len(items))] = rng.choice(need)
    # ctx.<key> items are only defined behind the item that records the key
    if "x" in items and rng.random() < 0.2 and len(items) < 4:
        items.insert(rng.randint(items.index("x") + 1, len(items)), "ctx.x_idx")
    return items


def _pad_safe(items):
    """the padding collator tells a sample tuple from an item by `isinstance(..., tuple)` and a (items, ctx) sample by
    'first entry is a tuple, second a dict': a tuple-valued item as the only item, or a tuple item followed by a dict
    item in the first two positions, is ambiguous by construction -> not driven (see ASSUMPTIONS)"""
    items = list(items)
    if items == ["tup"]:
        return ["ilist"]
    if len(items) >= 2 and items[0] == "tup" and items[1] == "dct":
        items[0], items[1] = items[1], items[0]
    return items


def _idxs(rng, nd, B):
    if rng.random() < 0.2:
        return [rng.randrange(nd) for _ in range(B)]
    return rng.sample(range(nd), B)


def _lens(rng, profile, nd):
    if profile == "equal":
        return [rng.randint(0, 5)] * nd
    if profile == "zeros":
        return [0] * nd
    if profile == "increasing":
        s = rng.randint(0, 2)
        return [s + i for i in range(nd)]
    if profile == "one_long":
        v = [rng.randint(0, 2) for _ in range(nd)]
        v[rng.randrange(nd)] = rng.randint(5, 9)
        return v
    v = [rng.randint(0, 6) for _ in range(nd)]
    if profile == "one_zero":
        v = [max(1, a) for a in v]
        v[rng.randrange(nd)] = 0
    return v


def _B(rng):
    return rng.choice([1, 1, 2, 2, 3, 4, 5, 6, 7, 8])


def _gen_pipe(rng, i):
    if i < 3 * len(ORDERS):
        order = ORDERS[i % len(ORDERS)]
    else:  # 2/3 orders the pipeline must serve, 1/3 any order (mostly the refusal class)
        order = rng.choice(VALID_ORDERS) if rng.random() < 0.67 else rng.choice(ORDERS)
    B = _B(rng)
    nd = B + rng.randint(0, 2)
    n = rng.choice([1, 1, 2, 2, 3, 4])
    mode = _pick_mode(rng, PIPE_ITEMS, n)
    floats = [m for m in mode if m in FLOAT_ITEMS]
    members = []
    for ch in order:
        op = rng.choice(floats) if floats and rng.random() < 0.8 else None
        members.append({"cmode": _CODE[ch][0], "raw": _CODE[ch][1], "op": op})
    builder = "compose"
    if len(order) == 1:
        builder = ["single", "wrapper", "compose"][(i // len(ORDERS)) % 3] if i < 3 * len(ORDERS) else rng.choice(["single", "wrapper", "compose"])
    return _gen_extras(rng, builder, mode, {"fam": "pipe", "order": order, "members": members, "builder": builder, "mode": " ".join(mode),
            "ctx": rng.random() < 0.5 and not _ctx_excluded(order), "B": B, "nd": nd, "idxs": _idxs(rng, nd, B),
            "la": rng.choice([0, 1, 2, 3, 3]), "lb": rng.choice([0, 1, 2]), "trail": rng.choice([[], [], [1], [3], [2, 2]])})


def _gen_pad(rng, i):
    B = _B(rng)
    nd = B + rng.randint(0, 2)
    n = rng.choice([1, 1, 2, 2, 3, 4])
    r = rng.random()
    if r < 0.08:
        mode = _pick_mode(rng, list(OTHER_ITEMS), n)                       # no tensor field of ndim > 0 at all
    else:
        mode = _pick_mode(rng, PIPE_ITEMS, n, need=list(SEQ_ITEMS))
    mode = _pad_safe(mode)
    builder = rng.choice(["compose", "compose", "single", "wrapper"])
    sample_ctx = rng.random() < 0.5
    ret_ctx = sample_ctx
    if sample_ctx and builder != "wrapper" and rng.random() < 0.5:
        ret_ctx = False  # configuration pinned by tests_unit/collators/test_pad_sequences_collator.py
    prof = PROFILES[i % len(PROFILES)] if i < 60 else rng.choice(PROFILES)
    return _gen_extras(rng, builder, mode, {"fam": "pad", "builder": builder, "mode": " ".join(mode), "sample_ctx": sample_ctx, "ret_ctx": ret_ctx,
            "B": B, "nd": nd, "idxs": _idxs(rng, nd, B), "profile": prof, "la": _lens(rng, prof, nd),
            "lb": _lens(rng, rng.choice(PROFILES), nd), "trail": rng.choice([[], [], [1], [3], [2, 2]])})


def _gen_shared(rng, i):
    """ONE member instance reachable through several entry points with different configurations"""
    cm = ["before", "after", None][i % 3]
    member = {"cmode": cm, "raw": False, "op": rng.choice(list(FLOAT_ITEMS) + [None])}
    shape = i % 4  # 0: two wrappers, 1: self-configured member + wrapper(s), 2: two composes (+ wrapper), 3: random mix
    kinds = [["wrapper", "wrapper"], ["single", "wrapper"], ["compose", "compose"], []][shape]
    if shape == 3 or rng.random() < 0.4:
        kinds = kinds + [rng.choice(["wrapper", "compose", "single"]) for _ in range(rng.randint(1, 2))]
    while kinds.count("single") > 1:
        kinds.remove("single")
    if len(kinds) < 2:
        kinds.append("wrapper")
    if rng.random() < 0.5:
        rng.shuffle(kinds)
    entries = []
    for j, kind in enumerate(kinds):
        mode = _pick_mode(rng, PIPE_ITEMS, rng.choice([1, 2, 2, 3]))
        ctx = rng.random() < 0.5
        if j == 1 and rng.random() < 0.8:
            ctx = not entries[0]["ctx"]
        e = {"kind": kind, "mode": " ".join(mode), "ctx": ctx}
        if kind == "compose" and cm is not None and rng.random() < 0.4:
            e["extra"] = {"cmode": "before", "raw": False, "op": rng.choice(list(FLOAT_ITEMS) + [None])}
        entries.append(e)
    nd = rng.randint(8, 10)
    order = list(range(len(entries))) + [rng.randrange(len(entries)) for _ in range(rng.randint(1, len(entries) + 1))]
    if rng.random() < 0.3:
        order.reverse()
    calls = []
    for e in order:
        B = _B(rng)
        calls.append({"e": e, "idxs": _idxs(rng, nd, B)})
    return {"fam": "shared", "member": member, "entries": entries, "calls": calls, "nd": nd,
            "la": rng.choice([0, 1, 2, 3, 3]), "lb": rng.choice([0, 1, 2]), "trail": rng.choice([[], [], [1], [3], [2, 2]])}


def _gen_padhist(rng, i):
    """2..4 batches through ONE padding collator instance; consecutive batches of equal padded shape with different
    length profiles are the point (i % 3 != 2), the rest are arbitrary successions"""
    n = rng.choice([1, 1, 1, 2, 3])
    mode = _pick_mode(rng, PIPE_ITEMS, n, need=list(SEQ_ITEMS))
    if n == 1 and i % 2 == 0:
        mode = [rng.choice(SEQ_ITEMS)]
    mode = _pad_safe(mode)
    builder = ["compose", "single", "wrapper"][i % 3] if i < 30 else rng.choice(["compose", "compose", "single", "wrapper"])
    sample_ctx = rng.random() < 0.4
    ret_ctx = sample_ctx
    if sample_ctx and builder != "wrapper" and rng.random() < 0.5:
        ret_ctx = False
    same = i % 3 != 2
    B0, ma, mb = _B(rng), rng.randint(1, 6), rng.randint(1, 6)
    steps = []
    for _ in range(rng.randint(2, 4)):
        if same:
            B = B0
            la = [rng.randint(0, ma) for _ in range(B)]
            lb = [rng.randint(0, mb) for _ in range(B)]
            la[rng.randrange(B)] = ma
            lb[rng.randrange(B)] = mb
            idxs = rng.sample(range(B), B)
            nd = B
        else:
            B = _B(rng)
            nd = B + rng.randint(0, 2)
            la, lb = _lens(rng, rng.choice(PROFILES), nd), _lens(rng, rng.choice(PROFILES), nd)
            idxs = _idxs(rng, nd, B)
        steps.append({"nd": nd, "la": la, "lb": lb, "idxs": idxs})
    return {"fam": "padhist", "builder": builder, "mode": " ".join(mode), "sample_ctx": sample_ctx, "ret_ctx": ret_ctx,
            "same_shape": same, "steps": steps, "trail": rng.choice([[], [], [1], [3], [2, 2]])}


def gen_cases(run):
    total = run.n(9000, 400000)
    rng = run.rng
    for i in range(total):
        if i % 8 == 7:
            yield _gen_shared(rng, i // 8)
            continue
        if i % 8 == 3:
            yield _gen_padhist(rng, i // 8)
            continue
        spec = _gen_pipe(rng, i // 2) if i % 2 == 0 else _gen_pad(rng, i // 2)
        if spec["B"] < 2 and len(spec["mode"].split(" ")) < 2:
            spec["_trivial"] = True
        yield spec


# ------------------------------------------------------------------------------------------------ reference model
def _edit_raw(samples, mode_items, item, k):
    if item is None or item not in mode_items:
        return [s for s in samples]
    p = mode_items.index(item)
    if len(mode_items) == 1:
        return [edit_value(s, k) for s in samples]
    return [tuple(edit_value(v, k) if j == p else v for j, v in enumerate(s)) for s in samples]


def _edit_collated(data, mode_items, item, k):
    if item is None or item not in mode_items:
        return data
    p = mode_items.index(item)
    if len(mode_items) == 1:
        return edit_value(data, k)
    return [edit_value(v, k) if j == p else v for j, v in enumerate(data)]


def _model(members, mode_items, raw):
    """-> dict(refuse_at, inputs=[(stage, data)], out, trigger=[mode of the member that caused collation, its index])"""
    stage, data, inputs, trigger = "raw", list(raw), [], None
    for k, m in enumerate(members):
        cm = m["cmode"]
        if cm == "before":
            if stage == "raw":
                data, stage, trigger = default_collate(data), "collated", ("before", k)
            inputs.append((stage, data))
            data = _edit_collated(data, mode_items, m["op"], k)
        else:
            if stage == "collated":
                return {"refuse_at": k, "inputs": inputs, "out": None, "trigger": trigger}
            inputs.append((stage, data))
            data = _edit_raw(data, mode_items, m["op"], k)
            if cm is None and m.get("raw"):
                continue  # per-sample member: the batch stays raw, the members behind it decide the collation point
            data = default_collate(data)
            stage, trigger = "collated", (("after" if cm == "after" else "none"), k)
    return {"refuse_at": None, "inputs": inputs, "out": data, "trigger": trigger}


def _ref_ctx(ctxs):
    keys = set()
    for c in ctxs:
        keys |= set(c)
    return {k: default_collate([c[k] for c in ctxs]) for k in sorted(keys)}


# ------------------------------------------------------------------------------------------------ helpers
def _guarded(run, fn, refusal_class, key, what):
    """DESIGN 1.2 taxonomy with a mechanism key chosen by the caller. -> ('ok', value) | ('refused', exc) | ('failed', exc)"""
    try:
        return "ok", fn()
    except core.StepBudgetExceeded:
        raise
    except Exception as e:  # noqa: BLE001
        kind, where = core.classify_exception(e)
        if kind == "guard" and refusal_class is not None:
            run.refusal(refusal_class)
            return "refused", e
        k = key(e, kind) if callable(key) else key
        label = "refused an in-domain input" if kind == "guard" else "crashed"
        run.violation(k, f"{what}: {label}: {type(e).__name__}: {e} at {where}\n{core.short_tb(e)}")
        return "failed", e


def _unchanged(run, desc, batch, given):
    """the caller's sample objects (incl. their per-sample ctx dicts) are as they were before the call"""
    run.count("caller_objects_checked")
    if len(batch) == len(given) and cv(batch) == cv(given) and _dict_orders(batch) == _dict_orders(given):
        return True
    j = next((i for i in range(min(len(batch), len(given))) if cv(batch[i]) != cv(given[i]) or _dict_orders(batch[i]) != _dict_orders(given[i])), None)
    run.violation(K_MUTATED, f"{desc}: the call changed the caller's sample objects: sample {j} was {describe(given[j]) if j is not None else len(given)}, "
                             f"is now {describe(batch[j]) if j is not None else len(batch)}")
    return False


def _dict_orders(v):
    if isinstance(v, dict):
        return [list(v.keys())] + [_dict_orders(x) for x in v.values()]
    if isinstance(v, (list, tuple)):
        return [_dict_orders(x) for x in v]
    return None


def _try_collate(v):
    try:
        return default_collate(v)
    except Exception:  # noqa: BLE001
        return None


def _split(batch, has_ctx):
    """harness-side view of the samples: item parts and ctx parts (copies, taken before the collator runs)"""
    if has_ctx:
        return [snap(s[0]) for s in batch], [snap(s[1]) for s in batch]
    return [snap(s) for s in batch], None


def _build_batch(run, spec, has_ctx):
    ds = SeqDS(spec["la"] if isinstance(spec["la"], list) else [spec["la"]] * spec["nd"],
               spec["lb"] if isinstance(spec["lb"], list) else [spec["lb"]] * spec["nd"], trail=spec["trail"])
    st, mw = _guarded(run, lambda: ModeWrapper(ds, mode=spec["mode"], return_ctx=has_ctx), None, "modewrapper:crash",
                      f"ModeWrapper(mode={spec['mode']!r}, return_ctx={has_ctx})")
    if st != "ok":
        return None
    st, batch = _guarded(run, lambda: [mw[i] for i in spec["idxs"]], None, "modewrapper:crash", "ModeWrapper.__getitem__")
    return batch if st == "ok" else None


# ------------------------------------------------------------------------------------------------ fluent setters / reconfiguration
K_FLUENT = "fluent:returned-object-not-equivalent"
K_RECONF = "reconfigured:call-does-not-follow-attributes"


K_FLAG = "return_ctx:non-bool-flag-not-used-by-truth-value"
K_MUTATED = "caller-objects:samples-or-ctx-dicts-mutated"
K_REPEAT = "repeat:same-samples-collated-again-differ"
FLAG_KINDS = ("int", "npbool", "npany")


def _flag(v, kind):
    """return_ctx as users hand it over: python bool, 1/0, np.bool_, the result of np.any(...)"""
    if kind == "int":
        return 1 if v else 0
    if kind == "npbool":
        return np.bool_(v)
    if kind == "npany":
        return np.any(np.array([bool(v), False]))
    return v


def _gen_extras(rng, builder, mode_items, spec):
    """(a) use what set_rng / worker_init_fn returns as the collate_fn; (b) build with another configuration and move to
    the final one through the public attributes (from outside, or in a subclass constructor after super().__init__)"""
    r = rng.random()
    if r < 0.12:
        spec["fluent"] = rng.choice(["set_rng", "set_rng", "worker_init_fn"])
    elif r < 0.27:
        spec["flag_kind"] = rng.choice(FLAG_KINDS)     # (c) return_ctx given as 1 / 0 / np.bool_ / np.any(...)
    elif r < 0.42:
        spec["repeat"] = rng.choice(["same", "other", "both"])  # (d) the same sample objects are collated again
    elif r < 0.62:
        third = "collators" if builder != "single" else None
        attrs = [a for a in ("return_ctx", "dataset_mode", third) if a and rng.random() < 0.6] or ["return_ctx"]
        other = list(reversed(mode_items)) if len(mode_items) > 1 and rng.random() < 0.5 else ["index"] if mode_items != ["index"] else ["class"]
        spec["reconf"] = {"attrs": attrs, "style": rng.choice(["assign", "subclass"]) if builder != "single" else "assign",
                          "mode0": " ".join(m for m in other if not m.startswith("ctx.")) or "index"}
    return spec


def _configured(cls, init_kwargs, overrides, style):
    if style == "subclass":
        class Sub(cls):
            def __init__(self):
                super().__init__(**init_kwargs)
                for k, v in overrides.items():
                    setattr(self, k, v)
        return Sub()
    obj = cls(**init_kwargs)
    for k, v in overrides.items():
        setattr(obj, k, v)
    return obj


def _initial_config(mode, ctx, reconf, kind=None):
    attrs = (reconf or {}).get("attrs", [])
    return (reconf["mode0"] if "dataset_mode" in attrs else mode), _flag((not ctx) if "return_ctx" in attrs else ctx, kind)


def _build_entry(builder, first, members, mode, ctx, reconf, make_decoy, kind=None):
    """the collate_fn under test. Without `reconf` it is constructed with (mode, ctx, members); with it, the attributes
    named in reconf['attrs'] are constructed with other values and then set to the final ones."""
    attrs = (reconf or {}).get("attrs", [])
    style = (reconf or {}).get("style", "assign")
    mode_c = reconf["mode0"] if "dataset_mode" in attrs else mode
    ctx_c = _flag((not ctx) if "return_ctx" in attrs else ctx, kind)
    ctx = _flag(ctx, kind)
    ov = {}
    if "dataset_mode" in attrs:
        ov["dataset_mode"] = mode
    if "return_ctx" in attrs:
        ov["return_ctx"] = ctx
    if builder == "single":
        # `first` was constructed by the caller with _initial_config(...) as its own dataset_mode / return_ctx
        for k, v in ov.items():
            setattr(first, k, v)
        return first
    if builder == "wrapper":
        inner = make_decoy() if "collators" in attrs else first
        if "collators" in attrs:
            ov["collator"] = first
        return _configured(KDSingleCollatorWrapper, dict(collator=inner, dataset_mode=mode_c, return_ctx=ctx_c), ov, style)
    cols = [make_decoy()] if "collators" in attrs else list(members)
    if "collators" in attrs:
        ov["collators"] = list(members)
    return _configured(KDComposeCollator, dict(collators=cols, dataset_mode=mode_c, return_ctx=ctx_c), ov, style)


def _apply_fluent(run, coll, fluent, desc):
    """-> (collate_fn to use, key override or None)"""
    if not fluent:
        return coll, None
    fn = (lambda: coll.set_rng(np.random.default_rng(5))) if fluent == "set_rng" else (lambda: coll.worker_init_fn(0))
    st, ret = _guarded(run, fn, None, "fluent:setter-crash", f"{desc}: {fluent}")
    if st != "ok":
        return None, None
    if ret is None:
        return coll, None
    run.count("fluent_returns_used")
    return ret, (K_FLUENT if ret is not coll else None)   # identity only picks the key, the verdict is behavioural


# ------------------------------------------------------------------------------------------------ pipe family
def _pipe_desc(spec):
    ms = ", ".join(("none-raw" if m.get("raw") else f"{m['cmode']}") + (f"(edits {m['op']})" if m["op"] else "") for m in spec["members"])
    return (f"{spec['builder']}[{ms}] mode={spec['mode']!r} return_ctx={spec['ctx']} B={spec['B']} idxs={spec['idxs']}")


def _judge(run, desc, coll, members, mspecs, mode, has_ctx, builder, batch, kover=None, out=None):
    """one call `coll(batch)` against the reference; `members` are the RecMember objects of the pipeline in order
    (their logs are reset here), `mspecs` their specs. -> True iff nothing was reported"""
    mode_items = mode.split(" ")
    n = len(mode_items)
    for m in members:
        m.log.clear(), m.flags.clear(), m.errors.clear()
    raw, ctxs = _split(batch, has_ctx)
    given = snap(batch)
    model = _model(mspecs, mode_items, raw)
    trig = model["trigger"][0] if model["trigger"] else "none"
    K_STATE = f"pipeline:collation-by-{trig}-member-not-remembered"

    def key(default):
        if kover is not None:
            return kover
        return K_WRAPPER if builder == "wrapper" else default

    expect_refusal = model["refuse_at"] is not None

    def crash_key(e, kind):
        if kover is not None or builder == "wrapper":
            return key(None)
        # members never raise (RecMember guards its own body), so the failure is the pipeline's. If it happens behind
        # the reference's collation point, the pipeline mishandled already collated data (second default collation,
        # second ctx split): one mechanism, whatever exception it surfaces as.
        logged = sum(1 for m in members if m.log)
        ms = mspecs
        if (has_ctx and 0 < logged < len(ms) and ms[logged]["cmode"] == "before"
                and all(m["cmode"] is None and m.get("raw") for m in ms[:logged])):
            # only reachable with KDV_C18_CTX_AFTER_RAW=1 (see ASSUMPTIONS)
            return "pipeline:ctx-split-twice-behind-raw-none-member"
        if model["trigger"] is not None and model["trigger"][1] < logged:
            return K_STATE
        return "pipeline:refused-in-domain" if kind == "guard" else "pipeline:crash"

    st, res = _guarded(run, lambda: coll(batch), REFUSAL if expect_refusal else None, crash_key, desc)
    if out is not None:
        out["st"], out["res"] = st, res
    if not _unchanged(run, desc, batch, given):
        return
    for k, m in enumerate(members):
        # only where the member was handed what the reference says (otherwise the helper was fed the pipeline's mistake)
        if not (len(m.log) == 1 and k < len(model["inputs"]) and eq(m.log[0]["input"], model["inputs"][k][1])):
            continue
        for f in m.flags[:1]:
            run.violation(key(K_SETITEM), f"{desc}: member {m.k} used ModeWrapper.set_item(mode={f['mode']!r}, item={f['item']!r}) on "
                                     f"{f['container']} and got {f['returned']} (container layout not kept; shared with C10/C01)")
    if st == "refused":
        run.count("order_refusals_checked")
        return True
    if st == "failed":
        return
    if expect_refusal:
        j = model["refuse_at"]
        run.violation(key(K_STATE), f"{desc}: member {j} ({mspecs[j]['cmode']}) needs raw samples but sits behind the collation "
                                    f"point (member {model['trigger'][1]}, {trig}); the pipeline neither refused nor delivered raw samples: "
                                    f"member {j} was handed {describe(members[j].log[0]['input']) if members[j].log else 'nothing'}, result {describe(res)}")
        return

    bad = False
    ref_ctx = _ref_ctx(ctxs) if has_ctx else {}
    # --- what every member was handed
    for k, m in enumerate(members):
        if len(m.log) != 1:
            run.violation(key("pipeline:member-call-count"), f"{desc}: member {k} was called {len(m.log)} times")
            return
        rec = m.log[0]
        stage, want = model["inputs"][k]
        if not eq(rec["input"], want):
            bad = True
            twice = _try_collate(want) if stage == "collated" else None
            if kover is not None or builder == "wrapper":
                kk = key(None)
                why = "was handed the collator's unprocessed input" if eq(rec["input"], given) else "was handed something else"
            elif twice is not None and eq(rec["input"], twice):
                kk, why = K_STATE, "was handed data that went through default collation twice"
            elif stage == "collated" and eq(rec["input"], raw):
                kk, why = "pipeline:collation-skipped", "asked for collated data but was handed the raw samples"
            elif stage == "raw" and eq(rec["input"], _try_collate(want)):
                kk, why = "pipeline:collated-too-early", "asked for raw samples but was handed collated data"
            elif has_ctx and eq(rec["input"], given):
                kk, why = "pipeline:ctx-not-split", "was handed (items, ctx) pairs instead of the item parts"
            else:
                kk, why = "pipeline:member-input", "was handed unexpected data"
            run.violation(kk, f"{desc}: member {k} ({mspecs[k]['cmode']}) {why}: got {describe(rec['input'])}, expected {stage} {describe(want)}")
            break
        run.count("member_inputs_checked")
        if rec["mode_arg"] != mode:
            bad = True
            run.violation(key("pipeline:dataset-mode-not-forwarded"), f"{desc}: member {k} got dataset_mode={rec['mode_arg']!r}")
            break
        if has_ctx:
            cin = rec["ctx_in"]
            miss = [kx for kx in ref_ctx if not (isinstance(cin, dict) and kx in cin and eq(cin[kx], ref_ctx[kx]))]
            if miss:
                bad = True
                run.violation(key("pipeline:member-ctx"), f"{desc}: member {k} did not receive the batched per-sample ctx entries {miss}: got {describe(cin)}")
                break
        if m.errors:
            raise RuntimeError(f"harness member {k} failed on expected input: {m.errors}")
    if bad:
        return

    # --- result structure: (batch, ctx) iff return_ctx
    if has_ctx:
        if not (isinstance(res, (tuple, list)) and len(res) == 2 and isinstance(res[1], dict)):
            run.violation(key("pipeline:return-ctx-structure"), f"{desc}: return_ctx=True but the result is not (batch, ctx): {describe(res)}")
            return
        out, octx = res
    else:
        out, octx = res, None
    want = model["out"]
    run.count("pipeline_outputs_checked")
    if not eq(out, want):
        twice = _try_collate(want)
        if kover is not None or builder == "wrapper":
            kk, why = key(None), "batch differs from the reference"
        elif twice is not None and eq(out, twice):
            kk, why = K_STATE, "batch went through default collation twice (stacked layout)"
        elif (not has_ctx) and isinstance(out, (tuple, list)) and len(out) == 2 and eq(out[0], want):
            kk, why = "pipeline:return-ctx-structure", "return_ctx=False but a (batch, ctx) pair came back"
        elif isinstance(out, (list, tuple)) != isinstance(want, (list, tuple)) or (isinstance(out, (list, tuple)) and len(out) != len(want)):
            kk, why = "pipeline:batch-layout", f"layout is not the mode's ({'bare' if n == 1 else f'sequence of {n}'})"
        else:
            kk, why = "pipeline:batch-content", "content/order differs from default collation + member edits"
        run.violation(kk, f"{desc}: {why}: got {describe(out)}, expected {describe(want)}")
        return
    if has_ctx:
        run.count("ctx_merges_checked")
        want_ctx = dict(ref_ctx)
        for k in range(len(members)):
            want_ctx[f"tag{k}"] = torch.tensor([k, 7])
            want_ctx[f"tagpy{k}"] = f"member{k}"
        lost = sorted(set(want_ctx) - set(octx))
        extra = sorted(set(octx) - set(want_ctx))
        if lost or extra:
            kk = "pipeline:ctx-keys-lost" if lost else "pipeline:ctx-keys-invented"
            run.violation(key(kk), f"{desc}: batched ctx lost keys {lost}, invented keys {extra}")
            return
        wrong = [kx for kx in want_ctx if not eq(octx[kx], want_ctx[kx])]
        if wrong:
            kx = wrong[0]
            run.violation(key("pipeline:ctx-values"), f"{desc}: ctx[{kx!r}] = {describe(octx[kx])}, expected {describe(want_ctx[kx])} (per-sample values in sample order)")
            return
    run.sample({"case": desc, "result": describe(res)[:300]}, cap=3)
    return True




def _run_pipe(run, spec):
    mode, has_ctx, builder = spec["mode"], spec["ctx"], spec["builder"]
    mode_items = mode.split(" ")
    n = len(mode_items)
    desc = _pipe_desc(spec)
    run.cover("pipe", builder, spec["order"], has_ctx, min(n, 2))
    run.cover("pipe-B", spec["B"], min(n, 3), has_ctx)
    batch = _build_batch(run, spec, has_ctx)
    if batch is None:
        return
    mspecs = spec["members"]
    reconf, fluent, kind, repeat = spec.get("reconf"), spec.get("fluent"), spec.get("flag_kind"), spec.get("repeat")

    def build(builder):
        mode_c, ctx_c = _initial_config(mode, has_ctx, reconf, kind)
        members = [RecMember(k, m["cmode"], m["op"], keep_raw=bool(m.get("raw")), **({"dataset_mode": mode_c, "return_ctx": ctx_c} if builder == "single" else {}))
                   for k, m in enumerate(mspecs)]
        st, coll = _guarded(run, lambda: _build_entry(builder, members[0], members, mode, has_ctx, reconf, lambda: RecMember(9, "before", None), kind),
                            None, kover or (K_WRAPPER if builder == "wrapper" else "pipeline:constructor"), f"constructing {desc}")
        return (coll, members) if st == "ok" else (None, members)

    if reconf:
        desc += f" [built with other {reconf['attrs']} (dataset_mode {reconf['mode0']!r}), then set via attributes, style {reconf['style']}]"
        run.cover("reconf", builder, tuple(reconf["attrs"]), reconf["style"])
    if fluent:
        desc += f" [collate_fn = what {fluent}() returned, if anything]"
        run.cover("fluent", builder, fluent)
    if kind:
        desc += f" [return_ctx handed over as {_flag(has_ctx, kind)!r} ({type(_flag(has_ctx, kind)).__name__})]"
        run.cover("flag", builder, kind, has_ctx)
    kover = K_RECONF if reconf else K_FLAG if kind else None
    coll, members = build(builder)
    if coll is None:
        return
    coll, kfl = _apply_fluent(run, coll, fluent, desc)
    if coll is None:
        return
    if reconf:
        run.count("reconfigured_calls_checked")
    if kind:
        run.count("nonbool_flag_calls_checked")
    first = {}
    ok = _judge(run, desc, coll, members, mspecs, mode, has_ctx, builder, batch, kover=kfl or kover, out=first)
    if not (repeat and ok and first.get("st") == "ok"):
        return
    # (d) the same list of sample objects goes through the same pipeline again and / or through a second, separately built
    # pipeline (a second epoch over preloaded samples): judged against the reference again and equal to the first result
    run.cover("repeat", builder, repeat, has_ctx)
    again = []
    if repeat in ("same", "both"):
        again.append(("the same pipeline again", coll, members, builder))
    if repeat in ("other", "both"):
        b2 = "compose" if builder != "compose" or len(mspecs) > 1 else "wrapper"
        c2, m2 = build(b2)
        if c2 is None:
            return
        again.append((f"a second pipeline ({b2}) over the same sample objects", c2, m2, b2))
    for what, c, ms, bld in again:
        second = {}
        d2 = f"{desc}; {what}"
        if not _judge(run, d2, c, ms, mspecs, mode, has_ctx, bld, batch, kover=K_REPEAT, out=second):
            return
        run.count("repeated_collations_checked")
        if not eq(second.get("res"), first["res"]):
            run.violation(K_REPEAT, f"{d2}: result {describe(second.get('res'))} differs from the first result {describe(first['res'])}")
            return


# ------------------------------------------------------------------------------------------------ pad family
def _pad_desc(spec):
    return (f"PadSequencesCollator via {spec['builder']} mode={spec['mode']!r} samples_with_ctx={spec['sample_ctx']} "
            f"return_ctx={spec['ret_ctx']} B={spec['B']} idxs={spec['idxs']} la={spec['la']} lb={spec['lb']} trail={spec['trail']}")


def _pad_fields(raw, n):
    fields = [[s for s in raw]] if n == 1 else [[s[j] for s in raw] for j in range(n)]
    return fields, [torch.is_tensor(f[0]) and f[0].ndim > 0 for f in fields]


def _pad_verify(run, desc, key, mode_items, sctx, raw, ctxs, res):
    """the padding oracle for one returned result against the samples that went in. -> True iff nothing was reported"""
    n = len(mode_items)
    fields, is_seq = _pad_fields(raw, n)
    # samples that carry ctx come back as (batch, ctx) (pinned by the repository's tests also for return_ctx=False)
    if sctx:
        if not (isinstance(res, (tuple, list)) and len(res) == 2 and isinstance(res[1], dict)):
            run.violation(key("pad:return-ctx-structure"), f"{desc}: samples carry ctx but the result is not (batch, ctx): {describe(res)}")
            return
        out, octx = res
    else:
        out, octx = res, None
    if n == 1:
        outs = [out]  # bare: the field oracle below compares it as a whole (a str field collates to a list of str)
    else:
        if not (isinstance(out, (tuple, list)) and len(out) == n):
            run.violation(key("pad:layout"), f"{desc}: mode has {n} items, batch is {describe(out)}")
            return
        outs = list(out)
    B = len(raw)
    for j, (f, o) in enumerate(zip(fields, outs)):
        name = mode_items[j]
        if is_seq[j]:
            run.count("pad_fields_checked")
            lmax = max(t.shape[0] for t in f)
            want_shape = (B, lmax) + tuple(f[0].shape[1:])
            if not torch.is_tensor(o) or tuple(o.shape) != want_shape or o.dtype != f[0].dtype:
                run.violation(key("pad:length"), f"{desc}: field {name!r}: expected a {f[0].dtype} tensor of shape {want_shape} (batch maximum {lmax}), got {describe(o)}")
                return
            for b, t in enumerate(f):
                L = t.shape[0]
                if not torch.equal(o[b, :L], t):
                    run.violation(key("pad:content"), f"{desc}: field {name!r}, sample {b}: the first {L} entries are {describe(o[b, :L])}, original {describe(t)}")
                    return
                if o[b, L:].numel() and bool((o[b, L:] != 0).any()):
                    run.violation(key("pad:zeros"), f"{desc}: field {name!r}, sample {b}: entries behind position {L} are not all zero: {describe(o[b, L:])}")
                    return
        else:
            run.count("pad_other_fields_checked")
            run.cover("pad-other-field", name, n == 1, sctx)
            want = default_collate(f)
            if not eq(o, want) or type(o) is not type(want):
                run.violation(key("pad:other-field"), f"{desc}: field {name!r} (items {f[:4]!r}) is {describe(o)}, default collation of the same items gives {describe(want)} (dtype and container are part of the comparison)")
                return
    if sctx:
        run.count("pad_ctx_checked")
        want_ctx = _ref_ctx(ctxs)
        if set(octx) != set(want_ctx):
            run.violation(key("pad:ctx-keys"), f"{desc}: ctx keys {sorted(octx)} vs per-sample keys {sorted(want_ctx)}")
            return
        wrong = [k for k in want_ctx if not eq(octx[k], want_ctx[k])]
        if wrong:
            run.violation(key("pad:ctx-values"), f"{desc}: ctx[{wrong[0]!r}] = {describe(octx[wrong[0]])}, expected {describe(want_ctx[wrong[0]])}")
            return
    run.sample({"case": desc, "result": describe(res)[:300]}, cap=6)
    return True


def _run_pad(run, spec):
    mode, sctx, rctx, builder = spec["mode"], spec["sample_ctx"], spec["ret_ctx"], spec["builder"]
    mode_items = mode.split(" ")
    n = len(mode_items)
    desc = _pad_desc(spec)
    batch = _build_batch(run, spec, sctx)
    if batch is None:
        return
    raw, ctxs = _split(batch, sctx)
    fields, is_seq = _pad_fields(raw, n)
    run.cover("pad", builder, sctx, rctx, min(n, 3), spec["profile"], min(spec["B"], 2), any(is_seq))

    reconf, fluent = spec.get("reconf"), spec.get("fluent")
    kind, repeat = spec.get("flag_kind"), spec.get("repeat")
    mode_c, ctx_c = _initial_config(mode, rctx, reconf, kind)
    given = snap(batch)
    if reconf:
        desc += f" [built with other {reconf['attrs']} (dataset_mode {reconf['mode0']!r}), then set via attributes, style {reconf['style']}]"
        run.cover("reconf-pad", builder, tuple(reconf["attrs"]), reconf["style"])
    if fluent:
        desc += f" [collate_fn = what {fluent}() returned, if anything]"
        run.cover("fluent-pad", builder, fluent)
    if kind:
        desc += f" [return_ctx handed over as {_flag(rctx, kind)!r} ({type(_flag(rctx, kind)).__name__})]"
        run.cover("flag-pad", builder, kind, rctx)
    kov = [K_RECONF if reconf else K_FLAG if kind else None]

    def construct():
        pad = PadSequencesCollator(**({"dataset_mode": mode_c, "return_ctx": ctx_c} if builder == "single" else {}))
        return _build_entry(builder, pad, [pad], mode, rctx, reconf, lambda: RecMember(9, "before", None), kind)

    bare_nonseq = n == 1 and not is_seq[0]

    def key(default):
        if kov[0] is not None:
            return kov[0]
        return K_WRAPPER if builder == "wrapper" else default

    def crash_key(e, kind):
        if kov[0] is not None or builder == "wrapper":
            return key(None)
        if bare_nonseq:
            return K_PAD_BARE
        return "pad:refused-in-domain" if kind == "guard" else "pad:crash"

    st, coll = _guarded(run, construct, None, key("pad:constructor"), f"constructing {desc}")
    if st != "ok":
        return
    coll, kfl = _apply_fluent(run, coll, fluent, desc)
    if coll is None:
        return
    kov[0] = kfl or kov[0]
    if reconf:
        run.count("reconfigured_calls_checked")
    if kind:
        run.count("nonbool_flag_calls_checked")
    st, res = _guarded(run, lambda: coll(batch), None, crash_key, desc)
    if not _unchanged(run, desc, batch, given) or st != "ok":
        return
    if not _pad_verify(run, desc, key, mode_items, sctx, raw, ctxs, res) or not repeat:
        return
    # the same sample objects go through the same collator again and / or through a second, separately built one
    run.cover("repeat-pad", builder, repeat, sctx)
    again = [("the same collator again", coll)] if repeat in ("same", "both") else []
    if repeat in ("other", "both"):
        st, c2 = _guarded(run, construct, None, key("pad:constructor"), f"constructing a second {desc}")
        if st != "ok":
            return
        again.append(("a second collator over the same sample objects", c2))
    kov[0] = K_REPEAT
    for what, c in again:
        d2 = f"{desc}; {what}"
        st, res2 = _guarded(run, lambda: c(batch), None, crash_key, d2)
        if not _unchanged(run, d2, batch, given) or st != "ok":
            return
        if not _pad_verify(run, d2, key, mode_items, sctx, raw, ctxs, res2):
            return
        run.count("repeated_collations_checked")
        if not eq(res2, res):
            run.violation(K_REPEAT, f"{d2}: result {describe(res2)} differs from the first result {describe(res)}")
            return


K_PAD_STATE = "pad:state-carried-between-batches"


def _pad_collator(builder, mode, rctx):
    if builder == "single":
        return PadSequencesCollator(dataset_mode=mode, return_ctx=rctx)
    if builder == "wrapper":
        return KDSingleCollatorWrapper(PadSequencesCollator(), dataset_mode=mode, return_ctx=rctx)
    return KDComposeCollator([PadSequencesCollator()], dataset_mode=mode, return_ctx=rctx)


def _run_padhist(run, spec):
    """a history of batches through one collator instance; every returned (batch, ctx) is kept - as a prefetching
    DataLoader does - and all of them are verified only after the last call"""
    mode, sctx, rctx, builder = spec["mode"], spec["sample_ctx"], spec["ret_ctx"], spec["builder"]
    mode_items = mode.split(" ")
    n = len(mode_items)
    run.cover("padhist", builder, sctx, rctx, min(n, 2), spec["same_shape"], len(spec["steps"]))

    def key(default):
        return K_WRAPPER if builder == "wrapper" else default

    head = (f"PadSequencesCollator via {builder} mode={mode!r} samples_with_ctx={sctx} return_ctx={rctx} trail={spec['trail']}, "
            f"{len(spec['steps'])} batches through one instance")
    st, coll = _guarded(run, lambda: _pad_collator(builder, mode, rctx), None, key("pad:constructor"), f"constructing {head}")
    if st != "ok":
        return
    kept = []
    for t, step in enumerate(spec["steps"]):
        bspec = dict(spec, **step)
        batch = _build_batch(run, bspec, sctx)
        if batch is None:
            return
        raw, ctxs = _split(batch, sctx)
        desc = f"{head}; batch {t}: idxs={step['idxs']} la={step['la']} lb={step['lb']}"
        given = snap(batch)
        st, res = _guarded(run, lambda: coll(batch), None, lambda e, kind: key("pad:refused-in-domain" if kind == "guard" else "pad:crash"), desc)
        if not _unchanged(run, desc, batch, given) or st != "ok":
            return
        kept.append((t, bspec, desc, raw, ctxs, res))
    for t, bspec, desc, raw, ctxs, res in kept:
        probe = _probe(run)
        _pad_verify(probe, desc + f" (verified after all {len(kept)} calls)", key, mode_items, sctx, raw, ctxs, res)
        if not probe.violations:
            run.counters.update(probe.counters)
            run.count("pad_history_results_checked")
            _probes.append(probe)
            continue
        # differential classification: the same batch through a fresh instance. Fails there too -> an ordinary padding
        # defect (its own key); only fails in the history -> state carried from one batch to another
        iso = _probe(run)
        try:
            b2 = _build_batch(iso, bspec, sctx)
            r2, c2 = _split(b2, sctx)
            _pad_verify(iso, desc + " [same batch, fresh collator]", key, mode_items, sctx, r2, c2, _pad_collator(builder, mode, rctx)(b2))
        except Exception:  # noqa: BLE001
            iso.violations.append(probe.violations[0])
        if iso.violations:
            run.violation(iso.violations[0]["key"], iso.violations[0]["what"])
        else:
            v = probe.violations[0]
            run.violation(K_PAD_STATE, f"{v['what']}\n(the same batch through a fresh collator instance is correct; first reported as {v['key']})")
        return


# ------------------------------------------------------------------------------------------------ shared-member family
K_SHARED = "shared-member:entry-point-config-not-its-own"


_probes = []


def _probe(run):
    """a scratch Run that only collects what `_judge` reports (recycled: constructing a Run re-reads known_findings.json)"""
    from collections import Counter
    p = _probes.pop() if _probes else core.Run(run.pid, run.tier, run.seed, run.level)
    p.known, p.counters, p.refusals, p.violations, p.known_hits, p.samples = {}, Counter(), Counter(), [], Counter(), []
    p.classes = set()
    p._cur_spec = run._cur_spec
    return p


def _run_shared(run, spec):
    """several entry points over one member instance, called in interleaved order: each must behave by ITS OWN
    dataset_mode / return_ctx (the same oracle as the pipe family, per call)"""
    ms = spec["member"]
    own = next((e for e in spec["entries"] if e["kind"] == "single"), None)
    shared = RecMember(0, ms["cmode"], ms["op"], **({"dataset_mode": own["mode"], "return_ctx": own["ctx"]} if own else {}))
    run.cover("shared", tuple(sorted(e["kind"] for e in spec["entries"])), ms["cmode"], own is not None)
    built = []
    for j, e in enumerate(spec["entries"]):
        members, mspecs = [shared], [ms]
        if e.get("extra"):
            members.append(RecMember(1, e["extra"]["cmode"], e["extra"]["op"]))
            mspecs.append(e["extra"])

        def construct(e=e, members=members):
            if e["kind"] == "single":
                return shared
            if e["kind"] == "wrapper":
                return KDSingleCollatorWrapper(shared, dataset_mode=e["mode"], return_ctx=e["ctx"])
            return KDComposeCollator(list(members), dataset_mode=e["mode"], return_ctx=e["ctx"])

        st, coll = _guarded(run, construct, None, K_SHARED, f"constructing entry point {j} {e}")
        if st != "ok":
            return
        built.append((coll, members, mspecs))
    layout = ", ".join(f"#{j}:{e['kind']}(mode={e['mode']!r}, return_ctx={e['ctx']})" for j, e in enumerate(spec["entries"]))
    for c, call in enumerate(spec["calls"]):
        e = spec["entries"][call["e"]]
        coll, members, mspecs = built[call["e"]]
        bspec = dict(spec, mode=e["mode"], idxs=call["idxs"])
        batch = _build_batch(run, bspec, e["ctx"])
        if batch is None:
            return
        desc = (f"one {ms['cmode']} member (edits {ms['op']}) behind entry points [{layout}], built in that order; call {c} of "
                f"{[x['e'] for x in spec['calls']]} goes to #{call['e']} with idxs={call['idxs']}")
        probe = _probe(run)
        _judge(probe, desc, coll, members, mspecs, e["mode"], e["ctx"], e["kind"], batch, kover=K_SHARED)
        if not probe.violations:
            run.counters.update(probe.counters)
            run.refusals.update(probe.refusals)
            run.count("shared_entry_calls_checked")
            _probes.append(probe)
            continue
        # differential classification: the same entry point alone, around a fresh member. Fails there too -> an ordinary
        # pipeline defect (its own key); only fails here -> the entry point did not behave by its own configuration
        iso = _probe(run)
        fresh = [RecMember(k, m["cmode"], m["op"], **({"dataset_mode": e["mode"], "return_ctx": e["ctx"]} if e["kind"] == "single" else {}))
                 for k, m in enumerate(mspecs)]
        try:
            icoll = (fresh[0] if e["kind"] == "single" else
                     KDSingleCollatorWrapper(fresh[0], dataset_mode=e["mode"], return_ctx=e["ctx"]) if e["kind"] == "wrapper" else
                     KDComposeCollator(fresh, dataset_mode=e["mode"], return_ctx=e["ctx"]))
            _judge(iso, desc + " [same entry point alone]", icoll, fresh, mspecs, e["mode"], e["ctx"], e["kind"],
                   _build_batch(iso, bspec, e["ctx"]))
        except Exception:  # noqa: BLE001
            pass
        for v in (iso.violations or probe.violations)[:1]:
            run.violation(v["key"], v["what"])
        return


def run_case(run, spec):
    fn = {"pipe": _run_pipe, "shared": _run_shared, "padhist": _run_padhist, "pad": _run_pad}[spec["fam"]]
    extras = ("reconf", "fluent", "flag_kind", "repeat")
    if not any(spec.get(k) for k in extras):
        return fn(run, spec)
    # differential classification: a case with a fluent setter / reconfiguration that fails is re-run plainly built. Fails
    # there too -> an ordinary defect under its own key; only fails here -> the fluent / reconfiguration mechanism
    pr = _probe(run)
    fn(pr, spec)
    if not pr.violations:
        run.counters.update(pr.counters)
        run.refusals.update(pr.refusals)
        run.classes.update(pr.classes)
        for smp in pr.samples:
            run.sample(smp)
        _probes.append(pr)
        return
    plain = _probe(run)
    fn(plain, {k: v for k, v in spec.items() if k not in extras})
    for v in (plain.violations or pr.violations)[:2]:
        run.violation(v["key"], v["what"])
