"""C12 — rank-aware samplers split one global epoch draw evenly and reproducibly.

Observed at the API boundary only: `len(S_r)` and `list(S_r)` of *separate* sampler instances for every rank r of a
world of size W (the way W processes would build them), after `set_epoch(e)`, against the reference global draw
D = the stream of the W=1 sampler with equal arguments / seed / epoch.

Oracle (from the property text, not from the code):
  * every rank yields exactly len(S_r) valid indices, all ranks the same number;
  * the interleaving G[k*W + r] = L_r[k] agrees with D on their common prefix; if G is shorter, fewer than W trailing
    entries of D are missing; if longer, fewer than W entries were added and they are D wrapped around
    (G[j] == D[j mod len(D)]); for the torch-derived DistributedSampler drop_last decides which of the two happens;
  * equal (seed, epoch) reproduce the streams (fresh instance, same instance iterated again, after visiting other
    epochs, under arbitrary process-global RNG states, in any rank order);
  * a different epoch gives a different D (only asserted where a coincidence has probability <= 1e-15, see P_MAX);
  * repeated augmentation (DistributedSampler / RandomSampler): D consists of runs of num_repeats equal entries (last
    run possibly cut) whose heads are pairwise distinct, len(D) == len(dataset);
  * rank / world size given explicitly are honoured whatever the process' own default process group says, and the
    defaults (rank=None) resolve to the process group's rank / world size at the time the sampler is built (driven
    through torch's single-process "fake" process group; every such case asks the library without a group, creates the
    group, asks again, destroys it and asks again, so a stale answer in either direction is observable; while the group
    exists LOCAL_RANK / RANK / WORLD_SIZE are set to values that contradict it - the group decides);
  * partially explicit arguments (only rank given / only world size given): the given one is honoured, the omitted one
    is the process group's (or rank 0 / world size 1 without a group) - len and stream equal the fully explicit sampler;
  * cross-process: the streams of (configuration, seed, epoch, rank) computed in a fresh interpreter with another
    PYTHONHASHSEED equal the ones computed in this process (ranks live in different processes; a run is restarted).
"""
from __future__ import annotations

import importlib
import itertools
import math
import operator
import json
import os
import random as _pyrandom
import subprocess
import sys

import torch

from kappadata.samplers.class_balanced_sampler import ClassBalancedSampler
from kappadata.samplers.distributed_sampler import DistributedSampler
from kappadata.samplers.random_sampler import RandomSampler
from kappadata.samplers.weighted_sampler import WeightedSampler

from . import core
from .harness import Leaf, StepBudget, call_real, codes_of

LEVEL = "exploration"
RULE = ("per sampler kind (distributed / classbalanced / weighted / random / ambient-process-group) random configurations: "
        "dataset size 1..50 biased to n<W, n==W, n%W==0, n%W!=0, world size 1..8, all ranks, epoch schedules of 1..4 entries "
        "from 0..3 (with repeats and re-iteration), seeds, num_repeats 1..4, drop_last on/off, shuffle on/off, label layouts "
        "/ samples_per_class / weights incl. zeros / size; a case = one configuration with all its ranks and its schedule; "
        "non-trivial = n >= 2; distinct by full spec")
ASSUMPTIONS = [
    "the reference global draw D is the stream of the world_size=1 sampler with equal arguments, seed and epoch (DESIGN C12)",
    "a different epoch must give a different draw only with shuffling on and where a coincidence has probability <= 1e-15 "
    "under the model 'a shuffled draw is uniform over the orderings of its (per-class) distinct entries' / sequential "
    "weighted sampling without replacement; union bound over all comparisons of a run is reported and stays < 1e-9",
    "DistributedSampler: drop_last=True never pads, drop_last=False never drops (torch documentation); for the class-balanced "
    "and weighted samplers either a < W tail cut or a < W wrap-around is accepted (the property allows both)",
    "not driven (property silent / repository guards): empty datasets, num_repeats>1 with shuffle=False outside the enumerated "
    "refusal class, class-balanced datasets with absent classes or samples_per_class=0, weighted size=0 / size>len / fewer "
    "non-zero weights than requested draws, RandomSampler(num_samples=...); with replacement=True the run heads need not be distinct, seed "
    "dependence of the draw (only (seed, epoch) reproduction is claimed), what an unshuffled draw looks like",
    "cross-process reproduction is observed for a handful of configurations per run (3 child interpreters in quick, 5 per shard in "
    "thorough) with PYTHONHASHSEED 1, 2 and random values against this interpreter; a child that cannot be started, crashes or "
    "times out makes the run inconclusive",
    "while a process group is initialised, LOCAL_RANK / RANK / WORLD_SIZE / LOCAL_WORLD_SIZE that contradict it are ignored in "
    "favour of the group (not driven: environment variables without an initialised group)",
    "partially explicit arguments are driven only for valid combinations (rank < world size); DistributedSampler (torch) refuses "
    "an omitted rank / num_replicas without a process group, so it is driven with partial arguments only under the group",
    "the ambient-process-group cases need torch.testing._internal.distributed.fake_pg (single process, no network); if it "
    "is unavailable the run is inconclusive, not held",
]
MONITORS = ["rank_streams_observed", "partial_arguments_checked", "cross_process_streams_compared", "group_env_contradiction_checked", "repeat_runs_with_replacement_checked", "group_lifecycle_checked", "split_checked", "reproduction_checked", "epoch_difference_checked",
            "repeat_runs_checked", "pad_wraparound_checked", "tail_cut_checked", "step_budget_runs", "ambient_pg_checked"]

P_MAX = 1e-15  # per-comparison bound for the statistical clause "another epoch gives another draw"
KINDS = ["distributed", "classbalanced", "weighted", "random", "ambient"]
XPROC_TIMEOUT_S = 600   # generous: a child needs a few seconds; expiry is reported as inconclusive, never as a violation


# ------------------------------------------------------------------------------------------------ generation
def _n_w(rng):
    W = rng.choice([1, 2, 2, 3, 3, 4, 5, 6, 7, 8, 8])
    r = rng.random()
    if r < 0.22 and W > 1:
        n = rng.randint(1, W - 1)                       # n < W
        if rng.random() < 0.5:
            n = rng.randint(1, max(1, (W - 1) // 2))    # 2n < W: padding longer than the draw
    elif r < 0.30:
        n = W
    elif r < 0.45:
        n = W * rng.randint(1, max(1, 50 // W))         # divisible
    elif r < 0.55:
        n = rng.choice([1, 2, 3])
    elif r < 0.75:
        n = rng.randint(18, 50)                         # large enough for the epoch clause
    else:
        n = rng.randint(1, 50)
    return min(n, 50), W


def _schedule(rng):
    k = rng.choice([1, 2, 2, 3, 4])
    return [rng.randint(0, 3) for _ in range(k)]


def _classes(rng, n):
    """label layout with every class present (the sampler's own guard rejects absent classes)"""
    ncls = rng.randint(2, max(2, min(6, n)))
    if n < 2:
        return None
    style = rng.choice(["uniform", "skewed", "singleton", "big"])
    cls = list(range(ncls))
    if style == "uniform":
        cls += [rng.randrange(ncls) for _ in range(n - ncls)]
    elif style == "skewed":
        cls += rng.choices(range(ncls), weights=[1.0 / (1 + 3 * c) for c in range(ncls)], k=n - ncls)
    elif style == "singleton":
        cls += [rng.randrange(1, ncls) if ncls > 1 else 0 for _ in range(n - ncls)]
    else:
        cls += [0] * (n - ncls)
    rng.shuffle(cls)
    return ncls, cls


def _weights(rng, n, need_nonzero):
    style = rng.choice(["ones", "arange", "mild", "skewed", "zeros"])
    if style == "ones":
        w = [1.0] * n
    elif style == "arange":
        w = [float(i + 1) for i in range(n)]
    elif style == "mild":
        w = [round(rng.uniform(0.5, 2.0), 4) for _ in range(n)]
    elif style == "skewed":
        w = [round(10 ** rng.uniform(-2, 2), 5) for _ in range(n)]
    else:
        w = [round(rng.uniform(0.5, 2.0), 4) for _ in range(n)]
        nz = n - need_nonzero
        for i in rng.sample(range(n), rng.randint(0, max(0, nz))):
            w[i] = 0.0
    return style, w


def _one(rng, kind):
    n, W = _n_w(rng)
    spec = {"kind": kind, "n": n, "W": W, "seed": rng.choice([0, 0, 1, 5, rng.randrange(10 ** 6)]), "epochs": _schedule(rng),
            "g": rng.randrange(2 ** 31), "order": rng.randrange(2 ** 31), "again": rng.random() < 0.4}
    if kind == "ambient":
        spec["sub"] = rng.choice(["distributed", "classbalanced", "weighted"])
        spec["pgW"] = rng.choice([W, W, rng.randint(1, 8)])
        spec["pgrank"] = rng.choice([spec["pgW"] - 1, rng.randrange(spec["pgW"])])
        spec["epochs"] = spec["epochs"][:2]
        if rng.random() < 0.75:
            # launcher variables that contradict the group (LOCAL_RANK legitimately differs from the global rank on every
            # node but the first); the initialised group is the authority
            others = [r for r in range(8) if r != spec["pgrank"]]
            env = {"LOCAL_RANK": str(rng.choice(others))}
            if rng.random() < 0.7:
                env["RANK"] = str(rng.choice(others + [spec["pgrank"]]))
            if rng.random() < 0.7:
                env["WORLD_SIZE"] = str(rng.choice([w for w in range(1, 10) if w != spec["pgW"]]))
            if rng.random() < 0.3:
                env["LOCAL_WORLD_SIZE"] = str(rng.randint(1, 8))
            spec["env"] = env
    sub = spec.get("sub", kind)
    if sub == "distributed":
        spec["R"] = rng.choice([1, 1, 2, 3, 4])
        spec["drop_last"] = rng.random() < 0.5
        spec["shuffle"] = rng.random() < 0.8
        spec["container"] = rng.choice(["leaf", "list"])
    elif sub == "classbalanced":
        if n < 2:
            spec["n"] = n = rng.randint(2, 6)
        ncls, cls = _classes(rng, n)
        spec["ncls"], spec["classes"] = ncls, cls
        cmax = max(cls.count(c) for c in range(ncls))
        spec["spc"] = rng.choice([None, None, 1, rng.randint(1, cmax), rng.randint(1, 2 * cmax + 1)])
        spec["shuffle"] = rng.random() < 0.8
        spec["getall_kind"] = rng.choice(["list", "ndarray", "tensor"])
        spec["dim1"] = ncls == 2 and rng.random() < 0.3   # binary dataset announcing getdim_class() == 1
    elif sub == "weighted":
        size = rng.choice([None, None, rng.randint(1, n), n])
        spec["size"] = size
        spec["wstyle"], spec["weights"] = _weights(rng, n, size or n)
        spec["dtype"] = rng.choice(["float32", "float64"])
    elif sub == "random":
        spec["R"] = rng.choice([1, 2, 3, 4])
        spec["gen"] = rng.random() < 0.8
        spec["replacement"] = rng.random() < 0.45
        spec["W"] = 1
    if n < 2:
        spec["_trivial"] = True
    return spec


def _xproc_spec(rng, ncfg, hashseed):
    cfgs = []
    for j in range(ncfg):
        kind = ["weighted", "classbalanced", "distributed", "random"][j % 4]
        c = _one(rng, kind)
        for _ in range(6):
            if c["n"] >= (12 if j % 3 else 4):
                break
            c = _one(rng, kind)
        c.pop("_trivial", None)
        c["epochs"] = sorted(set(c["epochs"]))[:2]
        cfgs.append(c)
    return {"kind": "xproc", "hashseed": hashseed, "configs": cfgs}


def gen_cases(run):
    global _ASYNC
    _ASYNC = True          # generated runs overlap the children with the other cases; a replay runs its child synchronously
    total = run.n(3600, 160000)
    rng = run.rng
    nx = 3 if run.quick() else 5
    for j in range(nx):
        yield _xproc_spec(rng, 16 if run.quick() else 48, [1, 2][j] if j < 2 else rng.randrange(3, 2 ** 32))
    for i in range(total):
        kind = KINDS[i % len(KINDS)] if i < 6 * len(KINDS) else rng.choices(KINDS, weights=[5, 4, 4, 2, 2])[0]
        spec = _one(rng, kind)
        if i == 0:
            # the tiny-dataset padding path of repeated augmentation (2n < W) is always driven once
            spec.update(kind="distributed", n=2, W=6, R=3, drop_last=False, shuffle=True, container="list")
            for k in ("sub", "pgW", "pgrank", "ncls", "classes", "spc", "weights", "size", "wstyle", "dtype", "getall_kind", "dim1", "gen"):
                spec.pop(k, None)
            spec.pop("_trivial", None)
        yield spec


# ------------------------------------------------------------------------------------------------ helpers
def _seed_globals(seed):
    """put the three process-global RNGs into a state derived from `seed` (torch.manual_seed itself is slow: it records a
    stack trace for every lazily initialised accelerator backend; the CPU default generator is what a sampler could read)"""
    import random as pyrandom
    import numpy as np
    np.random.seed(seed % (2 ** 32))
    torch.default_generator.manual_seed(seed)
    pyrandom.seed(seed)


_codes = []


def _CODES():
    if not _codes:
        mods = [importlib.import_module("kappadata.samplers." + m) for m in
                ("distributed_sampler", "random_sampler", "class_balanced_sampler", "weighted_sampler")]
        mods += [importlib.import_module("kappadata.utils.distributed"), importlib.import_module("kappadata.utils.getall_as_tensor")]
        _codes.extend(codes_of(*mods))
    return _codes


def _eff(spec, sub):
    """upper bound for the length of the global draw (for caps / budgets only, never for a verdict)"""
    n = spec["n"]
    if sub == "classbalanced":
        cmax = max(spec["classes"].count(c) for c in range(spec["ncls"]))
        return spec["ncls"] * (spec["spc"] or cmax)
    return n


def _dataset(spec, sub):
    n = spec["n"]
    if sub == "classbalanced":
        return Leaf(n, classes=spec["classes"], n_classes=1 if spec.get("dim1") else spec["ncls"], getall_kind=spec["getall_kind"])
    if spec.get("container") == "list":
        return list(range(n))
    return Leaf(n)


def _make(spec, sub, ds, rank, W, defaults=False, omit=()):
    """the real sampler for one rank. `defaults` = leave rank / world size to the library (process group);
    `omit` = names of the arguments ("rank" / "world") left to the library while the other one is given"""
    omit = ("rank", "world") if defaults else tuple(omit)
    rw = {}
    if "rank" not in omit:
        rw["rank"] = rank
    if "world" not in omit:
        rw["num_replicas" if sub == "distributed" else "world_size"] = W
    if sub == "distributed":
        kw = dict(shuffle=spec["shuffle"], seed=spec["seed"], drop_last=spec["drop_last"], num_repeats=spec["R"])
        return DistributedSampler(ds, **kw, **rw)
    if sub == "classbalanced":
        kw = dict(shuffle=spec["shuffle"], samples_per_class=spec["spc"], seed=spec["seed"])
        return ClassBalancedSampler(ds, **kw, **rw)
    if sub == "weighted":
        w = torch.tensor(spec["weights"], dtype=getattr(torch, spec["dtype"]))
        kw = dict(size=spec["size"], seed=spec["seed"])
        return WeightedSampler(ds, w, **kw, **rw)
    raise ValueError(sub)


def _refusal(spec, sub):
    if sub == "distributed" and spec["R"] > 1 and not spec["shuffle"]:
        return "repeats-need-shuffle"
    return None


def _s(x, k=24):
    x = list(x)
    return str(x) if len(x) <= k else f"{x[:k]}… (len {len(x)})"


class _Abort(Exception):
    """the case cannot be continued (a violation was already recorded or an enumerated refusal happened)"""


def _stream(run, spec, sub, sampler, what, cap_hint):
    """(len(S), list(S)) of the real sampler under the logical step budget; indices normalised to python ints"""
    refusal = _refusal(spec, sub)

    def f():
        ln = len(sampler)
        cap = min(ln, 40 * (cap_hint + 8)) + 3     # an endless / overlong iterator is cut, the length check reports it
        return ln, list(itertools.islice(iter(sampler), cap))

    run.count("step_budget_runs")
    with StepBudget(200 * (cap_hint + 16) + 2000, _CODES(), what=what):
        ok, res = call_real(run, f, refusal_class=refusal, crash_key=f"{sub}:iter-crash", what=what)
    if not ok:
        raise _Abort()
    ln, raw = res
    out = []
    for v in raw:
        try:
            out.append(operator.index(v))
        except TypeError:
            run.violation(f"{sub}:non-integer-index", f"{what}: yielded {v!r} ({type(v).__name__}), not an index")
            raise _Abort()
    return ln, out


def _construct(run, spec, sub, fn, what):
    run.count("step_budget_runs")
    with StepBudget(200 * (spec["n"] + 16) + 2000, _CODES(), what=what):
        ok, s = call_real(run, fn, crash_key=f"{sub}:ctor-crash", what=what)
    if not ok:
        raise _Abort()
    return s


def _set_epoch(run, sub, s, e, what):
    ok, _ = call_real(run, lambda: s.set_epoch(e), crash_key=f"{sub}:set_epoch-crash", what=what)
    if not ok:
        raise _Abort()


def _log10_fact(d):
    return math.lgamma(d + 1) / math.log(10)


def _coincidence_log10(spec, sub, D):
    """log10 of an upper bound for P(another independent shuffled draw equals exactly D)"""
    if sub in ("distributed", "random"):
        return -_log10_fact(len(set(D)))
    if sub == "classbalanced":
        cls = spec["classes"]
        per = {}
        for i in set(D):
            per[cls[i]] = per.get(cls[i], 0) + 1
        return -sum(_log10_fact(d) for d in per.values())
    if sub == "weighted":
        w = [float(x) for x in torch.tensor(spec["weights"], dtype=getattr(torch, spec["dtype"])).double().tolist()]
        rest = math.fsum(w)
        lg = 0.0
        for i in D:
            if w[i] <= 0 or rest <= 0:
                return 0.0
            lg += math.log10(min(1.0, w[i] / rest))
            rest -= w[i]
            w[i] = 0.0
        return lg
    return 0.0


# ------------------------------------------------------------------------------------------------ oracles
def _check_valid(run, sub, L, n, what):
    bad = [v for v in L if not 0 <= v < n]
    if bad:
        run.violation(f"{sub}:index-out-of-range", f"{what}: indices {_s(bad)} outside range({n})")
        return False
    return True


def _check_split(run, spec, sub, lens, Ls, D, W, what):
    """the per-rank streams of one epoch against the reference global draw D"""
    n = spec["n"]
    V = run.violation
    for r in range(W):
        if len(Ls[r]) != lens[r]:
            V(f"{sub}:len-differs-from-stream", f"{what}: rank {r} announces len()={lens[r]} but yields {len(Ls[r])}{'+' if len(Ls[r]) > lens[r] else ''} indices")
            return
    if len(set(lens)) != 1:
        V(f"{sub}:ranks-unequal", f"{what}: per-rank lengths {lens}")
        return
    for r in range(W):
        if not _check_valid(run, sub, Ls[r], n, f"{what} rank {r}"):
            return
    m = lens[0]
    G = [Ls[j % W][j // W] for j in range(m * W)]
    run.count("split_checked")
    common = min(len(G), len(D))
    if G[:common] != D[:common]:
        j = next(i for i in range(common) if G[i] != D[i])
        V(f"{sub}:interleave-differs-from-global-draw",
          f"{what}: interleaved rank streams differ from the world_size=1 draw at global position {j} (rank {j % W}, slot {j // W}): "
          f"G={_s(G)} D={_s(D)} per-rank={[_s(x, 10) for x in Ls]}")
        return
    if len(G) < len(D):
        run.count("tail_cut_checked")
        if len(D) - len(G) >= W:
            V(f"{sub}:tail-cut-too-long", f"{what}: {len(D) - len(G)} >= world size {W} trailing entries of the global draw (len {len(D)}) are missing; per-rank len {m}")
            return
        if sub == "distributed" and not spec["drop_last"]:
            V(f"{sub}:drop_last-policy", f"{what}: drop_last=False but {len(D) - len(G)} trailing entries were dropped")
            return
    elif len(G) > len(D):
        run.count("pad_wraparound_checked")
        if len(G) - len(D) >= W:
            V(f"{sub}:over-padding", f"{what}: {len(G) - len(D)} >= world size {W} entries were added to the global draw (len {len(D)})")
            return
        wrapped = [D[j % len(D)] for j in range(len(D), len(G))]
        if G[len(D):] != wrapped:
            V(f"{sub}:padding-not-wraparound", f"{what}: excess {G[len(D):]} is not the global draw wrapped around {wrapped} (D={_s(D)})")
            return
        if sub == "distributed" and spec["drop_last"]:
            V(f"{sub}:drop_last-policy", f"{what}: drop_last=True but {len(G) - len(D)} entries were added")
            return
    else:
        run.count("exact_split_checked")


def _check_runs(run, sub, D, n, R, what, distinct_heads=True):
    """D = runs of R equal entries (slot k*R..(k+1)*R-1 constant, last run possibly cut); heads pairwise distinct unless the
    draw is with replacement (then a sample may be drawn again, also in the adjacent run)"""
    run.count("repeat_runs_checked")
    if len(D) != n:
        run.violation(f"{sub}:repeat-length", f"{what}: global draw has {len(D)} entries for a dataset of {n} (num_repeats={R})")
        return
    heads = []
    for a in range(0, n, R):
        chunk = D[a:a + R]
        if any(v != chunk[0] for v in chunk):
            run.violation(f"{sub}:repeat-runs", f"{what}: slots {a}..{a + len(chunk) - 1} of the global draw {_s(D)} are not {R} copies of one sample")
            return
        heads.append(chunk[0])
    if distinct_heads and len(set(heads)) != len(heads):
        run.violation(f"{sub}:repeat-heads-not-distinct", f"{what}: a sample occupies more than one run of the global draw {_s(D)} (num_repeats={R})")


def _reference(run, spec, sub, e, what, g):
    """D_e: fresh world_size=1 sampler, under the process-global RNG state derived from g"""
    _seed_globals(g)
    ds = _dataset(spec, sub)
    s = _construct(run, spec, sub, lambda: _make(spec, sub, ds, 0, 1), what + " W=1 ctor")
    _set_epoch(run, sub, s, e, what)
    ln, D = _stream(run, spec, sub, s, what + f" W=1 epoch={e}", _eff(spec, sub))
    if ln != len(D):
        run.violation(f"{sub}:len-differs-from-stream", f"{what}: world_size=1 sampler announces len()={ln} but yields {len(D)}{'+' if len(D) > ln else ''}")
        raise _Abort()
    if not _check_valid(run, sub, D, spec["n"], what + " W=1"):
        raise _Abort()
    return D


def _rank_aware(run, spec, sub, pg=None):
    """the whole oracle for one configuration. pg = (rank, world) of an initialised default process group or None"""
    n, W, seed = spec["n"], spec["W"], spec["seed"]
    rng = _pyrandom.Random(spec["order"])
    desc = {k: v for k, v in spec.items() if k not in ("classes", "weights", "g", "order", "kind")}
    what = f"{sub}{desc}"
    eff = _eff(spec, sub)

    # reference draws, computed WITHOUT a process group; twice per epoch under different global RNG states
    D = {}
    for e in sorted(set(spec["epochs"])):
        d1 = _reference(run, spec, sub, e, what, spec["g"] + 2 * e)
        d2 = _reference(run, spec, sub, e, what, spec["g"] + 2 * e + 1)
        run.count("reproduction_checked")
        if d1 != d2:
            run.violation(f"{sub}:not-reproducible", f"{what}: two fresh world_size=1 samplers with equal (seed={seed}, epoch={e}) under different process-global RNG states drew {_s(d1)} vs {_s(d2)}")
            raise _Abort()
        D[e] = d1
    return D, what, eff, rng


def _drive_ranks(run, spec, sub, D, what, eff, rng, tag=""):
    """persistent per-rank instances walked through the epoch schedule"""
    W = spec["W"]
    ds = [_dataset(spec, sub) for _ in range(W)] if rng.random() < 0.5 else [_dataset(spec, sub)] * W
    order = list(range(W))
    rng.shuffle(order)
    S = [None] * W
    for r in order:
        S[r] = _construct(run, spec, sub, lambda r=r: _make(spec, sub, ds[r], r, W), f"{what} rank {r} ctor")
    steps = []
    for e in spec["epochs"]:
        steps.append((e, True))
        if spec["again"]:
            steps.append((e, False))       # iterate again without announcing the epoch again
    for e, announce in steps:
        lens, Ls = [None] * W, [None] * W
        rng.shuffle(order)
        for r in order:
            _seed_globals(rng.randrange(2 ** 31))   # every process has its own global RNG state
            if announce:
                _set_epoch(run, sub, S[r], e, what)
            lens[r], Ls[r] = _stream(run, spec, sub, S[r], f"{what} rank {r} epoch={e}{tag}", eff)
            run.count("rank_streams_observed")
        _check_split(run, spec, sub, lens, Ls, D[e], W, f"{what} epoch={e}{tag}")
        if not announce:
            run.count("reproduction_checked")


def _epoch_clause(run, spec, sub, D, what):
    if not spec.get("shuffle", True):
        return
    es = sorted(D)
    for a, b in itertools.combinations(es, 2):
        lg = max(_coincidence_log10(spec, sub, D[a]), _coincidence_log10(spec, sub, D[b]))
        if lg > math.log10(P_MAX):
            run.count("epoch_difference_skipped_small_draw")
            continue
        run.count("epoch_difference_checked")
        run.notes["epoch_clause_false_alarm_union_bound"] = run.notes.get("epoch_clause_false_alarm_union_bound", 0.0) + P_MAX
        if D[a] == D[b]:
            run.violation(f"{sub}:epoch-ignored", f"{what}: epochs {a} and {b} give the identical global draw {_s(D[a])} (coincidence probability <= 1e{lg:.0f})")


def _covers(run, spec, sub):
    n, W = spec["n"], spec["W"]
    rel = "W1" if W == 1 else "n<W/2" if 2 * n < W else "n<W" if n < W else "n==W" if n == W else "div" if n % W == 0 else "nondiv"
    run.cover(spec["kind"], sub, rel, spec.get("R", 1) > 1, spec.get("drop_last"), spec.get("shuffle", True),
              len(set(spec["epochs"])) > 1)


# ------------------------------------------------------------------------------------------------ case execution
def run_case(run, spec):
    kind = spec["kind"]
    try:
        if kind == "xproc":
            _run_xproc(run, spec)
        elif kind == "random":
            _run_random(run, spec)
        elif kind == "ambient":
            _run_ambient(run, spec)
        else:
            _covers(run, spec, kind)
            D, what, eff, rng = _rank_aware(run, spec, kind)
            if kind == "distributed":
                for e, d in D.items():
                    _check_runs(run, kind, d, spec["n"], spec["R"], f"{what} epoch={e}")
            _epoch_clause(run, spec, kind, D, what)
            _drive_ranks(run, spec, kind, D, what, eff, rng)
            if spec["order"] % 2 == 0:
                _partial(run, spec, kind, _dataset(spec, kind), spec["epochs"][0], what, eff, None, "")
            if len(run.samples) < 6 and spec["W"] > 1 and spec["n"] > 3:
                e = spec["epochs"][0]
                run.sample({"sampler": kind, "n": spec["n"], "W": spec["W"], "epoch": e, "R": spec.get("R"), "drop_last": spec.get("drop_last"),
                            "global_draw_W1": D[e][:16]})
    except _Abort:
        pass


def _run_random(run, spec):
    n, R = spec["n"], spec["R"]
    repl = bool(spec.get("replacement", False))
    run.cover("random", R > 1, spec["gen"], min(n, 3), n % R == 0, repl)
    what = f"RandomSampler(n={n}, num_repeats={R}, replacement={repl}, generator={'seeded' if spec['gen'] else None})"
    draws = []
    for rep in range(2):
        _seed_globals(spec["g"] if not spec["gen"] else spec["g"] + rep)
        g = torch.Generator().manual_seed(spec["seed"]) if spec["gen"] else None
        ds = list(range(n))
        s = _construct(run, spec, "random", lambda: RandomSampler(ds, replacement=repl, num_repeats=R, generator=g), what + " ctor")
        ln, L = _stream(run, spec, "random", s, what, n)
        run.count("rank_streams_observed")
        if ln != len(L):
            run.violation("random:len-differs-from-stream", f"{what}: len()={ln} but {len(L)} indices yielded")
            return
        if not _check_valid(run, "random", L, n, what):
            return
        _check_runs(run, "random", L, n, R, what, distinct_heads=not repl)
        if repl:
            run.count("repeat_runs_with_replacement_checked")
        draws.append(L)
    run.count("reproduction_checked")
    if draws[0] != draws[1]:
        run.violation("random:not-reproducible", f"{what}: equal generator seed / equal global seed gave {_s(draws[0])} vs {_s(draws[1])}")


_fake = {}


def _fake_pg():
    if "mod" not in _fake:
        try:
            from torch.testing._internal.distributed.fake_pg import FakeStore
            import torch.distributed as dist
            _fake["mod"] = (dist, FakeStore)
        except Exception as e:  # pragma: no cover
            _fake["mod"] = None
            _fake["err"] = repr(e)
    return _fake["mod"]


def _helpers(run, what):
    """(is_distributed, rank, world size) as the library's public helpers report them; None if they are not there"""
    import kappadata.utils.distributed as kdd
    fns = [getattr(kdd, k, None) for k in ("is_distributed", "get_rank", "get_world_size")]
    if not all(callable(f) for f in fns):
        run.count("distributed_helpers_absent")
        return None
    run.count("step_budget_runs")
    with StepBudget(2000, _CODES(), what=what):
        ok, v = call_real(run, lambda: (bool(fns[0]()), operator.index(fns[1]()), operator.index(fns[2]())), crash_key="helpers:crash", what=what)
    if not ok:
        raise _Abort()
    return v


def _default_stream(run, spec, sub, ds, e, what, eff):
    s = _construct(run, spec, sub, lambda: _make(spec, sub, ds, None, None, defaults=True), what + " default-rank ctor")
    _set_epoch(run, sub, s, e, what)
    run.count("rank_streams_observed")
    return _stream(run, spec, sub, s, what + " default rank/world size", eff)


def _lifecycle_no_group(run, spec, sub, ds, e0, D, what, eff, phase):
    """no default process group (before one is created / after it was destroyed): the library must see rank 0 of 1"""
    key = "without-process-group" if phase == "before" else "stale-after-group-destroyed"
    h = _helpers(run, f"{what}: helpers {phase} the group")
    run.count("group_lifecycle_checked")
    if h is not None and h != (False, 0, 1):
        run.violation(f"helpers:{key}", f"{what}: no process group is initialised ({phase} the group's lifetime) but "
                                        f"(is_distributed, get_rank, get_world_size) = {h}")
        return False
    if sub in ("classbalanced", "weighted"):   # torch's DistributedSampler refuses defaults without a group
        ln, L = _default_stream(run, spec, sub, ds, e0, f"{what} [{phase} group]", eff)
        if (ln, L) != (len(D[e0]), D[e0]):
            run.violation(f"{sub}:defaults-{key}", f"{what}: no process group is initialised ({phase} the group's lifetime) but the sampler built "
                                                   f"without rank/world size yields len={ln} {_s(L)}, rank 0 of 1 yields len={len(D[e0])} {_s(D[e0])}")
            return False
    return _partial(run, spec, sub, ds, e0, what, eff, None, f" [{phase} group]")


def _partial(run, spec, sub, ds, e, what, eff, group, tag):
    """partially explicit arguments: the given one is honoured, the omitted one comes from the default process group
    (group = (rank, world size)) or, without a group, is rank 0 / world size 1. Reference = the fully explicit construction.
    Only valid combinations (rank < world size) are driven; torch's DistributedSampler needs a group for any omitted one."""
    if group is None and sub == "distributed":
        return True
    p0, W0 = group if group is not None else (0, 1)
    W = spec["W"]
    combos = []
    if p0 < W:
        combos.append(("world-given", ("rank",), p0, W))                     # world size given, rank omitted
    ranks = sorted({0, spec["order"] % W0, W0 - 1})
    for r in ranks:
        combos.append(("rank-given", ("world",), r, W0))                     # rank given, world size omitted
    state = f"process group rank {p0} of {W0}" if group is not None else "no process group"
    for name, omit, r, w in combos:
        given = f"world size={w}, rank omitted" if name == "world-given" else f"rank={r}, world size omitted"
        sp = dict(spec, W=w)
        ref = _construct(run, sp, sub, lambda: _make(sp, sub, ds, r, w), f"{what} explicit ({r},{w}) ctor")
        _set_epoch(run, sub, ref, e, what)
        want = _stream(run, sp, sub, ref, f"{what} explicit rank {r} of {w}{tag}", eff)
        s = _construct(run, sp, sub, lambda: _make(sp, sub, ds, r, w, omit=omit), f"{what} ({given}) ctor{tag}")
        _set_epoch(run, sub, s, e, what)
        got = _stream(run, sp, sub, s, f"{what} ({given}){tag}", eff)
        run.count("partial_arguments_checked")
        run.count("rank_streams_observed")
        run.cover("partial", sub, name, group is not None, r == 0, w == 1)
        if got != want:
            run.violation(f"{sub}:partial-explicit:{name}",
                          f"{what}{tag}: sampler built with {given} ({state}) yields len={got[0]} {_s(got[1])}; the fully explicit "
                          f"(rank={r}, world size={w}) construction yields len={want[0]} {_s(want[1])}")
            return False
    return True


def _run_ambient(run, spec):
    sub = spec["sub"]
    _covers(run, spec, sub)
    fp = _fake_pg()
    if fp is None:
        run.count("ambient_pg_unavailable")
        return
    dist, FakeStore = fp
    pgW, pgr = spec["pgW"], spec["pgrank"]
    run.cover("ambient", sub, pgr == 0, pgW == spec["W"])
    # references without a process group
    D, what, eff, rng = _rank_aware(run, spec, sub)
    what = f"{what} under process group (rank {pgr} of {pgW})"
    e0 = spec["epochs"][0]
    refs = dict(spec, W=pgW)
    ds = _dataset(spec, sub)
    s = _construct(run, refs, sub, lambda: _make(refs, sub, ds, pgr, pgW), what + " explicit reference ctor")
    _set_epoch(run, sub, s, e0, what)
    want_len, want = _stream(run, refs, sub, s, what + " explicit reference", eff)
    W = spec["W"]
    plain = []
    for r in range(W):
        sr = _construct(run, spec, sub, lambda r=r: _make(spec, sub, ds, r, W), f"{what} rank {r} ctor")
        _set_epoch(run, sub, sr, e0, what)
        plain.append(_stream(run, spec, sub, sr, f"{what} rank {r} (no group)", eff))
    before = len(run.violations) + sum(run.known_hits.values())
    _check_split(run, spec, sub, [p[0] for p in plain], [p[1] for p in plain], D[e0], W, f"{what} epoch={e0} (no group)")
    if len(run.violations) + sum(run.known_hits.values()) != before:
        return
    if dist.is_initialized():
        dist.destroy_process_group()
    # deliberate sequence: the library is asked WITHOUT a group -> group created -> asked again -> group destroyed -> asked again
    if not _lifecycle_no_group(run, spec, sub, ds, e0, D, what, eff, "before"):
        return
    dist.init_process_group(backend="fake", rank=pgr, world_size=pgW, store=FakeStore())
    env = spec.get("env") or {}
    saved = {k: os.environ.get(k) for k in env}
    try:
        if env:
            os.environ.update(env)
            run.count("group_env_contradiction_checked")
            run.cover("ambient-env", sub, tuple(sorted(env)))
            what = f"{what} with environment {env}"
        h = _helpers(run, f"{what}: helpers under the group")
        if h is not None and h != (True, pgr, pgW):
            run.violation("helpers:not-from-process-group", f"{what}: (is_distributed, get_rank, get_world_size) = {h} while the default "
                                                            f"process group is rank {pgr} of {pgW}")
            return
        # (a) defaults resolve to the process group
        got_len, got = _default_stream(run, spec, sub, ds, e0, what, eff)
        run.count("ambient_pg_checked")
        if (got_len, got) != (want_len, want):
            run.violation(f"{sub}:defaults-not-from-process-group",
                          f"{what}: sampler built without rank/world size yields len={got_len} {_s(got)}, the explicit (rank={pgr}, world={pgW}) sampler yields len={want_len} {_s(want)}")
            return
        # (a') partially explicit arguments: the omitted one comes from the group, the given one is honoured
        if not _partial(run, spec, sub, ds, e0, what, eff, (pgr, pgW), " [pg]"):
            return
        # (b) explicit ranks are honoured: all ranks of W built in this one process yield what they yield without a group
        for r in range(W):
            sr = _construct(run, spec, sub, lambda r=r: _make(spec, sub, ds, r, W), f"{what} rank {r} ctor")
            _set_epoch(run, sub, sr, e0, what)
            ln, L = _stream(run, spec, sub, sr, f"{what} explicit rank {r} of {W}", eff)
            run.count("rank_streams_observed")
            run.count("ambient_pg_checked")
            if (ln, L) != plain[r]:
                run.violation(f"{sub}:process-group-overrides-explicit-rank",
                              f"{what}: sampler built with explicit rank={r}, world size={W} yields len={ln} {_s(L)}; the same construction "
                              f"without a process group yields len={plain[r][0]} {_s(plain[r][1])}")
                return
    finally:
        for k, v in saved.items():
            if v is None:
                os.environ.pop(k, None)
            else:
                os.environ[k] = v
        if dist.is_initialized():
            dist.destroy_process_group()
    _lifecycle_no_group(run, spec, sub, ds, e0, D, what, eff, "after")


# ------------------------------------------------------------------------------------------------ cross-process clause
_ASYNC = False
_pending = []     # (spec, Popen, in-process streams) of children still running


def plain_streams(cfg):
    """per-epoch, per-rank (len, stream) of one configuration - no monitors; this is what the child interpreter runs"""
    sub = cfg["kind"]
    _seed_globals(cfg["g"])
    if sub == "random":
        g = torch.Generator().manual_seed(cfg["seed"]) if cfg["gen"] else None
        s = RandomSampler(list(range(cfg["n"])), replacement=bool(cfg.get("replacement")), num_repeats=cfg["R"], generator=g)
        return {"0": [[len(s), [operator.index(v) for v in s]]]}
    out = {}
    ds = _dataset(cfg, sub)
    for e in sorted(set(cfg["epochs"])):
        rows = []
        for r in range(cfg["W"]):
            s = _make(cfg, sub, ds, r, cfg["W"])
            s.set_epoch(e)
            rows.append([len(s), [operator.index(v) for v in s]])
        out[str(e)] = rows
    return out


def _monitored_streams(run, cfg):
    """the same observation in this process, through the monitored path (step budget, exception taxonomy)"""
    sub = cfg["kind"]
    what = f"{sub}{ {k: v for k, v in cfg.items() if k not in ('classes', 'weights', 'g', 'order', 'kind')} }"
    _seed_globals(cfg["g"])
    if sub == "random":
        g = torch.Generator().manual_seed(cfg["seed"]) if cfg["gen"] else None
        ds = list(range(cfg["n"]))
        s = _construct(run, cfg, sub, lambda: RandomSampler(ds, replacement=bool(cfg.get("replacement")), num_repeats=cfg["R"], generator=g), what + " ctor")
        ln, L = _stream(run, cfg, sub, s, what, cfg["n"])
        return {"0": [[ln, L]]}
    out = {}
    ds = _dataset(cfg, sub)
    for e in sorted(set(cfg["epochs"])):
        rows = []
        for r in range(cfg["W"]):
            s = _construct(run, cfg, sub, lambda r=r: _make(cfg, sub, ds, r, cfg["W"]), what + " ctor")
            _set_epoch(run, sub, s, e, what)
            ln, L = _stream(run, cfg, sub, s, f"{what} rank {r} epoch={e}", _eff(cfg, sub))
            rows.append([ln, L])
        out[str(e)] = rows
    return out


def _xproc_fail(run, msg):
    run.count("cross_process_child_failed")
    run.notes.setdefault("cross_process_failures", [])
    if len(run.notes["cross_process_failures"]) < 5:
        run.notes["cross_process_failures"].append(msg[:600])


def _run_xproc(run, spec):
    mine = []
    for cfg in spec["configs"]:
        try:
            mine.append(_monitored_streams(run, cfg))
        except _Abort:
            mine.append(None)      # refusal class / already reported under its own key: nothing to compare
    env = dict(os.environ, PYTHONHASHSEED=str(spec["hashseed"]), OMP_NUM_THREADS="1", MKL_NUM_THREADS="1", PYTHONDONTWRITEBYTECODE="1",
               PYTHONPATH=os.pathsep.join([str(core.REPO), str(core.VERIF)]))
    for k in ("LOCAL_RANK", "RANK", "WORLD_SIZE", "LOCAL_WORLD_SIZE"):
        env.pop(k, None)
    try:
        p = subprocess.Popen([sys.executable, "-m", "kdv.h12_child"], cwd=str(core.VERIF), env=env, stdin=subprocess.PIPE,
                             stdout=subprocess.PIPE, stderr=subprocess.STDOUT, text=True)
        p.stdin.write(json.dumps({"configs": spec["configs"]}))
        p.stdin.close()
        p.stdin = None
    except Exception as e:
        _xproc_fail(run, f"could not start the child interpreter: {e!r}")
        return
    run.cover("xproc", "hashseed", min(spec["hashseed"], 3))
    if _ASYNC:
        _pending.append((spec, p, mine))
    else:
        _collect_xproc(run, spec, p, mine)


def _collect_xproc(run, spec, p, mine):
    try:
        out, _ = p.communicate(timeout=XPROC_TIMEOUT_S)
    except subprocess.TimeoutExpired:
        p.kill()
        p.communicate()
        _xproc_fail(run, f"child interpreter (PYTHONHASHSEED={spec['hashseed']}) hit the {XPROC_TIMEOUT_S}s watchdog")
        return
    from .h12_child import MARK
    line = next((l for l in reversed(out.splitlines()) if l.startswith(MARK)), None)
    if p.returncode != 0 or line is None:
        _xproc_fail(run, f"child interpreter (PYTHONHASHSEED={spec['hashseed']}) rc={p.returncode}: {out[-400:]}")
        return
    res = json.loads(line[len(MARK):])
    if "fatal" in res or len(res.get("results", [])) != len(spec["configs"]):
        _xproc_fail(run, f"child interpreter: {res.get('fatal', 'incomplete result')}")
        return
    for cfg, a, b in zip(spec["configs"], mine, res["results"]):
        if a is None:
            continue
        sub = cfg["kind"]
        one = {"kind": "xproc", "hashseed": spec["hashseed"], "configs": [cfg]}     # minimal replayable witness
        desc = {k: v for k, v in cfg.items() if k not in ("classes", "weights", "g", "order", "kind")}
        if "error" in b:
            run.count("cross_process_streams_compared")
            run.violation(f"{sub}:cross-process-exception", f"{sub}{desc}: works in this interpreter, a fresh interpreter with "
                          f"PYTHONHASHSEED={spec['hashseed']} raises {b['error']}", one)
            continue
        shape_ok = set(a) == set(b["streams"]) and all(len(a[e]) == len(b["streams"][e]) for e in a)
        if not shape_ok:
            _xproc_fail(run, f"child result for {sub}{desc} has the wrong shape")
            continue
        bad = None
        for e, rows in a.items():
            for r, (row_a, row_b) in enumerate(zip(rows, b["streams"][e])):
                run.count("cross_process_streams_compared")
                if bad is None and [row_a[0], list(row_a[1])] != [row_b[0], list(row_b[1])]:
                    bad = (e, r, row_a, row_b)
        if bad is not None:
            e, r, row_a, row_b = bad
            run.violation(f"{sub}:not-reproducible-across-processes",
                          f"{sub}{desc} rank {r} epoch={e}: this interpreter (PYTHONHASHSEED={os.environ.get('PYTHONHASHSEED')}) yields len={row_a[0]} "
                          f"{_s(row_a[1])}, a fresh interpreter with PYTHONHASHSEED={spec['hashseed']} and equal (seed, epoch, rank) yields "
                          f"len={row_b[0]} {_s(row_b[1])}", one)


def finalize(run):
    while _pending:
        spec, p, mine = _pending.pop(0)
        _collect_xproc(run, spec, p, mine)


def finalize_merged(run):
    fails = run.notes.get("cross_process_failures")
    if fails and not run.violations:
        raise core.Inconclusive("cross-process clause: " + "; ".join(fails)[:1200])


