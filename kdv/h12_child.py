"""C12 cross-process clause, child side: compute the per-rank streams of a batch of sampler configurations in a fresh
interpreter (own PYTHONHASHSEED, own process-global RNG states) and print them as one JSON line.

usage: python -m kdv.h12_child < {"configs": [spec, ...]}        (started by kdv.c12; not a check of its own)
"""
from __future__ import annotations

import json
import os
import sys

MARK = "KDV12RESULT "


def main():
    os.environ.setdefault("OMP_NUM_THREADS", "1")
    sys.dont_write_bytecode = True
    import warnings
    warnings.filterwarnings("ignore")
    from kdv import core
    if str(core.REPO) != "/repo":
        sys.path.insert(0, str(core.REPO))
    import torch
    torch.set_num_threads(1)
    import kappadata
    from pathlib import Path
    kd = str(Path(kappadata.__file__).resolve())
    if not kd.startswith(str(core.REPO.resolve())):
        print(MARK + json.dumps({"fatal": f"kappadata imported from {kd}, expected under {core.REPO}"}))
        return 0
    from kdv import c12
    req = json.loads(sys.stdin.read())
    out = []
    for spec in req["configs"]:
        try:
            out.append({"streams": c12.plain_streams(spec)})
        except Exception as e:
            kind, where = core.classify_exception(e)
            out.append({"error": f"{type(e).__name__}: {e} at {where}", "etype": type(e).__name__, "guard": kind == "guard"})
    print(MARK + json.dumps({"hashseed": os.environ.get("PYTHONHASHSEED"), "pid": os.getpid(), "results": out}))
    return 0


if __name__ == "__main__":
    sys.exit(main())
