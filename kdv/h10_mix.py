"""Helpers of the C10 check: id-encoded image dataset and the decoders that recover partner / weight / paste box
from the output of a mix collator. Nothing here looks into the collator; everything works on returned tensors.

Encoding (all values are integers < 2^24, i.e. exact in float32):

    x[c,h,w] = ((code(id,c,h,w) * 4 + c) * 64 + h) * 64 + w        code = id        if (c+h+w) even
                                                                    code = pi(id)    if (c+h+w) odd
    pi(id) = (397*id + 211) mod 2^bits   (a bijection; makes the pair (partner, weight) identifiable from a mixup of
                                          two images as soon as the image has two pixels — a linear id code alone only
                                          determines (1-w)*(id_p - id_i))

Two images with different ids differ in *every* pixel, so for cutmix every output pixel names its source exactly.
"""
from __future__ import annotations

import numpy as np
import torch

from kappadata.datasets.kd_dataset import KDDataset

U32 = 2.0 ** -24          # unit roundoff of float32
IMG_TOL_FACTOR = 16 * U32  # |fl32(w*a + (1-w)*b) - exact| <= 4u*max(|a|,|b|); 4x safety margin
LABEL_TOL = 2e-6          # label values are in [0,1]; float32 mix error <= ~2e-7
W_EPS = 2e-6              # slack when two independently decoded weights are compared (float32 lambda / area correction)


def pi(sid, bits):
    return (397 * sid + 211) % (1 << bits)


def encode(sid, C, H, W, bits):
    c = np.arange(C).reshape(C, 1, 1)
    h = np.arange(H).reshape(1, H, 1)
    w = np.arange(W).reshape(1, 1, W)
    code = np.where((c + h + w) % 2 == 0, sid, pi(sid, bits))
    v = ((code * 4 + c) * 64 + h) * 64 + w
    assert v.max() < 2 ** 24
    return v.astype(np.float64)


class MixLeaf(KDDataset):
    """B samples; sample k has id ids[k], image encode(ids[k]) and label labels[k]; extra items aux / meta / name"""

    def __init__(self, ids, C, H, W, bits, label):
        super().__init__()
        self.ids, self.C, self.H, self.W, self.bits, self.label = list(ids), C, H, W, bits, label

    def __len__(self):
        return len(self.ids)

    def getitem_x(self, idx, ctx=None):
        if ctx is not None:
            ctx["src"] = self.ids[idx]
        return torch.from_numpy(encode(self.ids[idx], self.C, self.H, self.W, self.bits)).float()

    def _raw_label(self, idx):
        """label of sample idx exactly as the dataset hands it out (numpy, in the label's own dtype)"""
        lab = self.label
        kind, dt = lab["kind"], lab.get("dtype", "float32")
        if kind == "onehot":
            row = np.zeros(lab["K"], dtype={"int64": np.int64, "float16": np.float16, "float64": np.float64}.get(dt, np.float32))
            row[lab["classes"][idx]] = 1
            return row
        if kind == "smooth":
            ft = np.float64 if dt == "float64" else np.float32
            K = lab["K"]
            off = ft(lab["smooth"]) / ft(K)
            row = np.full(K, off, dtype=ft)
            row[lab["classes"][idx]] = ft(1.) - ft(lab["smooth"]) + off
            return row
        return np.array(lab["values"][idx], dtype={"int64": np.int64, "float64": np.float64}.get(dt, np.float32))

    def label_row(self, idx):
        """reference label of sample idx as float64: the dataset's value as a float32 number (the precision labels are
        mixed in); vector for one-hot kinds, scalar array for binary kinds"""
        return self._raw_label(idx).astype(np.float32).astype(np.float64)

    def getitem_class(self, idx, ctx=None):
        lab = self.label
        kind = lab["kind"]
        if kind == "onehot" and lab.get("dtype") == "int64":
            return torch.nn.functional.one_hot(torch.tensor(lab["classes"][idx]), num_classes=lab["K"])
        if kind in ("onehot", "smooth", "bin_tensor"):  # bin_tensor may be a soft label
            return torch.from_numpy(np.ascontiguousarray(self._raw_label(idx)))
        v = lab["values"][idx]
        return int(v) if kind == "bin_int" else float(v)

    def getshape_class(self):
        return (self.label.get("K", 1),)

    def getitem_aux(self, idx, ctx=None):
        s = self.ids[idx]
        return torch.tensor([s + 0.25, -s, 3.5 * s], dtype=torch.float32)

    def getitem_meta(self, idx, ctx=None):
        return self.ids[idx] * 7 + 1

    def getitem_name(self, idx, ctx=None):
        return f"s{self.ids[idx]}"


# ------------------------------------------------------------------------------------------------- decoders
def _box_of(mask2d):
    """mask2d (H,W) bool -> (top, left, bot, right) if the True cells form exactly one axis-aligned box, None otherwise;
    the empty mask is the empty box (0,0,0,0)"""
    if not mask2d.any():
        return (0, 0, 0, 0)
    rows = np.flatnonzero(mask2d.any(axis=1))
    cols = np.flatnonzero(mask2d.any(axis=0))
    top, bot, left, right = rows[0], rows[-1] + 1, cols[0], cols[-1] + 1
    full = np.zeros_like(mask2d)
    full[top:bot, left:right] = True
    if np.array_equal(full, mask2d):
        return (int(top), int(left), int(bot), int(right))
    return None


def image_fits(out, xi, xj, is_self):
    """all readings of `out` (C,H,W float64) as a mix of xi (own) with xj (partner):
    list of dicts {kind: self|cutmix|mixup, w: float|None (None = not observable), tol: float, box}"""
    fits = []
    tol_abs = max(IMG_TOL_FACTOR * max(np.abs(xi).max(), np.abs(xj).max()), 1e-6)
    if is_self:
        if np.abs(out - xi).max() <= tol_abs:
            fits.append({"kind": "self", "w": None, "tol": 0.0, "box": None})
        return fits
    eq_i = out == xi
    eq_j = out == xj
    if (eq_i | eq_j).all():
        m = eq_j  # xi != xj everywhere, so the two masks are disjoint
        if (m == m[0:1]).all():
            box = _box_of(m[0])
            if box is not None:
                H, W = m.shape[1:]
                area = (box[2] - box[0]) * (box[3] - box[1])
                fits.append({"kind": "cutmix", "w": 1.0 - area / (H * W), "tol": 1e-9, "box": box})
    d = xi - xj
    r = out - xj
    s1, s2, dmax = np.abs(d).sum(), (d * d).sum(), np.abs(d).max()
    w = float((r * d).sum() / s2)
    tol_w = float(tol_abs * s1 / s2)
    resid = np.abs(r - w * d).max()
    if resid <= tol_abs * (1.0 + dmax * s1 / s2) and -tol_w - 1e-9 <= w <= 1 + tol_w + 1e-9:
        fits.append({"kind": "mixup", "w": w, "tol": tol_w, "box": None})
    return fits


def label_fit(lab, yi, yj):
    """reading of label `lab` as w*yi + (1-w)*yj -> None (not such a combination) or (w|None, tol)"""
    lab, yi, yj = np.atleast_1d(lab), np.atleast_1d(yi), np.atleast_1d(yj)
    if lab.shape != yi.shape:
        return None
    dy = yi - yj
    if np.abs(dy).max() < 1e-9:
        return (None, 0.0) if np.abs(lab - yi).max() <= LABEL_TOL else None
    s1, s2 = np.abs(dy).sum(), (dy * dy).sum()
    w = float(((lab - yj) * dy).sum() / s2)
    tol_w = float(LABEL_TOL * s1 / s2)
    if np.abs(lab - (w * yi + (1 - w) * yj)).max() > LABEL_TOL * (1.0 + np.abs(dy).max() * s1 / s2):
        return None
    if not (-tol_w - 1e-9 <= w <= 1 + tol_w + 1e-9):
        return None
    return (w, tol_w)


def perfect_matching(cands):
    """cands[i] = set of admissible partners of i; is there a bijection p with p(i) in cands[i]?"""
    n = len(cands)
    match = {}

    def try_assign(i, seen):
        for j in cands[i]:
            if j in seen:
                continue
            seen.add(j)
            if j not in match or try_assign(match[j], seen):
                match[j] = i
                return True
        return False

    return all(try_assign(i, set()) for i in range(n))


# ------------------------------------------------------------------------------------------------- tensor layouts
def relayout_image(x, layout):
    """same values / shape / dtype as x (B,C,H,W) in another memory layout (what an upstream pipeline stage may hand over)"""
    B, C, H, W = x.shape
    if layout == "nhwc":  # NHWC storage viewed as NCHW
        return x.permute(0, 2, 3, 1).contiguous().permute(0, 3, 1, 2)
    if layout == "channels_last":
        return x.contiguous(memory_format=torch.channels_last)
    if layout == "strided_hw":  # every second row / a left part of the columns of a larger tensor
        big = torch.full((B, C, 2 * H, W + 3), -7.0, dtype=x.dtype)
        big[:, :, ::2, :W] = x
        return big[:, :, ::2, :W]
    if layout == "strided_batch":  # every second sample of a larger batch
        big = torch.full((2 * B, C, H, W), -7.0, dtype=x.dtype)
        big[::2] = x
        return big[::2]
    if layout == "whcn":  # fully reversed storage order
        return x.permute(3, 2, 1, 0).contiguous().permute(3, 2, 1, 0)
    return x


def relayout_label(y, layout):
    if not torch.is_tensor(y) or layout == "contiguous":
        return y
    if layout == "expanded" and y.dtype != torch.float32 and len(y) > 0 and bool((y == y[0:1]).all()):
        # only where it is legitimate: all samples carry the same label and the collator converts (copies) the dtype;
        # a float32 label is mixed in place, which torch refuses for expanded tensors on the pristine tree as well
        return y[0:1].expand(*y.shape)
    if y.ndim == 2 and layout == "transposed":
        return y.t().contiguous().t()
    big = torch.zeros((2 * y.shape[0],) + tuple(y.shape[1:]), dtype=y.dtype)  # strided
    big[::2] = y
    return big[::2]


def make_layout_collator(image_layout, label_layout):
    """harness-side KDSingleCollator for a KDComposeCollator pipeline: default-collates, then hands the image / label
    item (first occurrence) on in another memory layout; values are untouched"""
    from kappadata.collators.base.kd_single_collator import KDSingleCollator

    class LayoutCollator(KDSingleCollator):
        @property
        def default_collate_mode(self):
            return "before"

        def collate(self, batch, dataset_mode, ctx=None):
            items = dataset_mode.split(" ")
            if not isinstance(batch, (list, tuple)):
                return relayout_image(batch, image_layout) if items == ["x"] else batch
            batch = list(batch)
            batch[items.index("x")] = relayout_image(batch[items.index("x")], image_layout)
            if "class" in items:
                batch[items.index("class")] = relayout_label(batch[items.index("class")], label_layout)
            return tuple(batch)

    return LayoutCollator()
