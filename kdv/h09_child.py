"""Child interpreter of C09's cross-interpreter clause: reads stack specs (JSON, stdin), recomputes the per-worker stream
fingerprints under this interpreter's own hash salt (PYTHONHASHSEED given by the parent) and prints them.

    PYTHONHASHSEED=<n> python -m kdv.h09_child < specs.json
"""
import json
import sys


def main():
    from kdv import main as M
    M._prepare()
    from kdv import c09
    specs = json.loads(sys.stdin.read())
    out = []
    for spec in specs:
        try:
            out.append(c09.fingerprint(spec))
        except Exception as e:  # noqa: BLE001 - reported to the parent, which treats it as 'not compared'
            out.append({"error": f"{type(e).__name__}: {e}"})
    print("C09CHILD " + json.dumps(out))


if __name__ == "__main__":
    main()
