"""C13 — balanced, semi-supervised and weighted samplers compose epochs as promised.

Observed: `list(sampler)` of every rank of a world (rank=r, world_size=W) after `set_epoch(e)`, and `len(sampler)`,
mapped through the labels / weights the harness dataset was built from. Nothing else is read for a verdict.

Oracles (written from the property text, the samplers' docstrings and the pinned tests, not from the code):

* class-balanced   E = num_classes * samples_per_class (None -> size of the largest class); every rank yields E // W
                   valid indices; over all ranks class c occurs at most samples_per_class times and the total
                   deficit is E mod W (0 -> exactly samples_per_class per class); inside a class of n_c samples the
                   observed usage must be completable (by the < W dropped entries) to "r samples q+1 times, the others
                   q times" with q, r = divmod(samples_per_class, n_c) (usage counts differ by <= 1).
* semi             E = chunks * (L+U), chunks = |labeled| // L, |unlabeled| // U or N // (L+U) for the length modes
                   labeled / unlabeled / all; each rank yields E // W indices; position k is labeled iff k mod (L+U) < L
                   (labeled = class != -1); the labeled (unlabeled) sub-stream cut into consecutive blocks of pool size
                   has no duplicate inside a block (the whole pool is used before any element repeats); two ranks of
                   one epoch do not produce the same stream (asserted only where the coincidence probability of two
                   independent uniform orders is < 1e-16).
* weighted         E = size or len(dataset); each rank yields E // W valid indices; no index occurs twice over all
                   ranks of an epoch; an index of weight 0 is never drawn when at least E weights are non-zero.
* all three        iteration (and construction) ends within a logical step budget.
* through dataset  the labels fetched from the dataset with the indices exactly as emitted (ds.getitem_class(idx)), also for a
                   SemiSampler over the library's SemiWrapper and through ModeWrapper("class") + DataLoader(sampler=...),
                   follow the same labeled/unlabeled alternation (an index type that the dataset cannot use as a key -
                   e.g. a 0-dim tensor against SemiWrapper's set of ints - shows up here; the type alone is only counted).
* argument types   samples_per_class / size / num_labeled / num_unlabeled / world_size / rank given as numpy integers (and, where
                   the current code accepts them, 0-dim numpy arrays) of equal value: len and stream must equal those of
                   the python-int construction.
* reconfiguration  a sampler built with another value of a public attribute the samplers read at call time (WeightedSampler.size incl.
                   None; ClassBalancedSampler.samples_per_class (int) / shuffle; SemiSampler.num_labeled / num_unlabeled) and
                   assigned the final value before its first iteration has the len and stream of a sampler constructed with it.
* instances        a second sampler of the same family over a DIFFERENT dataset / weights / layout with equal (seed, epochs,
                   world size, size / samples_per_class / chunk sizes) lives in the same process: it is judged against its
                   own dataset by all clauses above, and re-iterating both instances one after the other and alternately
                   must reproduce each one's own stream.
* histories        (a) labels are changed on the SAME dataset object after a first round and NEW samplers are built: every
                   clause must hold w.r.t. the current labels; (b) two live iterators over one sampler object, consumed
                   alternately (zip(sampler, sampler) style, optionally with a head start): both must deliver exactly the
                   stream a single stand-alone iteration with the same (seed, epoch, rank) delivers (which satisfied all
                   clauses), i.e. an iteration owns its state.
"""
from __future__ import annotations

import importlib
import itertools
import math
import operator
from collections import Counter

import numpy as np
import torch

from kappadata.datasets.kd_dataset import KDDataset
from kappadata.samplers import ClassBalancedSampler, SemiSampler, WeightedSampler
from kappadata.wrappers import ModeWrapper
from kappadata.wrappers.sample_wrappers.semi_wrapper import SemiWrapper
from torch.utils.data import DataLoader

from . import core
from .harness import Leaf, StepBudget, call_real, codes_of

LEVEL = "exploration"
RULE = ("three sampler kinds in rotation. class-balanced: 2..8 classes (incl. binary datasets of class-dim 1) with class "
        "sizes from {1,2,3,5,random<=20} in shuffled or sorted order, samples_per_class from {None, 1, below the smallest, "
        "between, multiples of, above the largest class}, shuffle on/off, bulk labels as list/ndarray/tensor/absent "
        "(per-sample fallback) or read from another item; semi: labeled/unlabeled pools of 1..45 samples, chunk sizes "
        "1..5 that do / do not divide the pools, the three length modes; weighted: 1..60 float32/float64 weights with and "
        "without zeros, size None / < n / == n; all with world sizes 1..6 (every rank is run), 1-2 epochs from 0..3 on the "
        "same sampler objects and a seed; histories: labels changed on the same dataset object followed by newly built samplers "
        "(60% of the datasets without bulk accessor, 20% of the others), and two live iterators over one sampler object consumed "
        "alternately with head start 0/1/2/5 (half of the cases). A case is distinct by its full spec and non-trivial if the epoch has >= 1 index")
ASSUMPTIONS = [
    "class-balanced sampling is only driven on fully labeled datasets whose labels lie in range(num_classes); a layout with an absent class "
    "is expected to be refused by the sampler's own assertion (refusal class cb:absent-class); samples_per_class=0 is not driven",
    "samples_per_class=None means 'size of the largest class' (pinned test test_autolength)",
    "the order inside a class-balanced epoch is not judged (only counts), also with shuffle=False",
    "the semi sampler's length formulas are the ones of its effective_length comments / test_len: floor(pool / chunk) chunks of L+U, then // world_size",
    "rank streams of the semi sampler are compared inside one epoch only; the (rank a, epoch b) == (rank b, epoch a) coincidence that the pinned "
    "test test_1x1_worldsize2_fulllen asserts literally is counted as a note, never judged",
    "weighted sampler: weights are float tensors with at least one positive entry in [1e-3, 1e3] or exactly 0; size >= 1 and len(dataset) >= 1 "
    "(an empty epoch request makes torch.multinomial refuse n_sample=0; the property does not say what an empty draw is)",
    "equality of consecutive epochs / agreement of the rank split with the world-size-1 draw is C12's clause and not judged here",
    "a sampler describes the labels its dataset has when the sampler is constructed (relabel histories build new samplers; an existing "
    "sampler is not expected to follow later label changes)",
    "the type of an emitted index is not judged by itself (counted in indices_that_are_not_hash_keys_observed); it is judged through the dataset",
    "SemiWrapper's own choice of unlabeled samples is read back through getitem_class(i) with python ints and taken as the dataset's labels",
    "numeric argument types: seeds (all samplers) and a non-zero SemiSampler rank reach torch.Generator.manual_seed, which itself rejects numpy "
    "integers (TypeError raised by torch, not by the repository) -> only python-int seeds / semi ranks are driven; a 0-dim numpy ARRAY as "
    "samples_per_class is not driven (the current ClassBalancedSampler consumes it in place: first epoch empty, reported to the coordinator)",
    "reconfiguration histories only assign size (WeightedSampler), samples_per_class / shuffle (ClassBalancedSampler; samples_per_class=None is "
    "resolved in the constructor and is not assignable afterwards) and num_labeled / num_unlabeled (SemiSampler); seed, length_mode, rank, "
    "world_size, weights and dataset are not re-assigned",
    "an epoch's stream is a function of (seed, epoch, rank) only (all three samplers are seeded, default seed 0), so two concurrently "
    "consumed iterators of one sampler object must both equal the stand-alone stream",
]
MONITORS = ["cb_epochs_checked", "cb_reuse_checked", "semi_epochs_checked", "semi_blocks_checked", "semi_rank_pairs_compared",
            "weighted_epochs_checked", "weighted_zero_weight_checked", "step_budget_runs", "indices_validated",
            "relabel_histories_checked", "concurrent_iterators_checked", "semi_through_dataset_checked", "semi_over_semiwrapper_checked",
            "semi_through_loader_checked", "numeric_type_variants_checked", "companion_instances_checked", "cross_instance_reiterations_checked", "reconfigurations_checked"]

_mods = [importlib.import_module(m) for m in (
    "kappadata.samplers.class_balanced_sampler", "kappadata.samplers.semi_sampler", "kappadata.samplers.weighted_sampler",
    "kappadata.utils.getall_as_tensor")]
_codes = []

LOG_COINCIDENCE_BOUND = math.log(1e16)  # two independent uniform orders agree on the compared prefix with probability < 1e-16


def _budget(size_hint):
    """logical steps granted: the current code needs < 2 * size_hint jumps (measured), a per-index python loop a small multiple"""
    return 12 * (size_hint + 20) + 400


def _CODES():
    if not _codes:
        _codes.extend(codes_of(*_mods))
    return _codes


# ------------------------------------------------------------------------------------------------ harness datasets
class PlainDs(KDDataset):
    """dataset without a bulk accessor: the samplers have to fall back to per-sample label loading"""

    def __init__(self, classes, n_classes):
        super().__init__()
        self._c = list(classes)
        self._k = n_classes

    def getitem_class(self, idx, ctx=None):
        return self._c[idx]

    def getshape_class(self):
        return (self._k,)

    def __len__(self):
        return len(self._c)


class GroupLeaf(Leaf):
    """`class` holds decoy labels (another partition into the same number of classes); the labels to balance are item `group`"""

    def __init__(self, groups, decoy, n_classes, getall_kind):
        super().__init__(len(groups), classes=decoy, n_classes=n_classes, getall_kind=getall_kind)
        self.groups = list(groups)

    def getitem_group(self, idx, ctx=None):
        return self.groups[self._norm(idx)]

    def getall_group(self):
        if self.getall_kind == "ndarray":
            return np.array(self.groups, dtype=np.int64)
        if self.getall_kind == "tensor":
            return torch.tensor(self.groups, dtype=torch.long)
        return list(self.groups)


def _dataset(classes, dim, getall, item="class", decoy_shift=1):
    if getall == "none":
        return PlainDs(classes, dim)
    if item == "group":
        k = max(2, dim)
        decoy = [(i + decoy_shift) % k for i in range(len(classes))]  # a different partition into the same number of classes
        return GroupLeaf(classes, decoy, dim, getall)
    return Leaf(len(classes), classes=classes, n_classes=dim, getall_kind=getall)


def _set_labels(ds, classes):
    """change the labels of the SAME dataset object (in place)"""
    if isinstance(ds, PlainDs):
        ds._c[:] = classes
    elif isinstance(ds, GroupLeaf):
        ds.groups[:] = classes
    else:
        ds.classes[:] = classes


# ------------------------------------------------------------------------------------------------ generation
def _world(rng):
    return rng.choice([1, 1, 2, 2, 3, 3, 4, 5, 6])


def _pair(rng):
    """two live iterators over one sampler object: which rank, head start of the first iterator"""
    return {"rank": rng.randrange(6), "lag": rng.choice([0, 0, 1, 2, 5])} if rng.random() < 0.5 else None


_NUMKINDS = ["i64", "i64", "i32", "a0"]


def _numtypes(rng, names):
    """which numeric constructor arguments are passed as numpy integers / 0-dim arrays of equal value"""
    if rng.random() >= 0.35:
        return None
    out = {a: rng.choice(_NUMKINDS) for a in names if rng.random() < 0.6}
    if out.get("samples_per_class") == "a0":
        out["samples_per_class"] = "i64"  # see ASSUMPTIONS
    return out or None


def _conv(kind, v):
    if kind == "i64":
        return np.int64(v)
    if kind == "i32":
        return np.int32(v)
    if kind == "a0":
        return np.array(v)
    raise ValueError(kind)


def _epochs(rng):
    e = [rng.randint(0, 3)]
    if rng.random() < 0.5:
        e.append(rng.randint(0, 3))
    return e


def _gen_cb(rng):
    binary = rng.random() < 0.2
    k = 2 if binary else rng.randint(2, 8)
    sizes = [rng.choice([1, 1, 2, 3, 5, rng.randint(1, 20)]) for _ in range(k)]
    if rng.random() < 0.15:  # equal class sizes
        sizes = [sizes[0]] * k
    absent = rng.random() < 0.06
    if absent:
        sizes[rng.randrange(k)] = 0
        if sum(sizes) == 0:
            sizes[0] = 1
    classes = [c for c in range(k) for _ in range(sizes[c])]
    if rng.random() < 0.7:
        rng.shuffle(classes)
    present = [s for s in sizes if s > 0]
    lo, hi = min(present), max(present)
    r = rng.random()
    if r < 0.25:
        spc = None
    elif r < 0.35:
        spc = 1
    elif r < 0.45:
        spc = rng.randint(1, lo)
    elif r < 0.6:
        spc = rng.randint(lo, hi)
    elif r < 0.75:
        spc = rng.choice(present) * rng.randint(1, 3)
    elif r < 0.85:
        spc = hi + rng.randint(1, 2 * hi + 3)
    else:
        spc = rng.randint(1, 40)
    W = _world(rng)
    if rng.random() < 0.04:
        W = k * (spc or hi) + rng.randint(1, 2)  # more ranks than indices
        W = min(W, 24)
    getall = rng.choice(["list", "list", "ndarray", "tensor", "none"])
    relabel = None
    if rng.random() < (0.6 if getall == "none" else 0.2):
        n = len(classes)
        relabel = [[i, rng.randrange(k)] for i in rng.sample(range(n), rng.randint(1, max(1, n // 3)))]
    numtypes = _numtypes(rng, ["samples_per_class", "rank", "world_size"])
    return {"numtypes": numtypes, "kind": "cb", "classes": classes, "dim": 1 if binary else k, "spc": spc, "shuffle": rng.random() < 0.7,
            "seed": rng.randrange(10 ** 6), "epochs": _epochs(rng), "W": W,
            "getall": getall, "relabel": relabel, "pair": _pair(rng),
            "item": "group" if rng.random() < 0.15 else "class", "decoy_shift": rng.randint(1, max(1, k - 1)),
            "defaults": rng.random() < 0.3}


def _pool(rng):
    return rng.choice([1, 2, 3, 4, 5, 6, 8, 12, 19, 20, 24, rng.randint(1, 45), rng.randint(1, 45)])


def _gen_semi(rng):
    nl, nu = _pool(rng), _pool(rng)
    focus = rng.random() < 0.3  # pools large enough (and a stream long enough) for the rank-difference clause to be decidable
    if focus:
        nl, nu = rng.randint(19, 45), rng.randint(19, 45)
    ncls = rng.randint(1, 6)
    lab = [rng.randrange(ncls) for _ in range(nl)]
    classes = lab + [-1] * nu
    style = rng.random()
    if style < 0.7:
        rng.shuffle(classes)
    elif style < 0.85:
        classes = [-1] * nu + lab
    L, U = rng.choice([1, 1, 2, 3, 4, 5]), rng.choice([1, 1, 2, 3, 4, 5])
    if rng.random() < 0.25:  # chunk sizes that divide the pools
        L = rng.choice([d for d in range(1, 6) if nl % d == 0])
        U = rng.choice([d for d in range(1, 6) if nu % d == 0])
    mode = rng.choice(["labeled", "unlabeled", "all"])
    W = _world(rng)
    if focus:
        mode = rng.choice(["labeled", "unlabeled", "unlabeled", "all"])
        W = rng.choice([2, 2, 3, 4])
    getall = rng.choice(["list", "list", "ndarray", "tensor", "none"])
    relabel = None
    if rng.random() < (0.6 if getall == "none" else 0.2):
        n = len(classes)
        cur = list(classes)
        relabel = []
        for i in rng.sample(range(n), rng.randint(1, max(1, n // 3))):
            new = rng.randrange(ncls) if (cur[i] == -1 or rng.random() < 0.2) else -1
            trial = list(cur)
            trial[i] = new
            if any(c == -1 for c in trial) and any(c != -1 for c in trial):  # both pools stay non-empty
                cur = trial
                relabel.append([i, new])
        relabel = relabel or None
    via = None
    if rng.random() < 0.3 and nl + nu >= 2:
        # the intended combination: SemiSampler over SemiWrapper (which samples are unlabeled is the wrapper's choice)
        n = nl + nu
        classes = [rng.randrange(ncls) for _ in range(n)]
        via = {"percent": rng.randint(1, n - 1) / n + 1e-9, "wseed": rng.randrange(1000), "loader": rng.random() < 0.25}
        relabel = None
    numtypes = _numtypes(rng, ["num_labeled", "num_unlabeled", "world_size"])
    return {"numtypes": numtypes, "kind": "semi", "classes": classes, "L": L, "U": U, "mode": mode,
            "W": W, "seed": rng.randrange(10 ** 6), "epochs": _epochs(rng),
            "getall": getall, "relabel": relabel, "via": via, "pair": _pair(rng), "defaults": rng.random() < 0.3}


def _gen_weighted(rng):
    n = rng.choice([1, 2, 3, 5, 8, 10, 16, rng.randint(1, 60), rng.randint(1, 60)])
    style = rng.choice(["uniform", "random", "skewed", "zeros", "zeros", "integer"])
    if style == "uniform":
        w = [1.0] * n
    elif style == "random":
        w = [round(rng.uniform(0.01, 10.0), 4) for _ in range(n)]
    elif style == "skewed":
        w = [rng.choice([0.001, 0.01, 1.0, 100.0, 1000.0]) for _ in range(n)]
    elif style == "integer":
        w = [float(rng.randint(1, 10)) for _ in range(n)]
    else:
        pz = rng.choice([0.1, 0.3, 0.6, 0.9])
        w = [0.0 if rng.random() < pz else round(rng.uniform(0.01, 10.0), 4) for _ in range(n)]
    if not any(x > 0 for x in w):
        w[rng.randrange(n)] = 1.0
    nnz = sum(1 for x in w if x > 0)
    r = rng.random()
    if r < 0.3:
        size = None
    elif r < 0.45:
        size = n
    elif r < 0.7:
        size = rng.randint(1, nnz)  # enough non-zero weights
    elif r < 0.8:
        size = nnz
    else:
        size = rng.randint(1, n)
    W = _world(rng)
    if rng.random() < 0.04:
        W = min((size or n) + rng.randint(1, 2), 24)
    numtypes = _numtypes(rng, ["size", "rank", "world_size"])
    return {"numtypes": numtypes, "kind": "weighted", "weights": w, "dtype": rng.choice(["float32", "float32", "float64"]), "size": size, "W": W,
            "seed": rng.randrange(10 ** 6), "epochs": _epochs(rng), "pair": _pair(rng), "defaults": rng.random() < 0.3}


_GEN = [_gen_cb, _gen_semi, _gen_weighted]


def _companion(rng, spec):
    """a second instance of the same family: other dataset / weights / layout, equal seed, epochs, world size and size arguments"""
    kind = spec["kind"]
    if kind == "weighted":
        E = _effective(spec)
        k = rng.randint(1, 10)
        w = [round(rng.uniform(0.01, 10.0), 4) for _ in range(E + k)]
        for i in rng.sample(range(E + k), k):
            w[i] = 0.0  # exactly E non-zero weights: its own epoch is exactly the non-zero set
        comp = dict(spec, weights=w, size=E, dtype=rng.choice(["float32", "float64"]))
    elif kind == "cb":
        comp = _gen_cb(rng)
        comp.update(spc=spec["spc"] if spec["spc"] is not None else comp["spc"], shuffle=spec["shuffle"])
    else:
        comp = _gen_semi(rng)
        while comp["via"]:  # (over SemiWrapper the labels are the wrapper's choice; the companion is a plain labeled/unlabeled layout)
            comp = _gen_semi(rng)
        comp.update(L=spec["L"], U=spec["U"], mode=spec["mode"])
    comp.update(seed=spec["seed"], epochs=list(spec["epochs"]), W=spec["W"], defaults=spec.get("defaults", False), relabel=None, pair=None,
                numtypes=None, companion=None, tag=" [second instance of the family in this process: other dataset, same seed/epochs/size]")
    return comp


def _reconf(rng, spec):
    """[[attribute, value the sampler is CONSTRUCTED with]]; the spec's own value is assigned before the first iteration"""
    kind = spec["kind"]
    out = []
    if kind == "weighted":
        n = len(spec["weights"])
        init = rng.choice([None, rng.randint(1, n), n])
        if init != spec["size"]:
            out.append(["size", init])
    elif kind == "cb":
        if spec["spc"] is not None and rng.random() < 0.8:
            init = rng.choice([None, rng.randint(1, 40)])
            if init != spec["spc"]:
                out.append(["samples_per_class", init])
        if rng.random() < 0.4 or not out:
            out.append(["shuffle", not spec["shuffle"]])
    else:
        for a, key in (("num_labeled", "L"), ("num_unlabeled", "U")):
            if rng.random() < 0.6:
                init = rng.randint(1, 5)
                if init != spec[key]:
                    out.append([a, init])
    return out or None


def gen_cases(run):
    n = run.n(6000, 400000)
    for i in range(n):
        spec = _GEN[i % 3](run.rng)
        spec["companion"] = _companion(run.rng, spec) if run.rng.random() < 0.3 else None
        spec["reconf"] = _reconf(run.rng, spec) if run.rng.random() < 0.3 else None
        if not spec.get("via") and _expected_len(spec) == 0:
            spec["_trivial"] = True
        yield spec


def _expected_len(spec):
    try:
        return _effective(spec) // spec["W"]
    except Exception:
        return 0


def _effective(spec):
    """epoch length over all ranks, from the documentation"""
    k = spec["kind"]
    if k == "cb":
        cnt = Counter(spec["classes"])
        ncls = max(2, spec["dim"])
        spc = spec["spc"] if spec["spc"] is not None else max(cnt.values())
        return ncls * spc
    if k == "semi":
        nl = sum(1 for c in spec["classes"] if c != -1)
        nu = len(spec["classes"]) - nl
        L, U = spec["L"], spec["U"]
        chunks = {"labeled": nl // L, "unlabeled": nu // U, "all": (nl + nu) // (L + U)}[spec["mode"]]
        return chunks * (L + U)
    if k == "weighted":
        return spec["size"] if spec["size"] is not None else len(spec["weights"])
    raise ValueError(k)


# ------------------------------------------------------------------------------------------------ driving the real samplers
def _rank_kwargs(spec, r):
    if spec["W"] == 1 and spec.get("defaults"):
        return {}  # single process: rank / world size taken from the (non-initialised) process group
    return {"rank": r, "world_size": spec["W"]}


def _construct(run, spec, make, size_hint, what, refusal_class=None):
    """one sampler per rank; None if the construction did not deliver"""
    out = []
    for r in range(spec["W"]):
        run.count("step_budget_runs")
        with StepBudget(_budget(size_hint), _CODES(), what=f"{what} construction"):
            ok, s = call_real(run, lambda: make(**_rank_kwargs(spec, r)), refusal_class=refusal_class,
                              crash_key=f"{spec['kind']}:ctor-crash", what=f"{what} rank {r}/{spec['W']}")
        if not ok:
            return None
        out.append(s)
    return out


def _epoch(run, spec, samplers, epoch, want_len, size_hint, what, raw=None):
    """-> list of per-rank index lists (python ints) or None; `raw` collects the objects exactly as emitted"""
    kind = spec["kind"]
    streams = []
    for r, s in enumerate(samplers):
        run.count("step_budget_runs")

        def go():
            s.set_epoch(epoch)
            return len(s), list(itertools.islice(iter(s), want_len + 8))
        with StepBudget(_budget(size_hint), _CODES(), what=f"{what} epoch {epoch} rank {r}"):
            ok, res = call_real(run, go, crash_key=f"{kind}:iter-crash", what=f"{what} epoch {epoch} rank {r}/{spec['W']}")
        if not ok:
            return None
        n_announced, got = res
        if n_announced != want_len:
            run.violation(f"{kind}:length", f"{what} rank {r}/{spec['W']}: len(sampler) = {n_announced}, documented length is "
                                            f"{_effective(spec)} // {spec['W']} = {want_len}")
            return None
        if len(got) != want_len:
            more = "at least " if len(got) >= want_len + 8 else ""
            run.violation(f"{kind}:length", f"{what} epoch {epoch} rank {r}/{spec['W']}: yielded {more}{len(got)} indices, len(sampler) = {want_len}")
            return None
        ints = []
        for i in got:
            try:
                if isinstance(i, bool):
                    raise TypeError
                ints.append(operator.index(i))
            except TypeError:
                run.violation(f"{kind}:invalid-index", f"{what} epoch {epoch} rank {r}: yielded {i!r} ({type(i).__name__}), not an index")
                return None
            try:
                as_key = i in {ints[-1]}
            except TypeError:
                as_key = False
            if not as_key:
                # the statement does not fix the type of an emitted index: not a verdict by itself. What it costs is judged where it becomes
                # observable - through the dataset the sampler was built for (semi:alternation-through-dataset / -through-loader)
                run.count("indices_that_are_not_hash_keys_observed")
        if raw is not None:
            raw.append(got)
        n = _n(spec)
        bad = [i for i in ints if not 0 <= i < n]
        run.count("indices_validated", len(ints))
        if bad:
            run.violation(f"{kind}:invalid-index", f"{what} epoch {epoch} rank {r}: indices {_s(bad)} are outside range({n})")
            return None
        streams.append(ints)
    return streams


def _pair_check(run, spec, samplers, epoch, streams, size_hint, what):
    """two live iterators over ONE sampler object, consumed alternately; both must equal the stand-alone stream"""
    pair = spec.get("pair")
    if not pair or not streams or not streams[0]:
        return True
    kind = spec["kind"]
    r = pair["rank"] % len(samplers)
    s, alone, lag = samplers[r], streams[r], pair["lag"]
    cap = len(alone) + 8

    def go():
        s.set_epoch(epoch)
        its = [iter(s), None]
        out = [[], []]
        live = [True, False]
        for _ in range(lag):
            try:
                out[0].append(next(its[0]))
            except StopIteration:
                live[0] = False
                break
        its[1] = iter(s)
        live[1] = True
        while any(live):
            for j in (0, 1):
                if live[j]:
                    try:
                        out[j].append(next(its[j]))
                    except StopIteration:
                        live[j] = False
                    if len(out[j]) > cap:
                        live[j] = False
        return out
    run.count("step_budget_runs")
    with StepBudget(_budget(2 * size_hint), _CODES(), what=f"{what} epoch {epoch} rank {r}, two live iterators"):
        ok, out = call_real(run, go, crash_key=f"{kind}:iter-crash", what=f"{what} epoch {epoch} rank {r}: two live iterators over one sampler")
    if not ok:
        return False
    run.count("concurrent_iterators_checked")
    for j in (0, 1):
        got = [int(i) if hasattr(i, "__index__") and not isinstance(i, bool) else i for i in out[j]]
        if got != alone:
            run.violation(f"{kind}:concurrent-iterators", f"{what} epoch {epoch} rank {r}/{spec['W']}: two iterators over the same sampler object consumed "
                                                         f"alternately (first one {lag} ahead): iterator {j} yields {_s(got)}, a stand-alone iteration "
                                                         f"with the same seed/epoch yields {_s(alone)}")
            return False
    return True


def _n(spec):
    return len(spec["weights"]) if spec["kind"] == "weighted" else len(spec["classes"])


def _wclass(E, W):
    if W == 1:
        return "W1"
    if W > E:
        return "W>E"
    return "W|E" if E % W == 0 else "W∤E"


# ------------------------------------------------------------------------------------------------ class-balanced
def _relabeled(spec):
    classes = list(spec["classes"])
    for i, c in spec["relabel"]:
        classes[i] = c
    return dict(spec, classes=classes, relabel=None)


def _run_cb(run, spec, ds=None):
    classes, dim, W = spec["classes"], spec["dim"], spec["W"]
    ncls = max(2, dim)
    cnt = Counter(classes)
    absent = [c for c in range(ncls) if cnt[c] == 0]
    spc = spec["spc"] if spec["spc"] is not None else max(cnt.values())
    E = ncls * spc
    phase = "" if ds is None else " built after relabeling the same dataset object"
    if ds is None:
        ds = _dataset(classes, dim, spec["getall"], spec["item"], spec["decoy_shift"])
    else:
        run.count("relabel_histories_checked")
    kw = {"shuffle": spec["shuffle"], "seed": spec["seed"]}
    if spec["spc"] is not None:
        kw["samples_per_class"] = spec["spc"]
    if spec["item"] == "group" and spec["getall"] != "none":
        kw["getall_item"] = "group"
    what = f"ClassBalancedSampler({kw}, class sizes {[cnt[c] for c in range(ncls)]}, labels as {spec['getall']}){phase}{spec.get('tag', '')}"
    lo, hi = min(v for v in cnt.values()), max(cnt.values())
    spc_cls = "none" if spec["spc"] is None else "<=min" if spc <= lo else "<=max" if spc <= hi else ">max"
    run.cover("cb", _wclass(E, W), spc_cls, spec["shuffle"], spec["getall"], "binary" if dim == 1 else "multi",
              "absent" if absent else "full", kw.get("getall_item", "class"), "relabeled" if phase else "first")
    make = lambda kw, rk: ClassBalancedSampler(ds, **kw, **rk)
    samplers = _construct(run, spec, lambda **rk: make(kw, rk), len(classes) + ncls, what,
                          refusal_class="cb:absent-class" if absent else None)
    if samplers is None:
        return
    pools = {c: [i for i, x in enumerate(classes) if x == c] for c in range(ncls)}
    for e in spec["epochs"]:
        streams = _epoch(run, spec, samplers, e, E // W, E + len(classes) + ncls, what)
        if streams is None:
            return
        run.count("cb_epochs_checked")
        use = Counter(i for st in streams for i in st)
        per_class = Counter()
        for i, u in use.items():
            per_class[classes[i]] += u
        deficit = E - W * (E // W)
        over = {c: per_class[c] for c in range(ncls) if per_class[c] > spc}
        if over or sum(spc - per_class[c] for c in range(ncls)) != deficit:
            run.violation("cb:class-count", f"{what} epoch {e}, {W} rank(s): per-class totals {[per_class[c] for c in range(ncls)]}, promised "
                                            f"{spc} each" + (f" (only the {deficit} dropped trailing indices may be missing)" if deficit else "")
                          + f"; streams {_s(streams)}")
            return
        for c in range(ncls):
            n_c = len(pools[c])
            if n_c == 0:
                continue
            q, r = divmod(spc, n_c)
            us = [use[i] for i in pools[c]]
            run.count("cb_reuse_checked")
            if max(us) > q + (1 if r else 0) or (r and sum(1 for u in us if u == q + 1) > r):
                run.violation("cb:uneven-reuse", f"{what} epoch {e}: class {c} with {n_c} samples and samples_per_class={spc}: usage counts "
                                                 f"{_s(dict(zip(pools[c], us)))} cannot come from an epoch in which usage differs by at most one "
                                                 f"(each sample {q}x, {r} of them {q + 1}x)")
                return
        if e == spec["epochs"][0] and E // W > 0:
            run.sample({"kind": "cb", "class_sizes": [cnt[c] for c in range(ncls)], "spc": spec["spc"], "W": W, "epoch": e,
                        "per_class_totals": [per_class[c] for c in range(ncls)], "rank0": streams[0][:24]}, cap=2)
    if not _pair_check(run, spec, samplers, e, streams, E + len(classes) + ncls, what):
        return
    return {"ds": ds, "samplers": samplers, "epoch": e, "streams": streams, "make": make, "kw": kw, "hint": E + len(classes) + ncls, "what": what, "want": E // W}


# ------------------------------------------------------------------------------------------------ semi
def _log_falling(n, k):
    """log(n! / (n-k)!)"""
    return math.lgamma(n + 1) - math.lgamma(n - k + 1)


def _run_semi_entry(run, spec):
    via = spec.get("via")
    if not via:
        return _run_semi(run, spec)
    base = spec["classes"]
    n = len(base)
    inner = Leaf(n, classes=base, n_classes=max(base) + 1, getall_kind="list" if spec["getall"] == "none" else spec["getall"])
    ok, ds = call_real(run, lambda: SemiWrapper(dataset=inner, semi_percent=via["percent"], seed=via["wseed"]), crash_key="semi:wrapper-crash",
                       what=f"SemiWrapper(semi_percent={via['percent']}) over {n} samples")
    if not ok:
        return
    ok, classes = call_real(run, lambda: [ds.getitem_class(i) for i in range(n)], crash_key="semi:wrapper-crash", what="SemiWrapper.getitem_class")
    if not ok:
        return
    classes = [int(c) for c in classes]
    if all(c == -1 for c in classes) or all(c != -1 for c in classes):
        run.count("semi_over_semiwrapper_one_pool_empty")
        return
    run.count("semi_over_semiwrapper_checked")
    return _run_semi(run, dict(spec, classes=classes), ds=ds, relabeled=False)


def _run_semi(run, spec, ds=None, relabeled=True):
    classes, L, U, W, mode = spec["classes"], spec["L"], spec["U"], spec["W"], spec["mode"]
    lab = [i for i, c in enumerate(classes) if c != -1]
    unl = [i for i, c in enumerate(classes) if c == -1]
    labset = set(lab)
    E = _effective(spec)
    phase = "" if ds is None or not relabeled else " built after relabeling the same dataset object"
    if ds is None:
        ds = _dataset(classes, max(1, max(classes) + 1), spec["getall"])
    elif relabeled:
        run.count("relabel_histories_checked")
    if spec.get("via"):
        phase = " over SemiWrapper"
    kw = {"num_labeled": L, "num_unlabeled": U, "seed": spec["seed"], "length_mode": mode}
    what = f"SemiSampler({kw}, {len(lab)} labeled / {len(unl)} unlabeled, labels as {spec['getall']}){phase}{spec.get('tag', '')}"
    want = E // W
    n_lab_pos = sum(1 for k in range(want) if k % (L + U) < L)
    run.cover("semi", mode, _wclass(E, W), "L1" if L == 1 else "L>1", "U1" if U == 1 else "U>1",
              "L|pool" if len(lab) % L == 0 else "L∤pool", "U|pool" if len(unl) % U == 0 else "U∤pool",
              "lab-repeats" if n_lab_pos > len(lab) else "lab-once", "unl-repeats" if want - n_lab_pos > len(unl) else "unl-once",
              "relabeled" if phase else "first")
    make = lambda kw, rk: SemiSampler(ds, **kw, **rk)
    samplers = _construct(run, spec, lambda **rk: make(kw, rk), len(classes), what)
    if samplers is None:
        return
    for e in spec["epochs"]:
        raw = []
        streams = _epoch(run, spec, samplers, e, want, E + len(classes), what, raw=raw)
        if streams is None:
            return
        run.count("semi_epochs_checked")
        for r, st in enumerate(streams):
            subs = {True: [], False: []}
            for k, i in enumerate(st):
                is_lab_pos = k % (L + U) < L
                if (i in labset) != is_lab_pos:
                    run.violation("semi:alternation", f"{what} epoch {e} rank {r}: position {k} must be {'labeled' if is_lab_pos else 'unlabeled'} "
                                                      f"but index {i} has class {classes[i]}; classes of the stream: {_s([classes[j] for j in st])}")
                    return
                subs[is_lab_pos].append(i)
            for is_lab, pool in ((True, lab), (False, unl)):
                sub = subs[is_lab]
                for b in range(0, len(sub), len(pool)):
                    block = sub[b:b + len(pool)]
                    run.count("semi_blocks_checked")
                    if len(set(block)) != len(block):
                        dup = [i for i, c in Counter(block).items() if c > 1]
                        run.violation("semi:repeat-before-pool-exhausted",
                                      f"{what} epoch {e} rank {r}: the {'labeled' if is_lab else 'unlabeled'} sub-stream {_s(sub)} repeats {dup} inside "
                                      f"pass {b // len(pool)} over its pool of {len(pool)} (elements {b}..{b + len(block) - 1})")
                        return
        # seen through the dataset the sampler was built for, with the indices exactly as emitted
        for r, emitted in enumerate(raw):
            ok, labs = call_real(run, lambda: [ds.getitem_class(i) for i in emitted], crash_key="semi:emitted-index-rejected-by-dataset",
                                 what=f"{what} epoch {e} rank {r}: dataset.getitem_class(emitted index)")
            if not ok:
                return
            run.count("semi_through_dataset_checked")
            wrong = [k for k, c in enumerate(labs) if (c != -1) != (k % (L + U) < L)]
            if wrong:
                run.violation("semi:alternation-through-dataset",
                              f"{what} epoch {e} rank {r}: labels fetched from the dataset with the emitted indices are {_s([int(c) for c in labs])}; positions "
                              f"{_s(wrong)} break the {L} labeled / {U} unlabeled alternation (emitted: {_s(emitted)})")
                return
        # different ranks, different streams -- only where a coincidence is practically impossible
        kl, ku = min(n_lab_pos, len(lab)), min(want - n_lab_pos, len(unl))
        evidence = max(_log_falling(len(lab), kl), _log_falling(len(unl), ku))
        if W > 1 and evidence >= LOG_COINCIDENCE_BOUND:
            for a, b in itertools.combinations(range(W), 2):
                run.count("semi_rank_pairs_compared")
                if streams[a] == streams[b]:
                    run.violation("semi:ranks-identical-streams", f"{what} epoch {e}: ranks {a} and {b} of {W} yield the same stream {_s(streams[a])}")
                    return
        elif W > 1:
            run.count("semi_rank_pairs_too_small_to_judge", W * (W - 1) // 2)
        if e == spec["epochs"][0] and want > 0:
            run.sample({"kind": "semi", "labeled": len(lab), "unlabeled": len(unl), "L": L, "U": U, "mode": mode, "W": W, "epoch": e,
                        "len": want, "rank0_classes": [classes[i] for i in streams[0][:24]]}, cap=4)
    if spec.get("via") and spec["via"]["loader"] and want > 0:
        r = W - 1

        def load():
            samplers[r].set_epoch(e)
            dl = DataLoader(ModeWrapper(dataset=ds, mode="class"), sampler=samplers[r], batch_size=L + U)
            return [int(x) for batch in dl for x in batch]
        ok, labs = call_real(run, load, crash_key="semi:loader-crash", what=f"{what} epoch {e} rank {r}: DataLoader(ModeWrapper(ds, 'class'), sampler=sampler)")
        if not ok:
            return
        run.count("semi_through_loader_checked")
        wrong = [k for k, c in enumerate(labs) if (c != -1) != (k % (L + U) < L)]
        if wrong or len(labs) != want:
            run.violation("semi:alternation-through-loader",
                          f"{what} epoch {e} rank {r}: DataLoader(ModeWrapper(ds, 'class'), sampler=sampler, batch_size={L + U}) delivers labels {_s(labs)} "
                          f"({len(labs)} for len(sampler) = {want}); positions {_s(wrong)} break the {L} labeled / {U} unlabeled alternation")
            return
    if not _pair_check(run, spec, samplers, e, streams, E + len(classes), what):
        return
    # note (never a verdict): rank a in epoch b vs rank b in epoch a
    if W > 1 and want > 0 and max(_log_falling(len(lab), min(n_lab_pos, len(lab))),
                                  _log_falling(len(unl), min(want - n_lab_pos, len(unl)))) >= LOG_COINCIDENCE_BOUND:
        try:
            samplers[0].set_epoch(1)
            a = list(itertools.islice(iter(samplers[0]), want + 8))
            samplers[1].set_epoch(0)
            b = list(itertools.islice(iter(samplers[1]), want + 8))
            run.count("note_semi_rank_epoch_swap_compared")
            if a == b:
                run.count("note_semi_rank0_epoch1_equals_rank1_epoch0")
        except Exception:
            pass
    return {"ds": ds, "samplers": samplers, "epoch": e, "streams": streams, "make": make, "kw": kw, "hint": E + len(classes), "what": what, "want": want}


# ------------------------------------------------------------------------------------------------ weighted
def _run_weighted(run, spec):
    w, W = spec["weights"], spec["W"]
    n = len(w)
    E = _effective(spec)
    nnz = sum(1 for x in w if x > 0)
    ds = Leaf(n, classes=[0] * n, n_classes=1)
    weights = torch.tensor(w, dtype=getattr(torch, spec["dtype"]))
    kw = {"seed": spec["seed"]}
    if spec["size"] is not None:
        kw["size"] = spec["size"]
    what = f"WeightedSampler({kw}, {n} {spec['dtype']} weights, {n - nnz} of them zero){spec.get('tag', '')}"
    run.cover("weighted", _wclass(E, W), "size-none" if spec["size"] is None else "size=n" if E == n else "size<n",
              "no-zeros" if nnz == n else "zeros-enough" if nnz >= E else "zeros-short", spec["dtype"], "n1" if n == 1 else "n>1")
    make = lambda kw, rk: WeightedSampler(ds, weights=weights, **kw, **rk)
    samplers = _construct(run, spec, lambda **rk: make(kw, rk), n, what)
    if samplers is None:
        return
    for e in spec["epochs"]:
        streams = _epoch(run, spec, samplers, e, E // W, E + n, what)
        if streams is None:
            return
        run.count("weighted_epochs_checked")
        use = Counter(i for st in streams for i in st)
        dup = sorted(i for i, u in use.items() if u > 1)
        if dup:
            run.violation("weighted:repeat", f"{what} epoch {e}, {W} rank(s): indices {_s(dup)} occur more than once in one epoch; streams {_s(streams)}")
            return
        if nnz < n and nnz >= E:
            run.count("weighted_zero_weight_checked")
            zero = sorted(i for i in use if w[i] == 0)
            if zero:
                run.violation("weighted:zero-weight-drawn", f"{what} epoch {e}: indices {_s(zero)} have weight 0 but were drawn although {nnz} >= {E} "
                                                            f"weights are non-zero; streams {_s(streams)}")
                return
        if e == spec["epochs"][0] and E // W > 0:
            run.sample({"kind": "weighted", "n": n, "zeros": n - nnz, "size": spec["size"], "W": W, "epoch": e, "streams": [s[:16] for s in streams[:3]]}, cap=6)
    if not _pair_check(run, spec, samplers, e, streams, E + n, what):
        return
    return {"samplers": samplers, "epoch": e, "streams": streams, "make": make, "kw": kw, "hint": E + n, "what": what, "want": E // W}


def _numtype_check(run, spec, res):
    """the same construction with numpy-typed numeric arguments must give the same len and stream"""
    nt = spec.get("numtypes")
    if not nt or (spec["W"] == 1 and spec.get("defaults")):
        return True
    kind, e, what = spec["kind"], res["epoch"], res["what"]
    kw = {k: (_conv(nt[k], v) if k in nt else v) for k, v in res["kw"].items()}
    for r, alone in enumerate(res["streams"]):
        rk = {k: (_conv(nt[k], v) if k in nt else v) for k, v in {"rank": r, "world_size": spec["W"]}.items()}
        shown = {k: f"{type(v).__name__}({v})" for k, v in {**kw, **rk}.items() if k in nt}

        def go():
            s = res["make"](kw, rk)
            s.set_epoch(e)
            return len(s), list(itertools.islice(iter(s), len(alone) + 8))
        run.count("step_budget_runs")
        with StepBudget(_budget(2 * res["hint"]), _CODES(), what=f"{what} with {shown}"):
            ok, got = call_real(run, go, crash_key=f"{kind}:numeric-type-crash", what=f"{what} constructed with {shown}")
        if not ok:
            return False
        run.count("numeric_type_variants_checked")
        if got[0] != res["want"] or got[1] != alone:
            run.violation(f"{kind}:numeric-type-changes-result",
                          f"{what} epoch {e} rank {r}/{spec['W']}: with {shown} len = {got[0]}, stream {_s(got[1])}; with python ints of equal value "
                          f"len = {res['want']}, stream {_s(alone)}")
            return False
    return True


def _reconf_check(run, spec, res):
    """built with another value, the public attribute assigned before the first iteration == built with the final value"""
    rc = spec.get("reconf")
    if not rc:
        return True
    kind, e, what = spec["kind"], res["epoch"], res["what"]
    final = {"size": spec.get("size"), "samples_per_class": spec.get("spc"), "shuffle": spec.get("shuffle"),
             "num_labeled": spec.get("L"), "num_unlabeled": spec.get("U")}
    kw0 = dict(res["kw"])
    for a, init in rc:
        if init is None:
            kw0.pop(a, None)
        else:
            kw0[a] = init
    shown = {a: f"{init!r} -> {final[a]!r}" for a, init in rc}
    for r, alone in enumerate(res["streams"]):
        def go():
            s = res["make"](kw0, _rank_kwargs(spec, r))
            for a, _ in rc:
                setattr(s, a, final[a])
            s.set_epoch(e)
            return len(s), list(itertools.islice(iter(s), len(alone) + 8))
        run.count("step_budget_runs")
        with StepBudget(_budget(2 * res["hint"] + 400), _CODES(), what=f"{what} reconfigured {shown}"):
            ok, got = call_real(run, go, crash_key=f"{kind}:reconfiguration-crash", what=f"{what}, attributes assigned after construction: {shown}")
        if not ok:
            return False
        run.count("reconfigurations_checked")
        if got[0] != res["want"] or got[1] != alone:
            run.violation(f"{kind}:reconfiguration-ignored",
                          f"{what} epoch {e} rank {r}/{spec['W']}: constructed with other values and assigned {shown} before the first iteration: "
                          f"len = {got[0]}, stream {_s(got[1])}; a sampler constructed with the final values has len = {res['want']}, stream {_s(alone)}")
            return False
    return True


def _cross_check(run, spec, a, b):
    """two instances of one family over different datasets: re-iterated one after the other and alternately, each keeps its own stream"""
    kind, e = spec["kind"], a["epoch"]
    hint = a["hint"] + b["hint"]

    def sequential():
        out = []
        for x in (b, a, b, a):
            for s in x["samplers"]:
                s.set_epoch(e)
            out.append([list(itertools.islice(iter(s), x["want"] + 8)) for s in x["samplers"]])
        return out

    def alternately():
        sa, sb = a["samplers"][-1], b["samplers"][-1]
        sa.set_epoch(e)
        sb.set_epoch(e)
        its = [iter(sa), iter(sb)]
        out = [[], []]
        live = [True, True]
        while any(live):
            for j in (0, 1):
                if live[j]:
                    try:
                        out[j].append(next(its[j]))
                    except StopIteration:
                        live[j] = False
                    if len(out[j]) > (a, b)[j]["want"] + 8:
                        live[j] = False
        return out
    run.count("step_budget_runs")
    with StepBudget(_budget(4 * hint * max(1, spec["W"])), _CODES(), what=f"{a['what']} / second instance: re-iteration"):
        ok, seq = call_real(run, sequential, crash_key=f"{kind}:iter-crash", what=f"{a['what']} and a second instance re-iterated one after the other")
        if not ok:
            return
        ok, alt = call_real(run, alternately, crash_key=f"{kind}:iter-crash", what=f"{a['what']} and a second instance iterated alternately")
        if not ok:
            return
    run.count("cross_instance_reiterations_checked")
    for x, got, how in ((b, seq[0], "re-iterated after the first instance"), (a, seq[1], "re-iterated after the second instance"),
                        (b, seq[2], "re-iterated again"), (a, seq[3], "re-iterated again"),
                        (a, None, "iterated alternately with the second instance"), (b, None, "iterated alternately with the first instance")):
        if got is None:
            got_r, ref_r = alt[0 if x is a else 1], x["streams"][-1]
            bad = got_r != ref_r
        else:
            bad = got != x["streams"]
            got_r, ref_r = got, x["streams"]
        if bad:
            run.violation(f"{kind}:cross-instance-interference",
                          f"{x['what']} epoch {e}, {how} (other instance: {(b if x is a else a)['what']}): yields {_s(got_r)}, its own stream is {_s(ref_r)}")
            return


_nonterminating = Counter()  # per kind; after a few budget overruns the kind is no longer driven (each overrun burns a whole budget)


def run_case(run, spec):
    kind = spec["kind"]
    if _nonterminating[kind] >= 6:
        run.count(f"skipped_{kind}_after_repeated_nontermination")
        return
    try:
        fn = {"cb": _run_cb, "semi": _run_semi_entry, "weighted": _run_weighted}[kind]
        res = fn(run, spec)
        if res is None:
            return
        if not _numtype_check(run, spec, res):
            return
        if not _reconf_check(run, spec, res):
            return
        comp = spec.get("companion")
        if comp:
            res2 = fn(run, comp)  # judged against ITS OWN dataset
            if res2 is not None:
                run.count("companion_instances_checked")
                _cross_check(run, spec, res, res2)
        if spec.get("relabel"):
            # history: labels change on the SAME dataset object, NEW samplers are built and judged against the current labels
            spec2 = _relabeled(spec)
            _set_labels(res["ds"], spec2["classes"])
            {"cb": _run_cb, "semi": _run_semi}[kind](run, spec2, ds=res["ds"])
    except core.StepBudgetExceeded:
        _nonterminating[kind] += 1
        raise


def _s(v):
    r = repr(v)
    return r if len(r) < 300 else r[:300] + "…"
