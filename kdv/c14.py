"""C14 — geometric transforms stay in bounds and their recorded parameters tell the truth.

Four families of observations, all at the API boundary `t(x, ctx)` / `ctx`:

* crops      : the box recorded in ctx lies inside the (hand-padded) input, has the requested size, and
               torchvision.transforms.functional.crop / resized_crop applied by hand with the recorded numbers reproduces
               the returned tensor / PIL image bit for bit (two-crop: both boxes, the recorded IoU and the IoU window).
* erase/mask : KDRandomErasing / KDSpecAugment keep the shape, touch only rectangles / one band per axis, the band is
               narrower than the mask parameter; everything else is bit-identical to the input.
* pairs      : image and segmentation mask are built from one coordinate code, so the output image names, pixel by pixel,
               the input pixel it shows; the output mask has to carry that pixel's label (padding: image 0, mask -1).
               Single transforms and SemsegTransformWrapper pipelines (fused and separate member access).
* several calls on ONE transform instance (crops, PatchifyImage, PatchwiseShuffle), each with its own ctx; every
               (input, output, ctx) triple is verified only after the last call: the record of an earlier call must still
               tell the truth after later calls.
* inverses   : Patchify/Unpatchify, PatchifyImage/UnpatchifyImage (+ shuffle undone with the recorded permutation),
               normalise/denormalise.
"""
from __future__ import annotations

import importlib
import math
import traceback

import numpy as np
import torch
import torchvision.transforms as T
import torchvision.transforms.functional as F
from torchvision.transforms import InterpolationMode

from kappadata.transforms import (
    KDRandomCrop, KDRandomResizedCrop, KDSimpleRandomCrop, KDRandomErasing, KDSpecAugment,
    KDSemsegPad, KDSemsegResize, KDSemsegRandomResize, KDSemsegRandomHorizontalFlip, KDSemsegRandomCrop,
    Patchify, Unpatchify, PatchifyImage, UnpatchifyImage, PatchwiseShuffle, KDImageNorm, KDImageRangeNorm,
)
from kappadata.transforms import KDRandomSolarize
from kappadata.wrappers import SemsegTransformWrapper

KDTwoRandomCrop = importlib.import_module("kappadata.transforms.kd_two_random_crop").KDTwoRandomCrop
KDSemsegOverlappedMultiCrop = importlib.import_module(
    "kappadata.transforms.semseg.kd_semseg_overlapped_multi_crop").KDSemsegOverlappedMultiCrop
KDSemsegRandomResizeOld = importlib.import_module(
    "kappadata.transforms.semseg.kd_semseg_random_resize_old").KDSemsegRandomResizeOld

from . import core
from . import h14_geom as G
from .harness import StepBudget, call_real, codes_of, same

LEVEL = "exploration"
RULE = ("per transform kind: input sizes 1..64 (non-square, biased to 1/2/3 and to the target size +-1), tensor and PIL inputs, "
        "targets smaller / equal / one pixel smaller / larger (pad_if_needed), all four padding modes inside torch's limits, "
        "extreme scale / ratio / area / aspect ranges, every divisor as patch size, p in {0, .5, 1}, injected seeds; a case = "
        "(kind, configuration, input size, io, data seed, rng seed); non-trivial = input has more than one pixel; distinct by "
        "full spec")
ASSUMPTIONS = [
    "crop target <= padded input unless pad_if_needed; reflect padding < input side, symmetric padding <= input side (torch limits)",
    "the padded input of a random crop is torchvision's: explicit padding first, then (pad_if_needed) the deficit on both sides",
    "random resize is driven only on inputs with min side >= 4, aspect <= 8 and configurations whose smallest output side is >= 1",
    "image and mask of a pair are of the same kind (both tensors or both PIL; PIL masks in mode 'I'): torch and PIL nearest "
    "resampling are documented by the repository's tests to differ; image interpolation is nearest for paired checks",
    "max_category_ratio < 1 only with tensor masks (needs Tensor.unique); erasing min_count >= 1; two-crop tries=None only with the full IoU window",
    "SpecAugment band width is required to be strictly below the mask parameter (torchaudio's documented [0, mask_param))",
    "tensor segmentation maps are driven as (H, W) and as (1, H, W), images with 1 / 3 / 4 channels: every paired transform (pad, resize, random resize, "
    "random resize old, flip, crop incl. category retry, overlapped multi crop, wrapper pipelines) accepts both on the current tree - none refuses; "
    "KDRandomSolarize (torchvision: 1 or 3 channels) is only placed in pipelines with 1 / 3-channel images",
    "placement of the semseg padding (centred) and the number of erased rectangles actually drawn are not judged",
    "denorm(norm(x)) / norm(denorm(x)) are compared with atol 1e-5 on values in [0,1], std in [0.05, 2]; the closed forms (x-mean)/std and y*std+mean with rtol = atol = 1e-5",
]
MONITORS = ["paired_channel_dim_maps", "crop_reproduced", "erase_checked", "specaugment_checked", "paired_checked", "pipeline_checked", "inverse_checked",
            "pipeline_separate_access_with_image_only_draws", "multi_call_series"]

CROP_KINDS = ["random_crop", "two_random_crop", "random_resized_crop", "simple_random_crop"]
ERASE_KINDS = ["erasing", "specaugment"]
PAIR_KINDS = ["pad", "resize", "random_resize", "random_resize_old", "hflip", "semseg_crop", "multi_crop", "pipeline", "pipeline"]
INV_KINDS = ["patchify", "patchify_image", "shuffle_chain", "norm"]
ALL_KINDS = CROP_KINDS * 2 + ERASE_KINDS + PAIR_KINDS + INV_KINDS

PAD_MODES = ["constant", "constant", "edge", "reflect", "symmetric"]
INTERP = ["nearest", "bilinear", "bicubic"]


# ================================================================================================ generators
def _side(rng, hi=64, lo=1):
    r = rng.random()
    if r < 0.18:
        return max(lo, rng.choice([1, 2, 3]))
    if r < 0.30:
        return rng.choice([hi, hi - 1, 32, 16, 8])
    return rng.randint(lo, hi)


def _sides_aspect(rng, hi=64, lo=1, max_aspect=8):
    for _ in range(50):
        h, w = _side(rng, hi, lo), _side(rng, hi, lo)
        if max(h, w) <= max_aspect * min(h, w):
            return h, w
    return lo + 3, lo + 3


def _compress_padding(rng, pads):
    l, t, r, b = pads
    if l == t == r == b:
        c = rng.random()
        if l == 0 and c < 0.5:
            return None
        return l if c < 0.8 else [l, t, r, b]
    if l == r and t == b and rng.random() < 0.7:
        return [l, t]
    return [l, t, r, b]


def _gen_padding(rng, mode, h, w, maxp=6):
    if rng.random() < 0.4:
        return None
    form = rng.choice(["int", "two", "four"])
    if form == "int":
        p = rng.randint(0, maxp)
        pads = (p, p, p, p)
    elif form == "two":
        a, b = rng.randint(0, maxp), rng.randint(0, maxp)
        pads = (a, b, a, b)
    else:
        pads = tuple(rng.randint(0, maxp) for _ in range(4))
    if mode == "reflect":
        lw, lh = w - 1, h - 1
    elif mode == "symmetric":
        lw, lh = w, h
    else:
        lw = lh = 10 ** 6
    pads = (min(pads[0], lw), min(pads[1], lh), min(pads[2], lw), min(pads[3], lh))
    return _compress_padding(rng, pads)


def _gen_crop_cfg(rng, h, w):
    """configuration of a KDRandomCrop inside the stated domain -> dict"""
    mode = rng.choice(PAD_MODES)
    padding = _gen_padding(rng, mode, h, w)
    l, t, r, b = G.norm_padding(padding)
    hp, wp = h + t + b, w + l + r
    rel = rng.choice(["equal", "margin1", "smaller", "smaller", "larger"])
    pin = rng.random() < 0.25
    if rel == "larger":
        if mode == "reflect":
            mh, mw = hp - 1, wp - 1
        elif mode == "symmetric":
            mh, mw = hp, wp
        else:
            mh = mw = 8
        dh, dw = rng.randint(0, min(mh, 8)), rng.randint(0, min(mw, 8))
        if dh == 0 and dw == 0:
            if mh > 0:
                dh = 1
            elif mw > 0:
                dw = 1
            else:
                rel = "equal"
        th, tw = hp + dh, wp + dw
        pin = True
    if rel == "equal":
        th, tw = hp, wp
    elif rel == "margin1":
        th, tw = max(1, hp - rng.choice([0, 1])), max(1, wp - rng.choice([0, 1, 1]))
    elif rel == "smaller":
        th, tw = rng.randint(1, hp), rng.randint(1, wp)
    size = th if (th == tw and rng.random() < 0.5) else [th, tw]
    return {"size": size, "padding": padding, "pad_if_needed": pin, "fill": rng.choice([0, 0, 1, 7, 200]), "padding_mode": mode, "rel": rel}


_SCALES = [(0.08, 1.0), (0.001, 0.01), (1.0, 1.0), (0.9, 1.0), (0.2, 0.3), (1.0, 2.0), (0.5, 0.5), (0.0001, 1.0)]
_RATIOS = [(3 / 4, 4 / 3), (1.0, 1.0), (0.05, 0.1), (10.0, 20.0), (0.01, 100.0), (3.0, 4.0), (0.2, 0.3), (0.5, 2.0)]


def _gen_pipeline(rng, sizes, io):
    """stage list for SemsegTransformWrapper; tracks the member sizes where they are known so that the random resize is
    only placed on inputs inside its domain. Image-only stages: 'norm' (deterministic), 'xdraw' (harness transform that
    consumes draws of the injected generator) and 'solarize' (KDRandomSolarize at the no-op / invertible threshold)."""
    cur = list(sizes)
    stages = []
    used_norm = False
    r = rng.random()
    if r < 0.25:
        plan = ["rresize", "crop", "hflip", "norm", "pad"]
    elif r < 0.5:
        # a stochastic image-only stage in front of stochastic paired stages (shared per-sample generator)
        plan = [rng.choice(["xdraw", "solarize"]), rng.choice(["crop_room", "rresize"]), "hflip_half", rng.choice(["xdraw", "pad", "crop_room"]), "pad"]
        if rng.random() < 0.5:
            plan.insert(0, rng.choice(["hflip_half", "resize", "norm"]))
    else:
        plan = None
    allow_norm = True
    if plan is not None and "solarize" in plan and io == "tensor":
        allow_norm = False
    n = len(plan) if plan else rng.randint(2, 5)
    for k in range(n):
        kind = plan[k] if plan else rng.choice(["rresize", "crop", "crop", "hflip", "pad", "resize", "norm", "xdraw", "solarize"])
        if kind == "norm":
            if io != "tensor" or used_norm or not allow_norm:
                continue
            used_norm = True
            stages.append({"k": "norm"})
        elif kind == "xdraw":
            stages.append({"k": "xdraw", "n": rng.choice([1, 1, 2, 3])})
        elif kind == "solarize":
            if io == "tensor" and used_norm:
                continue
            allow_norm = allow_norm and io != "tensor"
            stages.append({"k": "solarize", "p": rng.choice([0.5, 0.5, 1.0, 0.0])})
        elif kind in ("hflip", "hflip_half"):
            stages.append({"k": "hflip", "p": 0.5 if kind == "hflip_half" else rng.choice([0.0, 1.0, 0.5, 0.5])})
        elif kind == "resize":
            s = [rng.randint(1, 48), rng.randint(1, 48)]
            stages.append({"k": "resize", "size": s})
            cur = [tuple(s)] * len(sizes)
        elif kind == "pad":
            s = [rng.randint(1, 72), rng.randint(1, 72)]
            stages.append({"k": "pad", "size": s})
            if cur is not None:
                cur = [(max(h, s[0]), max(w, s[1])) for h, w in cur]
        elif kind in ("crop", "crop_room"):
            if kind == "crop_room" and cur is not None:
                # leave room so that the window position really depends on the draws
                mh, mw = min(h for h, _ in cur), min(w for _, w in cur)
                s = [rng.randint(1, max(1, mh // 2)), rng.randint(1, max(1, mw // 2))]
            else:
                s = [rng.randint(1, 48), rng.randint(1, 48)]
            mcr = rng.choice([1.0, 1.0, 0.75, 0.3]) if io == "tensor" else 1.0
            stages.append({"k": "crop", "size": s, "mcr": mcr, "ignore": rng.choice([-1, -1, 255])})
            if cur is not None:
                cur = [(min(h, s[0]), min(w, s[1])) for h, w in cur]
        elif kind == "rresize":
            if cur is None:
                continue
            cfg = _gen_rresize_cfg(rng, cur)
            if cfg is None:
                continue
            stages.append(dict(cfg, k="rresize"))
            cur = None
    if not stages:
        stages.append({"k": "hflip", "p": 1.0})
    return stages


def _rresize_scale1(h, w, base):
    return min(max(base) / max(h, w), min(base) / min(h, w))


def _gen_rresize_cfg(rng, sizes):
    """base size and ratio range such that every listed input stays inside the random-resize domain"""
    if any(min(h, w) < 4 or max(h, w) > 8 * min(h, w) for h, w in sizes):
        return None
    for _ in range(30):
        base = [rng.randint(4, 96), rng.randint(4, 96)]
        lo, hi = rng.choice([(0.5, 2.0), (1.0, 1.0), (0.75, 1.25), (0.3, 0.6), (1.5, 3.0), (0.9, 1.1)])
        ok = True
        for h, w in sizes:
            s1 = _rresize_scale1(h, w, base)
            if min(h, w) * s1 * lo < 1.5 or max(h, w) * s1 * hi > 200:
                ok = False
        if ok:
            return {"base": base, "ratio": [lo, hi]}
    return None


def _gen_norm_stats(rng, c):
    """per-channel statistics, biased to the boundary classes: exact 0 in some / all means, exact 1 in some / all stds,
    integer-typed statistics -> (mean, std, class name)"""
    cls = rng.choice(["random", "random", "mean_some_zero", "mean_some_zero", "mean_all_zero", "std_some_one", "std_all_one",
                      "zero_mean_unit_std", "int", "int_mixed"])
    mean = [round(rng.uniform(0.01, 1), 3) for _ in range(c)]
    std = [round(rng.uniform(0.05, 2), 3) for _ in range(c)]
    def some(n):
        k = rng.randint(1, max(1, n - 1))
        return set(rng.sample(range(n), k))
    if cls == "mean_some_zero":
        if c == 1:
            cls = "mean_all_zero"
        else:
            for i in some(c):
                mean[i] = 0.0
    if cls == "mean_all_zero":
        mean = [0.0] * c
    elif cls == "std_some_one":
        for i in some(c):
            std[i] = 1.0
        if rng.random() < 0.5 and c > 1:
            mean[rng.randrange(c)] = 0.0
    elif cls == "std_all_one":
        std = [1.0] * c
    elif cls == "zero_mean_unit_std":
        mean, std = [0.0] * c, [1.0] * c
    elif cls == "int":
        mean, std = [rng.choice([0, 1]) for _ in range(c)], [rng.choice([1, 2]) for _ in range(c)]
    elif cls == "int_mixed":
        mean = [rng.choice([0, 1, round(rng.uniform(0.01, 1), 3)]) for _ in range(c)]
        std = [rng.choice([1, 2, round(rng.uniform(0.05, 2), 3)]) for _ in range(c)]
    return mean, std, cls


def _gen_spec(rng, kind):
    s = {"kind": kind, "seed": rng.randrange(2 ** 31), "data_seed": rng.randrange(2 ** 31)}
    io = rng.choice(["tensor", "tensor", "pil"])
    if kind in ("random_crop", "two_random_crop"):
        h, w = _side(rng), _side(rng)
        s.update(h=h, w=w, c=rng.choice([1, 3]), io=io, cfg=_gen_crop_cfg(rng, h, w))
        if kind == "two_random_crop":
            omax = rng.choice([None, None, 1.0, 0.9, 0.5, 0.2, 0.0])
            omin = rng.choice([None, 0.0, 0.1, 0.3, 0.5])
            if omax is not None and omin is not None and omin > omax:
                omin = rng.choice([None, 0.0])
            full = (omin in (None, 0.0)) and (omax in (None, 1.0))
            tries = rng.choice([1, 2, 5, 20, 20, None]) if full else rng.choice([1, 2, 5, 20, 20])
            s.update(omin=omin, omax=omax, tries=tries)
    elif kind == "random_resized_crop":
        h, w = _side(rng), _side(rng)
        size = rng.randint(1, 32) if rng.random() < 0.5 else [rng.randint(1, 32), rng.randint(1, 32)]
        if rng.random() < 0.75:
            scale, ratio = rng.choice(_SCALES), rng.choice(_RATIOS)
        else:
            a, b = sorted([10 ** rng.uniform(-3, 0.3), 10 ** rng.uniform(-3, 0.3)])
            c, d = sorted([10 ** rng.uniform(-2, 2), 10 ** rng.uniform(-2, 2)])
            scale, ratio = (a, b), (c, d)
        s.update(h=h, w=w, c=rng.choice([1, 3]), io=io, size=size, scale=list(scale), ratio=list(ratio), interp=rng.choice(INTERP))
    elif kind == "simple_random_crop":
        h, w = _sides_aspect(rng)
        if rng.random() < 0.6:
            size = rng.randint(1, 24)
            m = size
        else:
            size = [rng.randint(1, 24), rng.randint(1, 24)]
            m = min(size)
        mode = rng.choice(["reflect", "reflect", "constant", "edge", "symmetric"])
        p = rng.choice([4, 4, 0, 1, 2, 6, None])
        if p is not None:
            if mode == "reflect":
                p = min(p, m - 1)
            elif mode == "symmetric":
                p = min(p, m)
        s.update(h=h, w=w, c=rng.choice([1, 3]), io=io, size=size, padding=p, padding_mode=mode, fill=rng.choice([0, 0, 9]),
                 interp=rng.choice(INTERP))
    elif kind == "erasing":
        mina = rng.choice([0.02, 0.001, 0.1, 0.3, 0.5, round(rng.uniform(0.001, 0.6), 4)])
        maxa = rng.choice([1 / 3, 1.0, mina, min(1.0, mina * 2), 0.9])
        maxa = max(maxa, mina)
        minasp = rng.choice([0.3, 0.05, 1.0, 0.5, 0.01])
        maxasp = rng.choice([None, None, 1.0, 3.0, 20.0])
        if maxasp is not None and maxasp < minasp:
            maxasp = minasp
        minc = rng.choice([1, 1, 1, 2, 3])
        maxc = rng.choice([None, None, minc, minc + 1, minc + 3])
        s.update(h=_side(rng), w=_side(rng), c=rng.choice([1, 3, 4]), p=rng.choice([1.0, 1.0, 1.0, 0.5, 0.0]), min_area=mina, max_area=maxa,
                 min_aspect=minasp, max_aspect=maxasp, mode=rng.choice(["zeros", "zeros", "channelwise", "pixelwise"]),
                 min_count=minc, max_count=maxc)
    elif kind == "specaugment":
        t, f = _side(rng), _side(rng)
        def par(n):
            return rng.choice([None, 0, 1, 2, max(1, n // 2), n, n + 1, 2 * n + 3, rng.randint(1, 80)])
        tm, fm = par(t), par(f)
        if tm is None and fm is None:
            tm = rng.randint(1, 40)
        s.update(c=rng.choice([1, 2]), t=t, f=f, tm=tm, fm=fm)
    elif kind in ("pad", "resize", "hflip", "semseg_crop", "random_resize", "random_resize_old", "multi_crop", "pipeline"):
        io = rng.choice(["tensor", "tensor", "pil"])
        style = rng.choice(["coord", "coord", "blobs", "dominant"])
        h, w = _side(rng), _side(rng)
        s.update(io=io, style=style, c=rng.choice([1, 3, 3, 4]) if io == "tensor" else 3, mdim=rng.choice([2, 3]) if io == "tensor" else 2)
        def rel_size():
            out = []
            for n in (h, w):
                r = rng.choice(["eq", "m1", "p1", "small", "large"])
                out.append({"eq": n, "m1": max(1, n - 1), "p1": n + 1, "small": rng.randint(1, n), "large": n + rng.randint(1, 24)}[r])
            return out
        if kind == "pad":
            sz = rel_size()
            s.update(h=h, w=w, size=sz[0] if sz[0] == sz[1] and rng.random() < 0.5 else sz)
        elif kind == "resize":
            sz = rel_size() if rng.random() < 0.5 else [rng.randint(1, 96), rng.randint(1, 96)]
            s.update(h=h, w=w, size=sz[0] if sz[0] == sz[1] and rng.random() < 0.5 else sz)
        elif kind == "hflip":
            s.update(h=h, w=w, p=rng.choice([0.0, 1.0, 0.5]))
        elif kind == "semseg_crop":
            sz = rel_size()
            mcr = rng.choice([1.0, 1.0, 0.75, 0.5, 0.1]) if io == "tensor" else 1.0
            s.update(h=h, w=w, size=sz[0] if sz[0] == sz[1] and rng.random() < 0.5 else sz, mcr=mcr, ignore=rng.choice([-1, -1, 255]))
            if mcr < 1.0:
                s["style"] = rng.choice(["dominant", "dominant", "blobs", "coord"])
        elif kind == "random_resize":
            h, w = _sides_aspect(rng, lo=4)
            cfg = _gen_rresize_cfg(rng, [(h, w)]) or {"base": [h, w], "ratio": [1.0, 1.0]}
            s.update(h=h, w=w, **cfg)
        elif kind == "random_resize_old":
            lo, hi = rng.choice([(0.5, 2.0), (1.0, 1.0), (0.75, 1.25), (0.3, 0.6)])
            s.update(h=h, w=w, base=[rng.randint(5, 64), rng.randint(5, 64)], ratio=[lo, hi])
        elif kind == "multi_crop":
            ch, cw = 2 * rng.randint(1, 8), 2 * rng.randint(1, 8)
            s.update(io="tensor", h=ch * rng.randint(1, max(1, 48 // ch)), w=cw * rng.randint(1, max(1, 48 // cw)), size=[ch, cw])
        else:
            n = rng.randint(1, 3)
            sizes = [list(_sides_aspect(rng, lo=rng.choice([1, 4, 4]))) for _ in range(n)]
            s.update(sizes=sizes, stages=_gen_pipeline(rng, [tuple(x) for x in sizes], io), wseed=rng.choice([None, rng.randrange(10 ** 6), rng.randrange(10 ** 6), 0]))
            if s["c"] == 4 and any(st["k"] == "solarize" for st in s["stages"]):
                s["c"] = 3   # torchvision's solarize accepts 1 or 3 channels
    elif kind in ("patchify", "patchify_image", "shuffle_chain"):
        h, w = _side(rng), _side(rng)
        ph, pw = rng.choice(G.divisors(h)), rng.choice(G.divisors(w))
        r = rng.random()
        if r < 0.15:
            ph, pw = h, w
        elif r < 0.3:
            ph, pw = 1, 1
        s.update(h=h, w=w, c=rng.choice([1, 3, 5]) if io == "tensor" else rng.choice([1, 3]), io=io, ph=ph, pw=pw,
                 size_form=rng.choice(["tuple", "int"]) if ph == pw else "tuple")
    elif kind == "norm":
        c = rng.choice([1, 1, 2, 3, 3, 4, 5, 8]) if io == "tensor" else rng.choice([1, 3])
        mean, std, stats = _gen_norm_stats(rng, c)
        s.update(h=_side(rng, 32), w=_side(rng, 32), c=c, io=io, which=rng.choice(["image", "image", "range"]), inplace=rng.random() < 0.5,
                 inplace_inv=rng.random() < 0.5, mean=mean, std=std, stats=stats)
    else:
        raise ValueError(kind)
    if kind in CROP_KINDS or kind in ("patchify_image", "shuffle_chain"):
        s["calls"] = rng.choice([1, 2, 2, 3, 4])
    hh, ww = s.get("h"), s.get("w")
    if hh is not None and hh * ww == 1:
        s["_trivial"] = True
    return s


def gen_cases(run):
    n = run.n(9000, 400000)
    rng = run.rng
    for i in range(n):
        kind = ALL_KINDS[i % len(ALL_KINDS)] if i < 3 * len(ALL_KINDS) else rng.choice(ALL_KINDS)
        yield _gen_spec(rng, kind)


WITNESSES_PER_KEY = 6


def setup(run):
    """keep at most WITNESSES_PER_KEY written-out witnesses per mechanism, so that one frequent defect (a transform that
    crashes on every call) cannot use up the runner's global witness cap and hide the others; the rest is counted"""
    record = run.violation
    seen = {}

    def limited(key, what, spec=None):
        seen[key] = seen.get(key, 0) + 1
        if key not in run.known and seen[key] > WITNESSES_PER_KEY:
            run.count(f"further_witnesses:{key}")
            return
        record(key, what, spec)
    run.violation = limited


# ================================================================================================ calling the real code
_FAILED = object()
_codes = {}


def _repo_stem(exc):
    """file stem of the innermost repository frame of a traceback (names the failing mechanism's module)"""
    prefix = str(core.REPO / "kappadata")
    stem = "outside-repo"
    for fr in traceback.extract_tb(exc.__traceback__):
        if fr.filename.startswith(prefix):
            stem = fr.filename.rsplit("/", 1)[-1][:-3]
    return stem


def _real(run, fn, what):
    """execute repository code; any exception is classified by harness.call_real (no refusal class is enumerated for C14:
    every generated input is inside the stated domain), keyed by the repository module it surfaced in"""
    try:
        return True, fn()
    except core.StepBudgetExceeded:
        raise
    except Exception as e:
        exc = e

        def again():
            raise exc
        return call_real(run, again, crash_key=f"crash:{_repo_stem(exc)}", what=what)


def _rng(seed):
    return np.random.default_rng(seed)


def _size2(size):
    return (size, size) if isinstance(size, int) else (int(size[0]), int(size[1]))


def _is_int(v):
    return isinstance(v, (int, np.integer)) and not isinstance(v, bool)


def _sz_class(a, b):
    return "lt" if a < b else "eq" if a == b else "gt"


# ================================================================================================ crops
def _check_box(run, kind, box, hp, wp, size, what):
    """box = (i, j, h, w) recorded in ctx; inside the padded input and of the requested size"""
    i, j, h, w = box
    if not all(_is_int(v) for v in box):
        run.violation(f"{kind}:ctx-not-integers", f"{what}: recorded box {box!r} is not made of integers")
        return False
    if h < 1 or w < 1:
        run.violation(f"{kind}:zero-size-box", f"{what}: recorded box {box} is empty")
        return False
    if i < 0 or j < 0 or i + h > hp or j + w > wp:
        run.violation(f"{kind}:box-out-of-bounds", f"{what}: recorded box (i={i}, j={j}, h={h}, w={w}) leaves the padded input {hp}x{wp}")
        return False
    if size is not None and (h, w) != tuple(size):
        run.violation(f"{kind}:box-size", f"{what}: recorded box is {h}x{w}, requested {size}")
        return False
    return True


def _crop_inputs(s):
    """one input per call on the same transform instance (same size, different content)"""
    return [G.make_input(s["io"], s["c"], s["h"], s["w"], s["data_seed"] + 7919 * r) for r in range(s.get("calls", 1))]


def _call_series(run, s, t, xs, what, budget=None, on_error=None):
    """call the SAME transform instance once per input, each call with its own ctx; nothing is verified before the last call
    has returned (a batch is assembled sample by sample before recorded parameters are used) -> [(x, out, ctx)] or None"""
    triples = []
    for r, x in enumerate(xs):
        ctx = {}

        def go(x=x, ctx=ctx):
            try:
                return t(x, ctx)
            except Exception:
                if on_error is not None and on_error(ctx):
                    return _FAILED
                raise
        if budget is not None:
            with StepBudget(budget[0], budget[1], what=what):
                ok, out = _real(run, go, f"{what} [call {r}]")
        else:
            ok, out = _real(run, go, f"{what} [call {r}]")
        if not ok or out is _FAILED:
            return None
        triples.append((x, out, ctx))
    run.cover("calls_on_one_instance", s["kind"], len(xs))
    if len(xs) > 1:
        run.count("multi_call_series")
    return triples


def _crop_case(run, s):
    kind = s["kind"]
    cfg = s["cfg"]
    th, tw = _size2(cfg["size"])
    xs = _crop_inputs(s)
    kw = dict(size=cfg["size"], padding=cfg["padding"], pad_if_needed=cfg["pad_if_needed"], fill=cfg["fill"], padding_mode=cfg["padding_mode"])
    hp, wp = G.hw_of(G.reference_padded(xs[0], (th, tw), cfg["padding"], cfg["pad_if_needed"], cfg["fill"], cfg["padding_mode"]))
    if hp < th or wp < tw:  # generator left the stated domain (never seen; not a verdict about the repository)
        run.count("skipped_outside_domain")
        return
    run.cover(kind, s["io"], cfg["rel"], cfg["padding_mode"], cfg["padding"] is not None, _sz_class(th, s["h"]), _sz_class(tw, s["w"]))
    if kind == "random_crop":
        what0 = f"KDRandomCrop({kw}) on {s['io']} {s['h']}x{s['w']} seed={s['seed']}"
        t = KDRandomCrop(**kw).set_rng(_rng(s["seed"]))
        triples = _call_series(run, s, t, xs, what0)
    else:
        kw.update(overlap_min=s["omin"], overlap_max=s["omax"], tries=s["tries"])
        what0 = f"KDTwoRandomCrop({kw}) on {s['io']} {s['h']}x{s['w']} seed={s['seed']}"
        t = KDTwoRandomCrop(**kw).set_rng(_rng(s["seed"]))
        if "two" not in _codes:
            _codes["two"] = codes_of(KDTwoRandomCrop)
        triples = _call_series(run, s, t, xs, what0, budget=(40 * ((s["tries"] or 1) + 3), _codes["two"]))
    if triples is None:
        return
    for r, (x, out, ctx) in enumerate(triples):
        what = f"{what0} [call {r} of {len(triples)}, verified after the last call]"
        padded = G.reference_padded(x, (th, tw), cfg["padding"], cfg["pad_if_needed"], cfg["fill"], cfg["padding_mode"])
        if kind == "random_crop":
            rec = ctx.get("random_crop")
            if not isinstance(rec, dict) or not all(k in rec for k in "ijhw"):
                run.violation("random_crop:ctx-missing", f"{what}: ctx = {ctx!r}")
                return
            boxes, outs = [tuple(rec[k] for k in "ijhw")], [out]
        else:
            rec = ctx.get("two_random_crop")
            keys = ["i0", "j0", "h0", "w0", "i1", "j1", "h1", "w1", "out_of_tries", "overlap"]
            if not isinstance(rec, dict) or not all(k in rec for k in keys):
                run.violation("two_random_crop:ctx-missing", f"{what}: ctx = {ctx!r}")
                return
            if not isinstance(out, (list, tuple)) or len(out) != 2:
                run.violation("two_random_crop:output-arity", f"{what}: returned {type(out).__name__} of length {len(out) if hasattr(out, '__len__') else '?'}")
                return
            boxes = [tuple(rec[k + "0"] for k in "ijhw"), tuple(rec[k + "1"] for k in "ijhw")]
            outs = list(out)
        for n, (box, o) in enumerate(zip(boxes, outs)):
            if not _check_box(run, kind, box, hp, wp, (th, tw), f"{what} [crop {n}]"):
                return
            if G.hw_of(o) != (th, tw):
                run.violation(f"{kind}:output-size", f"{what} [crop {n}]: output is {G.hw_of(o)}, requested {(th, tw)}")
                return
            ref = F.crop(padded, *[int(v) for v in box])
            run.count("crop_reproduced")
            if not same(o, ref):
                run.violation(f"{kind}:ctx-does-not-reproduce", f"{what} [crop {n}]: crop(padded input, {box}) differs from the returned crop")
                return
        if kind == "two_random_crop":
            iou = G.iou_ijhw(boxes[0], boxes[1])
            run.count("two_crop_iou_checked")
            lo = 0.0 if s["omin"] is None else s["omin"]
            hi = 1.0 if s["omax"] is None else s["omax"]
            run.cover("two_crop_window", lo, hi, s["tries"], bool(rec["out_of_tries"]))
            if abs(float(rec["overlap"]) - iou) > 1e-9:
                run.violation("two_random_crop:iou-recorded", f"{what}: recorded overlap {rec['overlap']} but the recorded boxes {boxes} have IoU {iou}")
                return
            elif not rec["out_of_tries"] and not (lo - 1e-12 <= iou <= hi + 1e-12):
                key = "two_random_crop:zero-overlap-max-ignored" if s["omax"] == 0.0 else "two_random_crop:iou-window"
                run.violation(key, f"{what}: out_of_tries=False but IoU {iou:.4f} of boxes {boxes} is outside the requested window [{lo}, {hi}]")
                return
            elif rec["out_of_tries"] and (s["tries"] is None or (lo <= 0.0 and hi >= 1.0)):
                run.violation("two_random_crop:spurious-out-of-tries", f"{what}: out_of_tries=True although every pair of boxes satisfies the window / tries is unbounded")
                return
    run.sample({"kind": kind, "cfg": kw, "input": [s["io"], s["h"], s["w"]], "calls": len(triples), "ctx": triples[0][2]})


def _resized_crop_case(run, s):
    xs = _crop_inputs(s)
    kw = dict(size=s["size"], scale=tuple(s["scale"]), ratio=tuple(s["ratio"]), interpolation=s["interp"])
    what0 = f"KDRandomResizedCrop({kw}) on {s['io']} {s['h']}x{s['w']} seed={s['seed']}"
    t = KDRandomResizedCrop(**kw).set_rng(_rng(s["seed"]))

    def empty_box(ctx):
        rec = ctx.get("random_resized_crop")
        if isinstance(rec, dict) and (rec.get("h", 1) < 1 or rec.get("w", 1) < 1):
            run.violation("random_resized_crop:zero-size-box",
                          f"{what0}: recorded box {rec} is empty (the resize of the empty crop then fails)")
            return True
        return False
    triples = _call_series(run, s, t, xs, what0, on_error=empty_box)
    if triples is None:
        return
    size = _size2(s["size"])
    for r, (x, out, ctx) in enumerate(triples):
        what = f"{what0} [call {r} of {len(triples)}, verified after the last call]"
        rec = ctx.get("random_resized_crop")
        if not isinstance(rec, dict) or not all(k in rec for k in ["og_h", "og_w", "i", "j", "h", "w"]):
            run.violation("random_resized_crop:ctx-missing", f"{what}: ctx = {ctx!r}")
            return
        if (rec["og_h"], rec["og_w"]) != (s["h"], s["w"]):
            run.violation("random_resized_crop:og-size", f"{what}: recorded original size {(rec['og_h'], rec['og_w'])}, input is {(s['h'], s['w'])}")
            return
        box = tuple(rec[k] for k in "ijhw")
        if not _check_box(run, "random_resized_crop", box, s["h"], s["w"], None, what):
            return
        if G.hw_of(out) != size:
            run.violation("random_resized_crop:output-size", f"{what}: output is {G.hw_of(out)}, requested {size}")
            return
        ref = F.resized_crop(x, *[int(v) for v in box], list(size), InterpolationMode(s["interp"]))
        run.count("crop_reproduced")
        full = box == (0, 0, s["h"], s["w"])
        run.cover("random_resized_crop", s["io"], s["interp"], "full" if full else "part", _sz_class(box[2], 2), _sz_class(box[3], 2),
                  _sz_class(s["h"], s["w"]))
        if not same(out, ref):
            run.violation("random_resized_crop:ctx-does-not-reproduce", f"{what}: resized_crop(input, {box}, {size}) differs from the returned crop")
            return
    run.sample({"kind": "random_resized_crop", "cfg": kw, "input": [s["io"], s["h"], s["w"]], "calls": len(triples), "ctx": triples[0][2]})


def _simple_crop_case(run, s):
    xs = _crop_inputs(s)
    kw = dict(size=s["size"], padding=s["padding"], interpolation=s["interp"], padding_mode=s["padding_mode"], fill=s["fill"])
    what0 = f"KDSimpleRandomCrop({kw}) on {s['io']} {s['h']}x{s['w']} seed={s['seed']}"
    t = KDSimpleRandomCrop(**kw).set_rng(_rng(s["seed"]))
    triples = _call_series(run, s, t, xs, what0)
    if triples is None:
        return
    size = _size2(s["size"])
    run.cover("simple_random_crop", s["io"], s["interp"], s["padding_mode"], s["padding"], isinstance(s["size"], int))
    for r, (x, out, ctx) in enumerate(triples):
        what = f"{what0} [call {r} of {len(triples)}, verified after the last call]"
        rec = ctx.get("random_crop")
        if not isinstance(rec, dict) or not all(k in rec for k in "ijhw"):
            run.violation("simple_random_crop:ctx-missing", f"{what}: ctx = {ctx!r}")
            return
        resized = T.Resize(s["size"], interpolation=InterpolationMode(s["interp"]))(x)
        padded = resized if s["padding"] is None else F.pad(resized, s["padding"], s["fill"], s["padding_mode"])
        hp, wp = G.hw_of(padded)
        box = tuple(rec[k] for k in "ijhw")
        if not _check_box(run, "simple_random_crop", box, hp, wp, size, what):
            return
        if G.hw_of(out) != size:
            run.violation("simple_random_crop:output-size", f"{what}: output is {G.hw_of(out)}, requested {size}")
            return
        run.count("crop_reproduced")
        if not same(out, F.crop(padded, *[int(v) for v in box])):
            run.violation("simple_random_crop:ctx-does-not-reproduce", f"{what}: crop(pad(resize(input)), {box}) differs from the returned crop")
            return


# ================================================================================================ erasing / spec augment
def _erasing_case(run, s):
    c, h, w = s["c"], s["h"], s["w"]
    base = 100.0 + np.arange(c * h * w, dtype=np.float32).reshape(c, h, w)  # > any normal draw, never 0
    orig = torch.from_numpy(base)
    kw = dict(p=s["p"], min_area=s["min_area"], max_area=s["max_area"], min_aspect=s["min_aspect"], max_aspect=s["max_aspect"],
              mode=s["mode"], min_count=s["min_count"], max_count=s["max_count"])
    what = f"KDRandomErasing({kw}) on {c}x{h}x{w} seed={s['seed']}"
    t = KDRandomErasing(**kw).set_rng(_rng(s["seed"]))
    ok, out = _real(run, lambda: t(orig.clone(), {}), what)
    if not ok:
        return
    if not torch.is_tensor(out) or tuple(out.shape) != (c, h, w) or out.dtype != orig.dtype:
        run.violation("erasing:shape", f"{what}: output {getattr(out, 'shape', None)} {getattr(out, 'dtype', None)}")
        return
    run.count("erase_checked")
    o = out.numpy()
    ch_changed = o != base
    changed = ch_changed.any(axis=0)
    nmax = s["max_count"] or s["min_count"]
    run.cover("erasing", s["mode"], s["p"], min(nmax, 3), bool(changed.any()), min(h, 3), min(w, 3))
    if s["p"] == 0.0 and changed.any():
        run.violation("erasing:applied-with-p0", f"{what}: {int(changed.sum())} cells changed although p=0")
        return
    if not changed.any():
        return
    if not np.array_equal(ch_changed, np.broadcast_to(changed, ch_changed.shape)):
        run.violation("erasing:channels-disagree", f"{what}: erased region differs between channels")
        return
    if s["mode"] == "zeros" and np.any(o[ch_changed] != 0.0):
        run.violation("erasing:fill-value", f"{what}: mode zeros wrote non-zero values")
        return
    # untouched cells: everything outside a union of <= nmax rectangles must be bit-identical -> the changed set itself has
    # to be such a union (necessary: every row and every column of it consists of <= nmax runs)
    if G.runs_per_line(changed) > nmax or G.runs_per_line(changed.T) > nmax:
        run.violation("erasing:not-rectangles", f"{what}: changed cells do not form a union of <= {nmax} rectangles")
        return
    if nmax == 1:
        r = G.bounding_rect(changed)
        if int(changed.sum()) != r[2] * r[3]:
            run.violation("erasing:not-rectangles", f"{what}: changed cells {int(changed.sum())} do not fill their bounding box {r}")
            return
        max_asp = s["max_aspect"] or 1.0 / s["min_aspect"]
        area = s["max_area"] * h * w
        bh = math.sqrt(area * max_asp) + 0.5
        bw = math.sqrt(area / s["min_aspect"]) + 0.5
        if r[2] > bh + 1 or r[3] > bw + 1:
            run.violation("erasing:rect-too-large", f"{what}: erased {r[2]}x{r[3]}, bound from max_area/aspect is {bh:.2f}x{bw:.2f}")
            return
        if s["mode"] == "channelwise":
            blk = o[:, r[0]:r[0] + r[2], r[1]:r[1] + r[3]]
            if np.any(blk != blk[:, :1, :1]):
                run.violation("erasing:fill-value", f"{what}: channelwise replacement is not constant per channel")


def _spec_case(run, s):
    c, tt, ff = s["c"], s["t"], s["f"]
    base = 1.0 + np.arange(c * tt * ff, dtype=np.float32).reshape(c, tt, ff)
    orig = torch.from_numpy(base.copy())
    kw = dict(time_masking=s["tm"], frequency_masking=s["fm"])
    what = f"KDSpecAugment({kw}) on {c}x{tt}x{ff} seed={s['seed']}"
    t = KDSpecAugment(**kw).set_rng(_rng(s["seed"]))
    ok, out = _real(run, lambda: t(orig, {}), what)
    if not ok:
        return
    if not torch.is_tensor(out) or tuple(out.shape) != (c, tt, ff) or out.dtype != orig.dtype:
        run.violation("specaugment:shape", f"{what}: output {getattr(out, 'shape', None)} {getattr(out, 'dtype', None)}")
        return
    run.count("specaugment_checked")
    o = out.numpy()
    ch = o != base
    if np.any(o[ch] != 0.0):
        run.violation("specaugment:fill-value", f"{what}: changed cells are not the fill value 0")
        return
    z = ch.any(axis=0)
    if not np.array_equal(ch, np.broadcast_to(z, ch.shape)):
        run.violation("specaugment:channels-disagree", f"{what}: masked region differs between channels")
        return
    rows = np.flatnonzero(z.all(axis=1))   # fully masked time steps
    cols = np.flatnonzero(z.all(axis=0))   # fully masked frequency bins
    tm = s["tm"] or 0
    fm = s["fm"] or 0
    run.cover("specaugment", s["tm"] is None, s["fm"] is None, _sz_class(tm, tt), _sz_class(fm, ff), min(len(rows), 2), min(len(cols), 2))
    if z.all():
        # everything masked: one full band explains it; it must be admissible for at least one axis
        if not ((tm > tt) or (fm > ff)):
            run.violation("specaugment:band-too-wide", f"{what}: the whole spectrogram is masked but neither parameter exceeds its axis")
        return
    union = np.zeros_like(z)
    union[rows, :] = True
    union[:, cols] = True
    if not np.array_equal(union, z):
        run.violation("specaugment:stray-cells", f"{what}: masked cells are not a union of full time rows and full frequency columns")
        return
    if not G.contiguous(rows) or not G.contiguous(cols):
        run.violation("specaugment:band-not-contiguous", f"{what}: rows {rows.tolist()} cols {cols.tolist()}")
        return
    if (len(rows) > 0 and len(rows) >= tm) or (len(cols) > 0 and len(cols) >= fm):
        run.violation("specaugment:band-too-wide", f"{what}: masked {len(rows)} time steps / {len(cols)} frequency bins")
        return
    if not np.array_equal(orig.numpy(), base):
        run.violation("specaugment:input-modified", f"{what}: the input tensor was modified")


# ================================================================================================ paired image / mask
def _check_pair(run, kind, img, mask, orig_mask, what, normed=False, solarized=False, lead=False):
    """mask == label of the pixel the image shows; -> decoded codes or None"""
    codes, ok = G.decode_image(img, normed, solarized)
    if not ok:
        run.violation(f"paired:{kind}:image-not-decodable", f"{what}: image values are no coordinate codes (not a nearest-neighbour geometry)")
        return None
    mo = G.mask_array(mask)
    if lead:
        # the map went in as (1, H, W): it has to come out with its channel dimension, transformed in the image plane
        if mo.ndim != 3 or mo.shape[0] != 1:
            run.violation(f"paired:{kind}:mask-channel-dim", f"{what}: a (1, H, W) map came back with shape {mo.shape}")
            return None
        mo = mo[0]
    if tuple(mo.shape) != tuple(codes.shape):
        run.violation(f"paired:{kind}:members-differ-in-size", f"{what}: image is {codes.shape}, mask is {mo.shape}")
        return None
    exp, valid = G.expected_mask(codes, orig_mask)
    if not valid:
        run.violation(f"paired:{kind}:source-out-of-bounds", f"{what}: image shows pixels that are not part of the input")
        return None
    run.count("paired_checked")
    if not np.array_equal(exp, mo):
        bad = exp != mo
        at_pad = bad & (codes == 0)
        key = "padding-value" if at_pad.sum() == bad.sum() else "mask-image-misaligned"
        r, cidx = [int(v[0]) for v in np.nonzero(bad)]
        run.violation(f"paired:{kind}:{key}", f"{what}: {int(bad.sum())} of {bad.size} mask pixels disagree with the image, e.g. output "
                      f"({r},{cidx}): image shows input code {int(codes[r, cidx])}, expected label {int(exp[r, cidx])}, mask has {int(mo[r, cidx])}")
        return None
    return codes


def _build_stage(st, seed=None, io="tensor"):
    k = st["k"]
    if k == "norm":
        return KDImageRangeNorm()
    if k == "xdraw":
        t = G.DrawingImageOnly(n_draws=st["n"])
    elif k == "solarize":
        # threshold at the top of the value range: identity for PIL (values < 256), tensor codes (>= 1) become 1 - code
        t = KDRandomSolarize(p=st["p"], threshold=1.0 if io == "tensor" else 256)
    elif k == "hflip":
        t = KDSemsegRandomHorizontalFlip(p=st["p"])
    elif k == "resize":
        return KDSemsegResize(size=st["size"], interpolation="nearest")
    elif k == "pad":
        return KDSemsegPad(size=st["size"])
    elif k == "crop":
        t = KDSemsegRandomCrop(size=st["size"], max_category_ratio=st["mcr"], ignore_index=st["ignore"])
    elif k == "rresize":
        t = KDSemsegRandomResize(base_size=st["base"], ratio=st["ratio"], interpolation="nearest")
    else:
        raise ValueError(k)
    if seed is not None:
        t.set_rng(_rng(seed))
    return t


def _rresize_range_ok(h, w, nh, nw, base, ratio):
    """documented rule: scale = ratio * min(long_base / long_side, short_base / short_side), aspect kept"""
    s1 = _rresize_scale1(h, w, base)
    lo, hi = ratio
    in_range = (h * s1 * lo - 1 <= nh <= h * s1 * hi + 1) and (w * s1 * lo - 1 <= nw <= w * s1 * hi + 1)
    aspect = abs(nh / h - nw / w) <= 0.5 / h + 0.5 / w + 1e-9
    return in_range and aspect


def _pair_case(run, s):
    kind = s["kind"]
    io, h, w = s["io"], s["h"], s["w"]
    lead = s.get("mdim", 2) == 3
    x, m, marr = G.make_pair(io, s["c"], h, w, s["style"], s["data_seed"], s.get("mdim", 2))
    run.cover("pair_layout", kind, io, s["c"], s.get("mdim", 2))
    if lead:
        run.count("paired_channel_dim_maps")
    grid = G.code_grid(h, w)
    V = run.violation
    if kind == "pad":
        t = KDSemsegPad(size=s["size"])
        what = f"KDSemsegPad(size={s['size']}) on {io} {h}x{w}"
    elif kind == "resize":
        t = KDSemsegResize(size=s["size"], interpolation="nearest")
        what = f"KDSemsegResize(size={s['size']}) on {io} {h}x{w}"
    elif kind == "hflip":
        t = KDSemsegRandomHorizontalFlip(p=s["p"]).set_rng(_rng(s["seed"]))
        what = f"KDSemsegRandomHorizontalFlip(p={s['p']}) on {io} {h}x{w} seed={s['seed']}"
    elif kind == "semseg_crop":
        t = KDSemsegRandomCrop(size=s["size"], max_category_ratio=s["mcr"], ignore_index=s["ignore"]).set_rng(_rng(s["seed"]))
        what = f"KDSemsegRandomCrop(size={s['size']}, max_category_ratio={s['mcr']}, ignore_index={s['ignore']}) on {io} {h}x{w} mask={s['style']} seed={s['seed']}"
    elif kind == "random_resize":
        t = KDSemsegRandomResize(base_size=s["base"], ratio=s["ratio"], interpolation="nearest").set_rng(_rng(s["seed"]))
        what = f"KDSemsegRandomResize(base_size={s['base']}, ratio={s['ratio']}) on {io} {h}x{w} seed={s['seed']}"
    elif kind == "random_resize_old":
        t = KDSemsegRandomResizeOld(base_size=s["base"], ratio=s["ratio"], interpolation="nearest").set_rng(_rng(s["seed"]))
        what = f"KDSemsegRandomResizeOld(base_size={s['base']}, ratio={s['ratio']}) on {io} {h}x{w} seed={s['seed']}"
    else:
        t = KDSemsegOverlappedMultiCrop(crop_size=s["size"])
        what = f"KDSemsegOverlappedMultiCrop(crop_size={s['size']}) on {io} {h}x{w}"
    ok, out = _real(run, lambda: t((x, m), ctx={}), what)
    if not ok:
        return
    if not isinstance(out, (tuple, list)) or len(out) != 2:
        V(f"paired:{kind}:output-arity", f"{what}: returned {type(out).__name__}")
        return
    xo, mo = out
    if kind == "multi_crop":
        ch, cw = s["size"]
        n_exp = (1 + (h - ch) // (ch // 2)) * (1 + (w - cw) // (cw // 2))
        if not torch.is_tensor(xo) or xo.ndim != 4 or mo.ndim != (4 if lead else 3) or len(xo) != len(mo):
            V("paired:multi_crop:output-layout", f"{what}: {getattr(xo, 'shape', None)} / {getattr(mo, 'shape', None)}")
            return
        seen = set()
        for k in range(len(xo)):
            codes = _check_pair(run, kind, xo[k], mo[k], marr, f"{what} [crop {k}]", lead=lead)
            if codes is None:
                return
            win = G.is_window(codes, h, w) if codes.shape == (ch, cw) else None
            if win is None:
                V("paired:multi_crop:not-a-window", f"{what} [crop {k}]: not a {ch}x{cw} window of the input")
                return
            seen.add(win)
        covered = np.zeros((h, w), dtype=bool)
        for a, b in seen:
            covered[a:a + ch, b:b + cw] = True
        run.cover("multi_crop", len(xo) == 1, h // ch > 1, w // cw > 1)
        if not covered.all() or len(seen) != len(xo) or len(xo) != n_exp:
            V("paired:multi_crop:coverage", f"{what}: {len(xo)} crops ({len(seen)} distinct windows, {n_exp} expected at half-crop stride), input covered: {bool(covered.all())}")
        return
    codes = _check_pair(run, kind, xo, mo, marr, what, lead=lead)
    if codes is None:
        return
    oh, ow = codes.shape
    if kind == "pad":
        th, tw = _size2(s["size"])
        run.cover("pad", io, _sz_class(th, h), _sz_class(tw, w), (max(th - h, 0) % 2, max(tw - w, 0) % 2))
        if (oh, ow) != (max(h, th), max(w, tw)):
            V("paired:pad:output-size", f"{what}: output {oh}x{ow}, requested at least {th}x{tw}")
            return
        r = G.bounding_rect(codes != 0)
        if r is None or (r[2], r[3]) != (h, w) or not np.array_equal(codes[r[0]:r[0] + h, r[1]:r[1] + w], grid) or int((codes != 0).sum()) != h * w:
            V("paired:pad:content-not-preserved", f"{what}: the input does not appear intact inside the padded output")
    elif kind == "resize":
        th, tw = _size2(s["size"])
        run.cover("resize", io, _sz_class(th, h), _sz_class(tw, w))
        if (oh, ow) != (th, tw):
            V("paired:resize:output-size", f"{what}: output {oh}x{ow}, requested {th}x{tw}")
        elif (codes == 0).any():
            V("paired:resize:padding-in-resize", f"{what}: output contains padding")
    elif kind == "hflip":
        flipped = np.array_equal(codes, grid[:, ::-1])
        plain = np.array_equal(codes, grid)
        run.cover("hflip", io, s["p"], flipped, plain)
        if not (flipped or plain):
            V("paired:hflip:geometry", f"{what}: output is neither the input nor its horizontal mirror image")
        elif s["p"] == 1.0 and not flipped:
            V("paired:hflip:p1-not-applied", f"{what}: p=1 but the pair was not flipped")
        elif s["p"] == 0.0 and not plain:
            V("paired:hflip:p0-applied", f"{what}: p=0 but the pair was flipped")
    elif kind == "semseg_crop":
        th, tw = _size2(s["size"])
        run.cover("semseg_crop", io, _sz_class(th, h), _sz_class(tw, w), s["mcr"] < 1, s["style"], abs(th - h) == 1 or abs(tw - w) == 1)
        if (oh, ow) != (min(h, th), min(w, tw)):
            V("paired:semseg_crop:output-size", f"{what}: output {oh}x{ow}, requested {th}x{tw} from a {h}x{w} input")
        elif G.is_window(codes, h, w) is None:
            V("paired:semseg_crop:not-a-window", f"{what}: output is not a contiguous window of the input")
    elif kind == "random_resize":
        run.cover("random_resize", io, _sz_class(oh, h), _sz_class(ow, w), _sz_class(h, w))
        if (codes == 0).any():
            V("paired:random_resize:padding-in-resize", f"{what}: output contains padding")
        elif not _rresize_range_ok(h, w, oh, ow, s["base"], s["ratio"]):
            V("paired:random_resize:output-size", f"{what}: output {oh}x{ow} is outside the range implied by base_size*ratio with the aspect ratio kept")
    elif kind == "random_resize_old":
        lo, hi = s["ratio"]
        bh, bw = s["base"]
        run.cover("random_resize_old", io, _sz_class(oh, h), _sz_class(ow, w))
        if not (bh * lo - 1 <= oh <= bh * hi + 1 and bw * lo - 1 <= ow <= bw * hi + 1):
            V("paired:random_resize_old:output-size", f"{what}: output {oh}x{ow} outside base_size*ratio")
    run.sample({"kind": kind, "what": what, "out": [oh, ow]})


def _pipeline_case(run, s):
    io = s["io"]
    lead = s.get("mdim", 2) == 3
    items = [G.make_pair(io, s["c"], hh, ww, s["style"], s["data_seed"] + 31 * k, s.get("mdim", 2)) for k, (hh, ww) in enumerate(s["sizes"])]
    run.cover("pair_layout", "pipeline", io, s["c"], s.get("mdim", 2))
    if lead:
        run.count("paired_channel_dim_maps")
    ds = G.PairDataset([it[0] for it in items], [it[1] for it in items])
    stages = s["stages"]
    normed = any(st["k"] == "norm" for st in stages)
    solar = any(st["k"] == "solarize" for st in stages)
    draws_before_paired = False   # a stochastic image-only stage in front of a stochastic paired stage
    seen_draw = False
    for st in stages:
        if st["k"] in ("xdraw", "solarize"):
            seen_draw = True
        elif seen_draw and st["k"] in ("crop", "rresize") or (seen_draw and st["k"] == "hflip" and 0.0 < st["p"] < 1.0):
            draws_before_paired = True
    names = [st["k"] for st in stages]
    what0 = f"SemsegTransformWrapper(seed={s['wseed']}, transforms={stages}) io={io}"
    # unseeded wrapper: the transforms keep the generator injected here (deterministic replay)
    ok, wrapper = _real(run, lambda: SemsegTransformWrapper(ds, [_build_stage(st, seed=s["seed"] + k, io=io) for k, st in enumerate(stages)], seed=s["wseed"]), what0)
    if not ok:
        return
    run.cover("pipeline", io, tuple(names), s["wseed"] is None, draws_before_paired)
    last = [st for st in stages if st["k"] in ("pad", "crop", "resize", "rresize")]
    for idx, (_, _, marr) in enumerate(items):
        hh, ww = s["sizes"][idx]
        what = f"{what0} item {idx} ({hh}x{ww})"
        ok, out = _real(run, lambda: wrapper.getitem_xsemseg(idx, ctx={}), what)
        if not ok:
            return
        codes = _check_pair(run, "pipeline", out[0], out[1], marr, what + " [fused access]", normed=normed, solarized=solar, lead=lead)
        if codes is None:
            return
        run.count("pipeline_checked")
        oh, ow = codes.shape
        if last:
            st = last[-1]
            if st["k"] != "rresize":
                th, tw = _size2(st["size"])
                good = {"resize": (oh, ow) == (th, tw), "pad": oh >= th and ow >= tw, "crop": oh <= th and ow <= tw}[st["k"]]
                if not good:
                    run.violation(f"paired:pipeline:output-size-after-{st['k']}", f"{what}: final size {oh}x{ow} contradicts the last sizing stage {st}")
                    return
        if s["wseed"] is not None:
            # seeded wrapper: the members fetched one by one must still belong together
            ok1, xs = _real(run, lambda: wrapper.getitem_x(idx, ctx={}), what)
            ok2, ms = _real(run, lambda: wrapper.getitem_semseg(idx, ctx={}), what)
            if not (ok1 and ok2):
                return
            sep = _check_pair(run, "pipeline-separate-access", xs, ms, marr, what + " [getitem_x / getitem_semseg]", normed=normed, solarized=solar, lead=lead)
            if sep is None:
                return
            run.count("pipeline_separate_access_checked")
            if draws_before_paired:
                run.count("pipeline_separate_access_with_image_only_draws")
            # same seed, same index: the geometry of either access path is the same one
            if sep.shape != codes.shape or not np.array_equal(sep, codes) or not np.array_equal(G.mask_array(ms), G.mask_array(out[1])):
                run.violation("paired:pipeline-separate-access:geometry-differs-from-fused",
                              f"{what}: getitem_x / getitem_semseg show a different window / flip than getitem_xsemseg for the same seed and index")
                return


# ================================================================================================ inverses
def _patch_input(s):
    c, h, w = s["c"], s["h"], s["w"]
    if s["io"] == "tensor":
        g = np.random.default_rng(s["data_seed"])
        return torch.from_numpy(g.random((c, h, w), dtype=np.float32))
    return G.make_input("pil", c, h, w, s["data_seed"])


def _inverse_case(run, s):
    kind = s["kind"]
    V = run.violation
    if kind == "norm":
        c, h, w = s["c"], s["h"], s["w"]
        x = _patch_input(s)
        xt = x.clone() if torch.is_tensor(x) else F.to_tensor(x)
        ip_f, ip_b = bool(s["inplace"]), bool(s.get("inplace_inv", s["inplace"]))
        if s["which"] == "image":
            mk = lambda inv, ip: KDImageNorm(mean=tuple(s["mean"]), std=tuple(s["std"]), inverse=inv, inplace=ip)
            name = f"KDImageNorm(mean={s['mean']}, std={s['std']})"
        else:
            mk = lambda inv, ip: KDImageRangeNorm(inverse=inv, inplace=ip)
            name = "KDImageRangeNorm()"
        what = f"{name} norm(inplace={ip_f}) / denorm(inverse=True, inplace={ip_b}) on {s['io']} {c}x{h}x{w}"
        fwd, bwd = mk(False, ip_f), mk(True, ip_b)
        zeros = sum(1 for m in s["mean"] if m == 0)
        run.cover("norm", s["which"], s["io"], ip_f, ip_b, min(c, 4))
        run.cover("norm_stats", s["which"], s.get("stats"), "none" if zeros == 0 else "all" if zeros == c else "some",
                  any(v == 1 for v in s["std"]), any(isinstance(v, int) for v in list(s["mean"]) + list(s["std"])), min(c, 4))
        key = f"inverse:norm-{s['which']}"
        # closed form, written from the definition: norm(x)[k] = (x[k] - mean[k]) / std[k], denorm(y)[k] = y[k] * std[k] + mean[k]
        if s["which"] == "image":
            m64 = torch.tensor([float(v) for v in s["mean"]], dtype=torch.float64).view(-1, 1, 1)
            s64 = torch.tensor([float(v) for v in s["std"]], dtype=torch.float64).view(-1, 1, 1)
        else:
            m64 = torch.full((c, 1, 1), 0.5, dtype=torch.float64)
            s64 = torch.full((c, 1, 1), 0.5, dtype=torch.float64)

        def closed(y, src, inverse, label):
            ref = src.to(torch.float64) * s64 + m64 if inverse else (src.to(torch.float64) - m64) / s64
            run.count("norm_closed_form_checked")
            if tuple(y.shape) != tuple(ref.shape) or not torch.allclose(y.to(torch.float64), ref, rtol=1e-5, atol=1e-5):
                err = float((y.to(torch.float64) - ref).abs().max()) if tuple(y.shape) == tuple(ref.shape) else "shape"
                V(f"{key}:{'denorm' if inverse else 'norm'}-closed-form", f"{what} {label}: result differs from "
                  f"{'y*std+mean' if inverse else '(x-mean)/std'} by {err}")
                return False
            return True

        def call(t, arg, inplace, label):
            """one __call__; the argument is compared with its pre-call clone. -> result or None"""
            is_t = torch.is_tensor(arg)
            pre = arg.clone() if is_t else arg.tobytes()
            ok, out = _real(run, lambda: t(arg, {}), f"{what} {label}")
            if not ok:
                return None
            run.count("norm_call_argument_checked")
            if not is_t:
                if arg.tobytes() != pre:
                    V(f"{key}:argument-modified", f"{what} {label}: the PIL argument was modified")
                    return None
                return out
            if not inplace:
                if not same(arg, pre):
                    V(f"{key}:argument-modified-with-inplace-false", f"{what} {label}: constructed with inplace=False but the argument tensor "
                      f"was overwritten (max change {float((arg - pre).abs().max()):.4f})")
                    return None
                if out is arg or out.data_ptr() == arg.data_ptr():
                    V(f"{key}:result-aliases-argument-with-inplace-false", f"{what} {label}: constructed with inplace=False but the result is the argument tensor")
                    return None
            else:
                if out.data_ptr() != arg.data_ptr() or not same(arg, out):
                    V(f"{key}:inplace-true-not-in-place", f"{what} {label}: constructed with inplace=True but the argument does not hold the result")
                    return None
            return out

        def close(y, label, vkey):
            if tuple(y.shape) != tuple(xt.shape) or not torch.allclose(y, xt, rtol=0, atol=1e-5):
                V(f"{key}:{vkey}", f"{what}: {label} differs from x by {float((y - xt).abs().max()) if tuple(y.shape) == tuple(xt.shape) else 'shape'}")
                return False
            return True

        # direction 1: denorm(norm(x)); the intermediate result is handed on as it is
        a1 = x.clone() if torch.is_tensor(x) else x
        n1 = call(fwd, a1, ip_f, "[norm(x)]")
        if n1 is None or not closed(n1, xt, False, "[norm(x)]"):
            return
        n1_val = n1.clone()
        d1 = call(bwd, n1, ip_b, "[denorm(norm(x))]")
        if d1 is None or not closed(d1, n1_val, True, "[denorm(norm(x))]"):
            return
        run.count("inverse_checked")
        if not close(d1, "denorm(norm(x))", "denorm-of-norm"):
            return
        # direction 2: norm(denorm(x))
        a2 = x.clone() if torch.is_tensor(x) else x
        d2 = call(bwd, a2, ip_b, "[denorm(x)]")
        if d2 is None or not closed(d2, xt, True, "[denorm(x)]"):
            return
        d2_val = d2.clone()
        n2 = call(fwd, d2, ip_f, "[norm(denorm(x))]")
        if n2 is None or not closed(n2, d2_val, False, "[norm(denorm(x))]"):
            return
        run.count("inverse_checked")
        close(n2, "norm(denorm(x))", "norm-of-denorm")
        return

    c, h, w, ph, pw = s["c"], s["h"], s["w"], s["ph"], s["pw"]
    x = _patch_input(s)
    xt = x.clone() if torch.is_tensor(x) else F.to_tensor(x)
    psize = ph if s["size_form"] == "int" else (ph, pw)
    lh, lw = h // ph, w // pw
    run.cover(kind, s["io"], "whole" if (ph, pw) == (h, w) else "pixel" if (ph, pw) == (1, 1) else "mid", min(lh, 2), min(lw, 2))
    if kind == "patchify":
        what = f"Patchify({psize}) on {s['io']} {c}x{h}x{w}"
        ok, p = _real(run, lambda: Patchify(psize)(x, {}), what)
        if not ok:
            return
        if tuple(p.shape) != (c, lh, lw, ph, pw):
            V("inverse:patchify:layout", f"{what}: output shape {tuple(p.shape)}, expected {(c, lh, lw, ph, pw)}")
            return
        a, b = s["seed"] % lh, (s["seed"] // 7) % lw
        if not torch.equal(p[:, a, b], xt[:, a * ph:(a + 1) * ph, b * pw:(b + 1) * pw]):
            V("inverse:patchify:patch-content", f"{what}: patch ({a},{b}) is not the corresponding block of the input")
            return
        ok, y = _real(run, lambda: Unpatchify()(p, {}), what + " -> Unpatchify")
        if not ok:
            return
        run.count("inverse_checked")
        if not same(y.contiguous(), xt):
            V("inverse:patchify:roundtrip", f"{what}: Unpatchify(Patchify(x)) != x")
        return

    what0 = f"PatchifyImage({psize}) on {s['io']} {c}x{h}x{w}"
    # one instance of each transform serves several samples; every sample has its own ctx; nothing is undone / verified
    # before the last sample went through (a batch is assembled sample by sample)
    pf, un = PatchifyImage(psize), UnpatchifyImage()
    sh = PatchwiseShuffle().set_rng(_rng(s["seed"])) if kind == "shuffle_chain" else None
    series = []
    for r in range(s.get("calls", 1)):
        xr = _patch_input(dict(s, data_seed=s["data_seed"] + 7919 * r))
        xtr = xr.clone() if torch.is_tensor(xr) else F.to_tensor(xr)
        ctx = {}
        ok, p = _real(run, lambda: pf(xr, ctx), f"{what0} [call {r}]")
        if not ok:
            return
        q = None
        if sh is not None:
            ok, q = _real(run, lambda: sh(p, ctx), f"{what0} -> PatchwiseShuffle [call {r}]")
            if not ok:
                return
        series.append((xtr, p, q, ctx))
    run.cover("calls_on_one_instance", kind, len(series))
    if len(series) > 1:
        run.count("multi_call_series")
    for r, (xtr, p, q, ctx) in enumerate(series):
        what = f"{what0} [call {r} of {len(series)}, verified after the last call]"
        if ctx.get("patchify_lh") != lh or ctx.get("patchify_lw") != lw:
            V("inverse:patchify_image:ctx", f"{what}: ctx records lh={ctx.get('patchify_lh')}, lw={ctx.get('patchify_lw')}; the image has {lh}x{lw} patches")
            return
        if tuple(p.shape) != (c, lh * lw, ph, pw):
            V("inverse:patchify_image:layout", f"{what}: output shape {tuple(p.shape)}, expected {(c, lh * lw, ph, pw)}")
            return
        a, b = (s["seed"] + r) % lh, ((s["seed"] + r) // 7) % lw
        if not torch.equal(p[:, a * lw + b], xtr[:, a * ph:(a + 1) * ph, b * pw:(b + 1) * pw]):
            V("inverse:patchify_image:patch-content", f"{what}: patch {a * lw + b} is not block ({a},{b}) of the input")
            return
        if sh is not None:
            perm = ctx.get("permutation")
            if perm is None or sorted(np.asarray(perm).tolist()) != list(range(lh * lw)):
                V("inverse:shuffle:ctx-permutation", f"{what}: recorded permutation {perm!r} is not a permutation of range({lh * lw})")
                return
            if tuple(q.shape) != tuple(p.shape):
                V("inverse:shuffle:layout", f"{what}: shuffle changed the shape to {tuple(q.shape)}")
                return
            perm = np.asarray(perm)
            undone = torch.empty_like(q)
            undone[:, torch.from_numpy(perm.astype(np.int64))] = q   # q[:, k] is patch perm[k] of p
            run.count("shuffle_undone_checked")
            if not torch.equal(undone, p):
                key = "inverse:shuffle:recorded-permutation-does-not-undo"
                if r < len(series) - 1:
                    key += ":earlier-call"   # the record of an earlier call no longer tells the truth after later calls
                V(key, f"{what}: undoing the shuffle with the recorded permutation does not restore the patches")
                return
            p = undone
        ok, y = _real(run, lambda: un(p, ctx), what + " -> UnpatchifyImage")
        if not ok:
            return
        run.count("inverse_checked")
        if not same(y.contiguous(), xtr):
            V(f"inverse:{kind}:roundtrip", f"{what}: UnpatchifyImage(PatchifyImage(x, ctx), ctx) != x")
            return


# ================================================================================================ dispatch
def run_case(run, spec):
    kind = spec["kind"]
    run.count(f"cases:{kind}")
    if kind in ("random_crop", "two_random_crop"):
        _crop_case(run, spec)
    elif kind == "random_resized_crop":
        _resized_crop_case(run, spec)
    elif kind == "simple_random_crop":
        _simple_crop_case(run, spec)
    elif kind == "erasing":
        _erasing_case(run, spec)
    elif kind == "specaugment":
        _spec_case(run, spec)
    elif kind == "pipeline":
        _pipeline_case(run, spec)
    elif kind in PAIR_KINDS:
        _pair_case(run, spec)
    elif kind in INV_KINDS:
        _inverse_case(run, spec)
    else:
        raise ValueError(kind)
