"""C06 — resuming the interleaved scheduler yields the suffix of the uninterrupted run.

Differential between two REAL executions: F (uninterrupted) and R (constructed with start_epoch / start_update /
start_sample taken from F's own counters at an epoch boundary). The main sampler's draw depends on the announced epoch,
so a wrong epoch number shows in the indices.
"""
from __future__ import annotations

from . import core
from . import h04_sched as H
from .harness import call_real

LEVEL = "exploration"
RULE = ("schedules as in C04/C05 (drop_last off with N%B!=0, drop_last_batch_size, all budget kinds, epoch/update/sample interval "
        "configs incl. several per schedule) x every epoch boundary strictly before the budget x checkpoint kind "
        "(start_epoch, start_update, start_sample); a case = (schedule, boundary, kind); non-trivial = resume accepted by the constructor")
ASSUMPTIONS = [
    "checkpoints lie on epoch boundaries (as the property states); counters handed to start_update/start_sample are those of the uninterrupted real run",
    "NotImplementedError from the constructor is an accepted answer; an AssertionError of a constructor guard means the checkpoint is outside the accepted domain",
]
MONITORS = ["resumes_compared", "events_compared", "epoch_logs_compared"]


def gen_cases(run):
    n = run.n(28000, 1200000)
    rng = run.rng
    for _ in range(n):
        g = H.gen_geometry(rng, big=False)
        spe = H.samples_per_epoch(g)
        upe = -(-max(spe, 1) // g["B"])
        kind = rng.choice(["epochs", "updates", "samples"])
        if kind == "epochs":
            budget = {"epochs": rng.randint(2, 5)}
        elif kind == "updates":
            budget = {"updates": rng.randint(upe + 1, 4 * upe + 3)}
        else:
            budget = {"samples": rng.randint(spe + 1, 4 * spe + 3)}
        spec = {"g": g, "budget": budget, "cfgs": H.gen_configs(rng, g, max_cfg=3), "seed": rng.randrange(10 ** 6),
                "pick": rng.random(), "ckpt": rng.choice(["start_epoch", "start_epoch", "start_update", "start_sample"])}
        r = rng.random()
        if r < 0.25:
            # the uninterrupted and the resumed scheduler are built from the SAME config / side-sampler objects (both constructed before
            # either runs), and the resumed scheduler is iterated a second time
            spec["share"] = True
        elif r < 0.40:
            # kappadata's DistributedSampler on 2 replicas as main sampler: len() (this rank's share) != effective_length (dataset size)
            spec["main_kind"] = "kd_dist2"
            g["M"] = g["N"] * 2 - rng.choice([0, 1])
        elif r < 0.43:
            spec["huge"] = rng.choice([2 ** 53 + 1, 2 ** 53 + 3, 2 ** 60 + 7, 10 ** 17 + 11])  # checkpoints beyond float precision
        yield spec


def _run_huge(run, spec):
    """no uninterrupted run of 2**53 epochs can be executed: the three forms of ONE epoch-boundary checkpoint must agree with each other"""
    g, cfgs, k = spec["g"], spec["cfgs"], spec["huge"]
    spe = H.samples_per_epoch(g)
    upe = -(-max(spe, 1) // g["B"])
    budget = {"epochs": k + 2}
    forms = {"start_epoch": {"start_epoch": k}, "start_update": {"start_update": k * upe}, "start_sample": {"start_sample": k * spe}}
    outs = {}
    for name, start in forms.items():
        try:
            R, Rmain, _, Rev = H.build_real(g, budget, cfgs, spec["seed"], "rec", start=start)
        except NotImplementedError:
            run.refusal("resume-not-implemented")
            continue
        except AssertionError as e:
            kind, where = core.classify_exception(e)
            if kind == "guard":
                run.refusal("ctor-rejects-checkpoint")
                continue
            raise
        ok, finished = call_real(run, lambda: H.consume(R, Rev, 3 * (spe + sum(c["n"] for c in cfgs) * (upe + 1)) + 50), what=f"resumed run ({start})")
        if not ok:
            return
        outs[name] = (list(Rev), [e for e, _ in Rmain.epoch_log], finished)
    run.cover("huge-checkpoint", len(outs))
    names = sorted(outs)
    for a in names[1:]:
        run.count("checkpoint_forms_compared")
        if outs[a] != outs[names[0]]:
            run.violation("resume:checkpoint-forms-disagree", f"{_desc(spec)}: the epoch-{k} boundary given as {forms[a]} and as {forms[names[0]]} resumes differently: "
                                                              f"epochs announced {outs[a][1]} vs {outs[names[0]][1]}, {len(outs[a][0])} vs {len(outs[names[0]][0])} events, "
                                                              f"first events {outs[a][0][:6]} vs {outs[names[0]][0][:6]}")
            return
    if "start_epoch" in outs and outs["start_epoch"][1][:1] != [k]:
        run.violation("resume:epoch-numbers:start_epoch", f"{_desc(spec)}: resumed with start_epoch={k} but the first announced epoch is {outs['start_epoch'][1][:1]}")


def run_case(run, spec):
    if spec.get("huge"):
        return _run_huge(run, spec)
    g, budget, cfgs = spec["g"], spec["budget"], spec["cfgs"]
    M = g["M"]
    mk = spec.get("main_kind", "rec")
    ok, built = call_real(run, lambda: H.build_real(g, budget, cfgs, spec["seed"], mk), crash_key="ctor-crash", what="InterleavedSampler(...)")
    if not ok:
        return
    F, Fmain, _, Fev = built
    mdl = H.model(g, budget, cfgs, lambda j, e: list(range(g["N"])) if mk != "rec" else H.rec_draw(g["M"], g["N"], spec["seed"], e))
    cap = 2 * len(mdl["events"]) + 200
    ok, finished = call_real(run, lambda: H.consume(F, Fev, cap), what="uninterrupted run")
    if not ok:
        return
    if not finished:
        run.count("skipped_uninterrupted_run_does_not_end")  # C04's business
        return
    # epoch boundaries of F strictly before its end: the stream position at which epoch k's iteration started
    starts = [(e, p) for e, p in Fmain.iter_log]
    cands = [(k, p) for j, (k, p) in enumerate(starts) if j > 0 and p < len(Fev)]
    if not cands:
        run.count("no_boundary_before_budget")
        return
    k, pos = cands[min(int(spec["pick"] * len(cands)), len(cands) - 1)]
    upd_k = sum(1 for f, i in Fev[:pos] if i < M and f)
    smp_k = sum(1 for f, i in Fev[:pos] if i < M)
    ck = spec["ckpt"]
    start = {"start_epoch": {"start_epoch": k}, "start_update": {"start_update": upd_k}, "start_sample": {"start_sample": smp_k}}[ck]
    multi = any(sum(c[x] is not None for x in ("every_n_epochs", "every_n_updates", "every_n_samples")) > 1 for c in cfgs)
    kinds = tuple(sorted({x[8] for c in cfgs for x in ("every_n_epochs", "every_n_updates", "every_n_samples") if c[x] is not None}))
    run.cover(ck, list(budget)[0], g["drop_last"], g["D"] is not None, g["N"] % g["B"] == 0, kinds)

    F2 = None
    try:
        if spec.get("share"):
            # a second uninterrupted scheduler and the resumed one over the same config objects, both built before either runs
            F2, F2main, F2sides, F2ev = H.build_real(g, budget, cfgs, spec["seed"], mk)
            R, Rmain, _, Rev = H.build_real(g, budget, cfgs, spec["seed"], mk, start=start, reuse=(F2sides, F2main._kdv_configs))
        else:
            R, Rmain, _, Rev = H.build_real(g, budget, cfgs, spec["seed"], mk, start=start)
    except NotImplementedError:
        run.refusal("resume-not-implemented")
        return
    except AssertionError as e:
        kind, where = core.classify_exception(e)
        if kind == "guard":
            run.refusal("ctor-rejects-checkpoint")
            return
        raise
    if F2 is not None:
        run.count("resumes_over_shared_config_objects")
        ok, fin2 = call_real(run, lambda: H.consume(F2, F2ev, len(Fev) + 50), what="uninterrupted run over the shared config objects")
        if not ok:
            return
        if F2ev != Fev:
            run.violation("resume:shared-configs:uninterrupted-run-differs", f"{_desc(spec)}: an uninterrupted run whose config objects are also held by a second (not yet started) "
                                                                             f"scheduler differs from the run with its own config objects: {len(F2ev)} vs {len(Fev)} events")
            return
    ok, finished = call_real(run, lambda: H.consume(R, Rev, len(Fev) + 50), what=f"resumed run ({start})")
    if not ok:
        return
    want = Fev[pos:]
    run.count("resumes_compared")
    run.count("events_compared", len(want))
    desc = f"{_desc(spec)} resumed with {start} (boundary of epoch {k}: {upd_k} updates, {smp_k} samples done)"
    if Rev != want:
        j = next((i for i, (a, b) in enumerate(zip(Rev, want)) if a != b), min(len(Rev), len(want)))
        r_main = [(f, i) for f, i in Rev if i < M]
        w_main = [(f, i) for f, i in want if i < M]
        if r_main != w_main:
            if [i for _, i in r_main[:len(w_main)]] == [i for _, i in w_main[:len(r_main)]] and len(r_main) != len(w_main):
                key = "resume:stopping-point"
            else:
                key = "resume:main-indices"
        else:
            key = "resume:side-passes"
        run.violation(f"{key}:{ck}", f"{desc}: resumed stream differs from the suffix at event {j}: resumed {Rev[max(0, j - 2):j + 6]} vs uninterrupted {want[max(0, j - 2):j + 6]} (lengths {len(Rev)} vs {len(want)})")
        return
    run.count("epoch_logs_compared")
    want_epochs = [e for e, p in Fmain.epoch_log if p >= pos]
    got_epochs = [e for e, _ in Rmain.epoch_log]
    if got_epochs != want_epochs:
        run.violation(f"resume:epoch-numbers:{ck}", f"{desc}: epochs announced after resume {got_epochs} vs uninterrupted {want_epochs}")
        return
    if F2 is not None:
        first = list(Rev)
        del Rev[:]
        ok, finished = call_real(run, lambda: H.consume(R, Rev, len(Fev) + 50), what=f"second iteration of the resumed scheduler ({start})")
        if not ok:
            return
        run.count("resumed_reiterations_compared")
        if Rev != first:
            j = next((i for i, (a, b) in enumerate(zip(Rev, first)) if a != b), min(len(Rev), len(first)))
            run.violation(f"resume:second-iteration-differs:{ck}", f"{desc}: iterating the resumed scheduler a second time differs at event {j}: {Rev[max(0, j - 2):j + 6]} vs {first[max(0, j - 2):j + 6]}")
            return
    run.sample({"spec": _desc(spec), "resume": start, "suffix_len": len(want), "epochs": got_epochs})


def _desc(spec):
    g = spec["g"]
    c = [{k: v for k, v in c.items() if v is not None and (k.startswith("every") or k == "n")} for c in spec["cfgs"]]
    return f"N={g['N']} M={g['M']} B={g['B']} drop_last={g['drop_last']} D={g['D']} {spec['budget']} configs={c}"
