"""CLI: python -m kdv.main <ID> [--tier quick|thorough] [--seed N] [--replay path]"""
from __future__ import annotations

import argparse
import importlib
import json
import os
import sys
import time
from pathlib import Path

# environment must be fixed before torch / numpy are imported
os.environ.setdefault("PYTHONDONTWRITEBYTECODE", "1")
os.environ.setdefault("OMP_NUM_THREADS", "1")
os.environ.setdefault("MKL_NUM_THREADS", "1")
sys.dont_write_bytecode = True

from kdv import core  # noqa: E402


def _prepare():
    import warnings
    warnings.filterwarnings("ignore")
    deps = core.VERIF / ".deps"
    if deps.exists():
        sys.path.append(str(deps))
    if str(core.REPO) != "/repo":
        sys.path.insert(0, str(core.REPO))  # scratch copy of the repository (used to try the checks against seeded changes)
    import torch
    torch.set_num_threads(1)
    import kappadata
    kd_file = Path(kappadata.__file__).resolve()
    if not str(kd_file).startswith(str(core.REPO.resolve())):
        raise core.Inconclusive(f"kappadata imported from {kd_file}, expected under {core.REPO}")


# per-property thorough settings: (shards, watchdog seconds)
THOROUGH = {"default": (core.NCPU, 3000)}


def _reap_leftovers():
    """kills every process that still carries this run's token (orphaned Manager servers / workers started by the code under test):
    a leftover process that keeps the check's stdout open must not make the check look as if it never ended. Shard processes do not reap
    (their parent does)."""
    tok = os.environ.get("KDV_RUN_TOKEN")
    if not tok or "--shard" in sys.argv:
        return
    import signal
    me = os.getpid()
    needle = ("KDV_RUN_TOKEN=" + tok).encode()
    for d in os.listdir("/proc"):
        if not d.isdigit() or int(d) == me:
            continue
        try:
            with open(f"/proc/{d}/environ", "rb") as f:
                if needle in f.read():
                    os.kill(int(d), signal.SIGKILL)
        except OSError:
            pass


def main(argv=None):
    ap = argparse.ArgumentParser()
    ap.add_argument("pid")
    ap.add_argument("--tier", default=os.environ.get("VERIF_TIER", "quick"), choices=["quick", "thorough"])
    ap.add_argument("--seed", type=int, default=int(os.environ.get("VERIF_SEED", "0")))
    ap.add_argument("--replay")
    ap.add_argument("--shard")
    ap.add_argument("--partial-out")
    ap.add_argument("--scale", type=float, default=float(os.environ.get("KDV_SCALE", "1.0")))
    a = ap.parse_args(argv)
    pid = a.pid.upper()
    try:
        _prepare()
        mod = importlib.import_module(f"kdv.{pid.lower()}")
    except core.Inconclusive as e:
        print(f"INCONCLUSIVE property={pid}: {e}")
        return 3
    except Exception as e:
        import traceback
        traceback.print_exc()
        print(f"INCONCLUSIVE property={pid}: harness/repository import failed: {type(e).__name__}: {e}")
        return 3
    level = mod.LEVEL

    if a.replay:
        rec = json.loads(Path(a.replay).read_text())
        run = core.Run(pid, a.tier, a.seed, level)
        if hasattr(mod, "setup"):
            mod.setup(run)
        run.execute(mod, rec["spec"])
        for v in run.violations:
            print(f"VIOLATION property={pid} replay={a.replay} key={v['key']} :: {v['what'][:2000]}")
        for k, c in run.known_hits.items():
            print(f"KNOWN-FINDING: property={pid} {run.known[k]['what']} [key={k}]")
        if not run.violations and not run.known_hits:
            print(f"[{pid}] replay {a.replay}: no violation reproduced")
        return 1 if run.violations else 0

    if a.shard:
        i, n = map(int, a.shard.split("/"))
        run = core.Run(pid, a.tier, a.seed, level, shard=(i, n), budget_scale=a.scale)
        try:
            core.run_inprocess(mod, run)
        except core.Inconclusive as e:
            run.notes["inconclusive_shard"] = [str(e)]
        Path(a.partial_out).write_text(json.dumps(run.partial(), default=core._json_default))
        return 0

    run = core.Run(pid, a.tier, a.seed, level, budget_scale=a.scale)
    sharded = a.tier == "thorough" and not getattr(mod, "NO_SHARD", False)
    try:
        if sharded:
            nshards, watchdog = getattr(mod, "THOROUGH_SHARDS", core.NCPU), getattr(mod, "THOROUGH_WATCHDOG_S", 3000)
            parts, problems = core.run_sharded(mod.__name__, pid, a.tier, a.seed, nshards, level, watchdog, extra_env={"KDV_SCALE": str(a.scale)})
            for p in parts:
                run.merge(p)
            if problems:
                run.notes["shard_problems"] = problems
                if not run.violations:
                    core.write_evidence(run, mod, problems)
                    print(f"INCONCLUSIVE property={pid}: " + "; ".join(problems)[:1500])
                    return 3
            if hasattr(mod, "finalize_merged"):
                mod.finalize_merged(run)
            if a.tier == "thorough" and not os.environ.get("KDV_NO_AMBIENT"):
                from kdv import ambient
                ambient.run_for(pid, run, core.REPO)
        else:
            core.run_inprocess(mod, run)
            if hasattr(mod, "finalize_merged"):
                mod.finalize_merged(run)
    except core.Inconclusive as e:
        core.write_evidence(run, mod, [str(e)])
        print(f"INCONCLUSIVE property={pid}: {e}")
        return 3
    return core.finish(run, mod)


if __name__ == "__main__":
    _code = 3
    try:
        _code = main()
    finally:
        _reap_leftovers()
    sys.exit(_code)
