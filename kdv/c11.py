"""C11 — the sample-level mix wrapper returns a convex combination with matching label weights.

Observation point: `ModeWrapper(<stack containing KDMixWrapper>, mode)[i]` for the request forms "x class", "class x",
"x", "class" (with "index" / "ctx.*" items mixed in) on *id-encoded* datasets:

    x_j[pos] = (j + 1) * 4096 + 2048 * bit(j, pos) + position_code(pos)
    class_j  = a class that (for the id layouts) names sample j

(integers < 2^19: exact in float32; never 0, so zero padding is visible; bit = fixed per-sample pseudo-random pattern, so
that the differences x_p - x_i are not parallel for different partners p and the partner is identifiable from the data.)

Because every sample carries its id and every element its position, the partner, the mix weight and the shape
unification can be *decoded from the returned tensor* (least-squares weight per candidate partner, residual must vanish)
and compared with the returned label vector. Nothing is read from the wrapper; the reference (zero-pad / cut at the end to
the shape of sample i, w*x_i + (1-w)*U(x_p), w*e(c_i) + (1-w)*e(c_p)) is written from the property text.

The probability-one clause is statistical: all (seed, index) draws of the dedicated p=1 cases (64 samples with 64 distinct
classes) are counted in `run.counters` and judged once in `finalize_merged` against an exact binomial tail bound.
"""
from __future__ import annotations

import json
import math
import os
import random as pyrandom
import subprocess
import sys

import numpy as np
import torch

from kappadata.datasets.kd_dataset import KDDataset
from kappadata.datasets.kd_subset import KDSubset
from kappadata.wrappers.mode_wrapper import ModeWrapper
from kappadata.wrappers.sample_wrappers.kd_mix_wrapper import KDMixWrapper
from kappadata.wrappers.sample_wrappers.label_smoothing_wrapper import LabelSmoothingWrapper
from kappadata.wrappers.sample_wrappers.x_transform_wrapper import XTransformWrapper

from . import core
from .harness import call_real

LEVEL = "exploration"
RULE = ("random id-encoded datasets (2..64 samples; 1..4-d samples with dims 1..48 incl. per-sample differing shapes under "
        "pad_or_cut_end; class layouts id / permuted / shared / sparse; int and 0-d tensor labels), mixup_p in (0,1] biased to "
        "{tiny, .5, 1}, alpha .1..8, seeds None/0/small/large, optional cutmix_p>0 (enumerated refusal), KDMixWrapper plain / "
        "over KDSubset / over and under XTransformWrapper(id, neg, double); per case 3..6 indices x the request forms "
        "'x class','class x','x','class' + forms with index/ctx items; plus dedicated p=1 cases (64 distinct classes, all 64 "
        "indices, distinct seeds) for the binomial clause and the first/last-partner census; 2-/3-sample p=1 datasets x 64 seeds per "
        "index; ~22% soft labels (LabelSmoothingWrapper below the mix wrapper / soft-vector leaf), ~20% ctx-coupled leaves with return_ctx; ~60% of the leaves serve non-contiguous tensors; value-class cases (equal infinities, "
        "half/bfloat/float/double near the dtype limit with opposite signs); 2 child interpreters (other PYTHONHASHSEED) x 4 seeded configs; "
        "25 instance-history cases (seed attribute assigned after construction; worker_init_fn(rank 0/1/3) called) against a directly built twin. A case is distinct by its full spec; every case is non-trivial")
ASSUMPTIONS = [
    "leaves return python int (or 0-d long tensor) labels and a fresh float32 tensor per load (the wrapper mixes in place), as the repository's datasets do",
    "datasets have >= 2 samples ('one other sample' is undefined for a single sample); samples of one dataset have equal ndim; "
    "differing shapes are only driven together with mixup_unify_shapes_mode='pad_or_cut_end'",
    "float tolerances: data residual <= 4e-6*(|x_i|+|U(x_p)|)+1e-6 per element, label vs data-decoded weight <= 3e-4, label sum <= 1e-5",
    "p=1 clause: lambda ~ Beta(alpha, alpha) with alpha >= 1 and P(partner = self) <= 1/n (uniform over the dataset or over the "
    "others); draws of distinct (seed, index) pairs are independent; 'looks un-mixed' = label mass on the own class >= 1-1e-3 "
    "(x-only form: every (partner, weight) explanation of the data keeps < 1e-3 of the partner); null probability bounded by 1/64 + 2e-3; false-alarm bound 1e-12 per run",
    "cutmix_p > 0 is driven only as refusal class 'cutmix-not-implemented' (NotImplementedError raised by the wrapper itself); "
    "results returned in such configurations must be untouched / mixup results (or, should cutmix get implemented, an "
    "element-wise paste of the partner with the label weight equal to the retained fraction)",
    "soft labels: the dataset below the mix wrapper serves float class vectors that sum to one (LabelSmoothingWrapper(smoothing>0) with "
    ">= 2 classes, or a leaf that returns such vectors); the mixed label must be w*L(c_i) + (1-w)*L(c_p); the 'at most two non-zeros' "
    "reading only applies to hard labels",
    "ctx-coupled leaves: getitem_class(idx, ctx) answers for the sample whose x was loaded last with the same ctx (the loaders of one "
    "sample share the ctx; label requested right after the data of the same sample, as the current wrapper does); driven with return_ctx=True",
    "partner census: in the 64-sample p=1 runs every sample can be drawn as partner with probability >= 1/64; small datasets: P(partner=self) <= 1/n",
    "memory layouts: leaves also serve non-contiguous tensors with own storage (permuted storage, strided view, clone of a permuted view)",
    "value classes (separate small cases, reference built from the partner and the two weights the returned label names): equal +-inf at "
    "the same positions of all samples, driven with alpha >= 4 only (a float32 weight of exactly 0/1 would make 0*inf = nan in the plain "
    "formula w*x_i + (1-w)*x_p too); 2-sample datasets in float16/bfloat16/float32/float64 with magnitudes 0.62..0.92 of the dtype maximum and "
    "opposite signs (20000 trials per dtype of the plain formula on the installed torch stay finite and within 8 eps), tolerance 8*max(eps(dtype), 1.2e-7)",
    "cross-interpreter clause: a few seeded configurations (incl. custom ctx_prefix) are recomputed in fresh interpreters with another "
    "PYTHONHASHSEED and compared (rel 1e-6) with this interpreter; a child that cannot be started, crashes, raises or times out is "
    "'not compared' (monitor stays 0 -> INCONCLUSIVE), never a violation",
    "instance histories: the public `seed` attribute may be assigned after construction (the current wrapper reads it at call time) and "
    "worker_init_fn(rank) - the hook a DataLoader worker calls - may have run; a seeded wrapper then returns what a twin built directly with "
    "that seed returns (rel 1e-6), for every request form and index",
    "without a seed the request forms are judged separately (no agreement between separate requests is claimed)",
    "KDSubset *above* the mix wrapper is not driven: the ModeWrapper constructor refuses outer layers without the fused accessor",
]
MONITORS = ["reconfigured_seed_results_compared", "worker_hook_results_compared", "noncontiguous_mixed_results_checked", "value_inf_mixed_results_checked", "value_limit_mixed_results_checked", "cross_interpreter_results_compared", "small_dataset_indices_checked", "soft_label_results_checked", "ctx_coupled_results_checked", "joint_results_checked", "x_only_results_checked", "label_only_results_checked", "seeded_form_agreement_checked",
            "unified_shape_results_checked", "untouched_results_seen", "mixed_results_seen", "p1_draws"]

# tolerances (see ASSUMPTIONS)
RT = 4e-6     # relative, per element, on |x_i| + |U(x_p)|
TT = 1e-4     # slack of the decoded partner weight around [0, 1]
TY = 3e-4     # label vs expected label built from the data-decoded weight (observed on the real code: < 1e-5)
TSUM = 1e-5
P1_EPS = 1e-3
P1_Q0 = 1.0 / 64 + 2e-3
P1_ALARM = 5e-13     # binomial clause; the partner-census and small-dataset clauses add < 1e-13, total < 1e-12 per run
P1_MIN_DRAWS = 3000
P1_CENSUS_MIN = 2000  # label-bearing p=1 draws needed for 'first/last sample occurs as partner': 2*(63/64)^2000 < 5e-14
SMALL_K = 64          # seeds per index on 2-/3-sample datasets: (1/2 + 2e-3)^64 < 1e-19
LAST_X = "c11_last_x"
CTX_KEY = "c11_loads"

TF = {"id": (lambda x: x, 1.0), "neg": (lambda x: torch.neg(x), -1.0), "dbl": (lambda x: x * 2.0, 2.0)}


# ------------------------------------------------------------------------------------------------ harness dataset
def _bits(nd):
    return 11 // nd


_BITS = {}


def encode(j, shape):
    """float64 array: (j+1)*4096 + 2048*bit(j, code) + code, code = sum_k pos_k << (bits*(nd-1-k)) < 2048;
    integers < 2^19, exact in float32"""
    nd = len(shape)
    b = _bits(nd)
    assert all(1 <= s <= (1 << b) for s in shape) and 0 <= j < 127
    grids = np.indices(shape)
    code = np.zeros(shape, dtype=np.int64)
    for k in range(nd):
        code += grids[k] << (b * (nd - 1 - k))
    if j not in _BITS:
        _BITS[j] = np.random.default_rng(11000 + j).integers(0, 2, size=2048)   # harness-side pattern, fixed per sample id
    bit = _BITS[j][code]
    return ((j + 1) * 4096 + 2048 * bit + code).astype(np.float64)


def smooth_vec(c, ncls, smooth):
    """label-smoothed one-hot (float64): off = s/C everywhere, on = 1 - s + s/C at the class; s=None/0 -> one-hot"""
    sm = float(smooth or 0.0)
    v = np.full(ncls, sm / ncls, dtype=np.float64)
    v[c] = 1.0 - sm + sm / ncls
    return v


LAYOUTS = ["contig", "permuted", "strided", "clone_view"]


def lay_out(t, layout):
    """fresh tensor with the values of `t` in the given memory layout (what datasets that keep HWC storage / hand out
    strided views serve): contig | permuted (reversed-axis storage seen through .permute) | strided (every 2nd element of a
    longer last axis) | clone_view (clone of a permuted view: keeps the permuted strides)"""
    if layout in (None, "contig"):
        return t.clone()
    if layout == "strided":
        base = torch.full(tuple(t.shape[:-1]) + (t.shape[-1] * 2,), -7.0, dtype=t.dtype)
        base[..., ::2] = t
        return base[..., ::2]
    perm = tuple(reversed(range(t.ndim)))
    view = t.permute(perm).clone(memory_format=torch.contiguous_format).permute(perm)   # own storage in reversed-axis order, original shape
    return view.clone() if layout == "clone_view" else view


def layout_of(spec, j):
    lay = spec.get("layout")
    return LAYOUTS[j % len(LAYOUTS)] if lay == "mixed" else lay


class IdLeaf(KDDataset):
    """root dataset with id/position-encoded samples; every load returns a fresh tensor and is logged (list + ctx)"""

    def __init__(self, shapes, classes, n_classes, label_kind="int", ctx_coupled=False, smooth=None, layout=None):
        super().__init__()
        self.layout = layout                # memory layout of the served tensors (None / name / "mixed": by sample id)
        self.ctx_coupled = ctx_coupled      # getitem_class answers for the sample whose x was loaded last with this ctx
        self.smooth = smooth                # label_kind "soft": smoothed one-hot float vector
        self.shapes = [tuple(s) for s in shapes]
        self.classes = [int(c) for c in classes]
        self.n_classes = int(n_classes)
        self.label_kind = label_kind
        self.log = []
        self._enc = {}

    def _note(self, item, idx, ctx):
        self.log.append((item, int(idx)))
        if ctx is not None:
            ctx.setdefault(CTX_KEY, []).append((item, int(idx)))

    def getitem_x(self, idx, ctx=None):
        idx = int(idx)
        if not 0 <= idx < len(self.shapes):
            raise IndexError(f"IdLeaf: index {idx} out of range for {len(self.shapes)} samples")
        self._note("x", idx, ctx)
        if ctx is not None:
            ctx[LAST_X] = idx
        if idx not in self._enc:
            self._enc[idx] = torch.from_numpy(encode(idx, self.shapes[idx]).astype(np.float32))
        return lay_out(self._enc[idx], layout_of({"layout": self.layout}, idx))   # fresh tensor (own storage) per load

    def getitem_class(self, idx, ctx=None):
        idx = int(idx)
        if not 0 <= idx < len(self.shapes):
            raise IndexError(f"IdLeaf: index {idx} out of range for {len(self.shapes)} samples")
        self._note("class", idx, ctx)
        if self.ctx_coupled and ctx is not None and LAST_X in ctx:
            idx = ctx[LAST_X]               # the loaders of one sample share the ctx (x first, then its label)
        c = self.classes[idx]
        if self.label_kind == "soft":
            return torch.from_numpy(smooth_vec(c, self.n_classes, self.smooth).astype(np.float32)).clone()
        return torch.tensor(c, dtype=torch.long) if self.label_kind == "tensor0d" else c

    def getshape_class(self):
        return (self.n_classes,)

    def __len__(self):
        return len(self.shapes)


# ------------------------------------------------------------------------------------------------ generation
def _dims(rng, nd):
    cap = {1: 48, 2: 12, 3: 8, 4: 4}[nd]
    return cap, [rng.choice([1, 2, 3, rng.randint(1, cap), rng.randint(1, cap), cap]) for _ in range(nd)]


def _gen_mix(rng):
    n = rng.choice([2, 2, 3, 4, 5, 8, 16, 33, 64, rng.randint(2, 64), rng.randint(2, 24)])
    nd = rng.choice([1, 2, 3, 3, 3, 4])
    cap, base = _dims(rng, nd)
    subset = rng.random() < 0.25
    m = n + (rng.randint(1, 12) if subset else 0)      # leaf size
    m = min(m, 96)
    unify = rng.choice([None, "pad_or_cut_end", "pad_or_cut_end"])
    style = "uniform"
    if unify is not None:
        style = rng.choice(["uniform", "last", "one", "all", "all"])
    shapes = []
    vary = rng.randrange(nd)
    for _ in range(m):
        s = list(base)
        if style == "last":
            s[-1] = rng.randint(1, cap)
        elif style == "one":
            s[vary] = rng.randint(1, cap)
        elif style == "all":
            s = [rng.choice([d, rng.randint(1, cap)]) for d in base]
        shapes.append(s)
    layout = rng.choice(["id", "id", "perm", "shared", "sparse"])
    if layout == "id":
        classes, ncls = list(range(m)), m
    elif layout == "perm":
        classes, ncls = rng.sample(range(m), m), m
    elif layout == "shared":
        ncls = rng.randint(1, max(1, m // 2))
        classes = [rng.randrange(ncls) for _ in range(m)]
    else:
        ncls = m + rng.randint(1, 10)
        classes = sorted(rng.sample(range(ncls), m))
    # probabilities
    cutmix = rng.random() < 0.12
    spec_p = {}
    if cutmix:
        cp = rng.choice([0.1, 0.3, 0.5, 1.0, round(rng.uniform(0.05, 0.9), 3)])
        spec_p["cutmix_p"] = cp
        spec_p["cutmix_alpha"] = rng.choice([1, 1.0, 0.5, 2.0])
        rest = 1.0 - cp
        mp = rng.choice([None, None, 0.0, rest, round(rng.uniform(0, rest), 3)]) if rest > 0 else rng.choice([None, 0.0])
        if mp is not None and mp + cp > 1.0:
            mp = None
        spec_p["mixup_p"] = mp
    else:
        spec_p["cutmix_p"] = rng.choice([None, None, 0.0])
        spec_p["cutmix_alpha"] = None
        spec_p["mixup_p"] = rng.choice([1.0, 1.0, 1, 0.5, 0.5, 1e-6, 0.999, 0.05, round(rng.uniform(0.01, 1.0), 3)])
    if spec_p["mixup_p"]:
        spec_p["mixup_alpha"] = rng.choice([0.1, 0.2, 0.5, 0.8, 1, 1.0, 2.0, 8, 8.0, round(rng.uniform(0.1, 8.0), 3)])
    else:
        spec_p["mixup_alpha"] = None
        unify = None
        shapes = [list(base) for _ in range(m)]
    seed = rng.choice([None, 0, 0, rng.randrange(100), rng.randrange(10 ** 6), 2 ** 31 - 1 - rng.randrange(1000)])
    spec = {
        "kind": "mix", "m": m, "shapes": shapes, "classes": classes, "ncls": ncls,
        "label_kind": rng.choice(["int", "int", "int", "tensor0d"]),
        "subset": rng.sample(range(m), n) if subset else None,
        "tf_below": rng.choice([None, None, None, "id", "neg", "dbl"]),
        "tf_above": rng.choice([None, None, None, "id", "neg", "dbl"]),
        "unify": unify, "seed": seed, "return_ctx": rng.random() < 0.2,
    }
    spec.update(spec_p)
    # soft labels (label smoothing below the mix wrapper / leaf that serves soft vectors) and ctx-coupled leaves
    spec["smooth"], spec["smooth_via"] = None, None
    if rng.random() < 0.22:
        spec["smooth"] = rng.choice([0.1, 0.1, 0.3, 0.5, 1.0, round(rng.uniform(0.01, 0.9), 3)])
        spec["smooth_via"] = "wrapper" if (ncls > 1 and rng.random() < 0.6) else "leaf"
        if spec["smooth_via"] == "leaf":
            spec["label_kind"] = "soft"
    spec["ctx_coupled"] = rng.random() < 0.2
    if spec["ctx_coupled"]:
        spec["return_ctx"] = True
    spec["layout"] = rng.choice([None, None, None, None, "permuted", "permuted", "strided", "clone_view", "mixed", "mixed"])
    spec["ctx_prefix"] = rng.choice([None, None, None, None, "mix_train", "kdmix2"])
    k = min(n, rng.randint(3, 6))
    idx = set(rng.sample(range(n), k)) | ({0, n - 1} if rng.random() < 0.5 else set())
    idx = sorted(idx)
    if rng.random() < 0.15:
        idx.append(rng.choice([-1, -n]))
    spec["indices"] = idx
    spec["forms"] = _forms(rng)
    return spec


BASE_FORMS = ["x class", "class x", "x", "class"]


def _forms(rng):
    forms = list(BASE_FORMS)
    for _ in range(rng.randint(1, 3)):
        items = rng.choice(BASE_FORMS).split(" ")
        if rng.random() < 0.8:
            items.insert(rng.randint(0, len(items)), "index")
        if rng.random() < 0.5:
            first_data = min(items.index(it) for it in ("x", "class") if it in items)
            items.insert(rng.randint(first_data + 1, len(items)), f"ctx.{CTX_KEY}")   # only after a load: the harness leaf writes the key
        f = " ".join(items)
        if f not in forms:
            forms.append(f)
    return forms


P1_FORMS = ["x class", "class x", "class", "x", "index class x", f"x class ctx.{CTX_KEY}"]


def p1_specs(verif_seed, shard_idx, count):
    """the p=1 cases of one shard: deterministic in (VERIF_SEED, shard), disjoint seed ranges per shard,
    all seed+index values distinct inside a run"""
    r = pyrandom.Random(f"C11/p1/{verif_seed}/{shard_idx}")
    us = r.sample(range(2 ** 20), count)
    out = []
    for k, u in enumerate(us):
        nd = r.choice([1, 2, 3])
        shape = [r.randint(1, 3) for _ in range(nd)]
        out.append({
            "kind": "p1", "m": 64, "shapes": [shape] * 64,
            "classes": list(range(64)) if r.random() < 0.5 else r.sample(range(64), 64), "ncls": 64,
            "label_kind": r.choice(["int", "int", "tensor0d"]), "subset": None,
            "tf_below": None, "tf_above": r.choice([None, None, "neg"]),
            "unify": r.choice([None, "pad_or_cut_end"]), "seed": 64 * (shard_idx * 2 ** 20 + u), "return_ctx": False,
            "cutmix_p": r.choice([None, 0.0]), "cutmix_alpha": None, "mixup_p": r.choice([1.0, 1]),
            "mixup_alpha": r.choice([1, 1.0, 1.5, 2.0, 4.0, 8]),
            "indices": list(range(64)), "forms": [P1_FORMS[k % len(P1_FORMS)]],
        })
    return out


def _gen_small(rng):
    """2-/3-sample datasets, mixup_p=1, alpha>=1: over SMALL_K seeds every index must be mixed with another sample"""
    n = rng.choice([2, 2, 3])
    nd = rng.choice([1, 2, 3])
    shape = [rng.randint(2, 4) for _ in range(nd)]
    return {"kind": "p1small", "m": n, "shapes": [shape] * n, "classes": rng.sample(range(n), n), "ncls": n,
            "label_kind": rng.choice(["int", "tensor0d"]), "subset": None, "tf_below": None, "tf_above": None,
            "unify": rng.choice([None, "pad_or_cut_end"]), "seed0": rng.randrange(10 ** 6), "stride": rng.choice([7, 100, 1009]),
            "return_ctx": False, "cutmix_p": None, "cutmix_alpha": None, "mixup_p": rng.choice([1.0, 1]),
            "mixup_alpha": rng.choice([1, 1.0, 2.0, 4.0]), "smooth": None, "smooth_via": None, "ctx_coupled": False,
            "indices": list(range(n)), "forms": [rng.choice(["x class", "class x", "class", "x"])]}


VALUE_DTYPES = ["float16", "bfloat16", "float32", "float64"]     # established on the pristine formula (see ASSUMPTIONS)


def _gen_values(rng):
    """value classes: equal infinities at the same positions of every sample / magnitudes near the dtype limit with
    opposite signs in the two samples of a 2-sample dataset"""
    vk = rng.choice(["inf", "inf", "limit", "limit", "limit"])
    nd = rng.choice([1, 2, 3])
    shape = [rng.randint(2, 5) for _ in range(nd)]
    spec = {"kind": "values", "vkind": vk, "shape": shape, "data_seed": rng.randrange(10 ** 6),
            "layout": rng.choice([None, None, "permuted", "strided", "clone_view", "mixed"]),
            "mixup_p": rng.choice([1.0, 1.0, 0.7]), "seeds": [rng.choice([0, rng.randrange(1000), rng.randrange(10 ** 6)]) for _ in range(5)],
            "unify": rng.choice([None, "pad_or_cut_end"]), "tf_above": rng.choice([None, None, "id"])}
    if vk == "inf":
        # alpha >= 4: the weight is strictly inside (0,1) in float32 (P(1-lambda < 6e-8) < 1e-27), 0*inf never arises
        spec.update(n=rng.choice([2, 3, 4]), dtype=rng.choice(["float32", "float32", "float64"]), mixup_alpha=rng.choice([4, 4.0, 8.0]),
                    inf_sign=rng.choice([-1, -1, 1, 0]))
    else:
        spec.update(n=2, dtype=rng.choice(VALUE_DTYPES), mixup_alpha=rng.choice([0.3, 1, 1.0, 2.0, 4.0]))
    return spec


def _gen_xproc(rng, hashseed):
    cfgs = []
    for k in range(4):
        c = _gen_mix(rng)
        while c["cutmix_p"]:
            c = _gen_mix(rng)
        c.update(seed=rng.choice([0, rng.randrange(1000), rng.randrange(10 ** 6)]), ctx_coupled=False, return_ctx=False,
                 ctx_prefix=[None, "mix_train", "kdmix2", None][k], forms=["x class", "x", "class"],
                 indices=sorted({i % len(c["subset"] or range(c["m"])) for i in c["indices"]})[:6])
        if c["mixup_p"] and c["mixup_p"] < 0.3:
            c["mixup_p"] = 1.0
        cfgs.append(c)
    return {"kind": "xproc", "hashseed": hashseed, "configs": cfgs}


def _p1_count(run):
    if run.quick():
        return 50                                   # 3200 draws
    nsh = run.shard[1] if run.shard is not None else 1
    return max(4, 3200 // nsh)                      # 16 shards x 200 cases x 64 = 204800 draws


def gen_cases(run):
    sh = run.shard[0] if run.shard is not None else 0
    cnt = _p1_count(run)
    run.notes["p1_plan"] = [[sh, cnt]]
    p1 = p1_specs(run.seed, sh, cnt)
    n = run.n(450, 64000)
    every = max(1, n // max(1, len(p1)))
    global _ASYNC
    _ASYNC = True                   # generated runs overlap the child interpreters with the other cases; a replay runs them synchronously
    n_small = 8 if run.quick() else 40
    n_values = 60 if run.quick() else 600
    n_history = 25 if run.quick() else 250
    xproc = [_gen_xproc(run.rng, 1), _gen_xproc(run.rng, 2 + run.rng.randrange(10 ** 6))]
    for i in range(n):
        if xproc and i in (0, 5):
            yield xproc.pop(0)
        if i % every == 0 and p1:
            yield p1.pop()
        if i < n_small:
            yield _gen_small(run.rng)
        if i < n_values:
            yield _gen_values(run.rng)
        if i < n_history:
            yield _gen_history(run.rng)
        yield _gen_mix(run.rng)
    while xproc:
        yield xproc.pop(0)
    while p1:
        yield p1.pop()


# ------------------------------------------------------------------------------------------------ reference model
class Model:
    """what the dataset under the mix wrapper contains, as float64 arrays already scaled by the (linear, exact)
    transforms below/above the mix wrapper"""

    def __init__(self, spec):
        view = spec["subset"] if spec["subset"] is not None else list(range(spec["m"]))
        self.n = len(view)
        f = 1.0
        for t in (spec["tf_below"], spec["tf_above"]):
            if t is not None:
                f *= TF[t][1]
        self.leaf_ids = view
        self.shapes = [tuple(spec["shapes"][j]) for j in view]
        self.A = [f * encode(j, spec["shapes"][j]) for j in view]
        self.classes = [spec["classes"][j] for j in view]
        self.ncls = spec["ncls"]
        self.smooth = spec.get("smooth")
        self.soft = bool(self.smooth)
        self.uniform = len(set(self.shapes)) == 1
        self._cache = {}

    def unify(self, p, i):
        """U(x_p): zero-pad / cut at the end of every axis to the shape of sample i"""
        out = np.zeros(self.shapes[i], dtype=np.float64)
        sl = tuple(slice(0, min(a, b)) for a, b in zip(self.shapes[i], self.shapes[p]))
        out[sl] = self.A[p][sl]
        return out

    def cand(self, i):
        if i not in self._cache:
            a = self.A[i].ravel()
            B = np.stack([self.unify(p, i).ravel() for p in range(self.n)])
            D = B - a[None, :]
            dd = (D * D).sum(1)
            tol = RT * (np.abs(a)[None, :] + np.abs(B)) + 1e-6
            self._cache = {i: (a, B, D, dd, tol)}      # one entry: indices are visited one after the other
        return self._cache[i]

    def onehot(self, c):
        """label vector the dataset under the mix wrapper serves for class c (one-hot, or its smoothed version)"""
        return smooth_vec(c, self.ncls, self.smooth)

    def fit_label(self, yv, ci):
        """label-only decoding: [(class q, w)] with yv ~ w*L(ci) + (1-w)*L(q), q a class of the dataset, w in [0,1]"""
        e_i = self.onehot(ci)
        out = []
        for q in sorted(set(self.classes)):
            d = self.onehot(q) - e_i
            dd = float(d @ d)
            t = float((yv - e_i) @ d) / dd if dd > 0 else 0.0
            if -TT <= t <= 1 + TT and np.abs(yv - (e_i + t * d)).max() <= 1e-5:
                out.append((q, 1.0 - t))
        return out


def decode_x(M, i, x):
    """-> (candidates [(p, w, same_content)], candidates that only fit with a weight outside [0,1])"""
    a, B, D, dd, tol = M.cand(i)
    xa = x.detach().to(torch.float64).numpy().ravel() - a
    safe = np.where(dd > 0, dd, 1.0)
    t = np.where(dd > 0, (D @ xa) / safe, 0.0)
    resid = np.abs(xa[None, :] - t[:, None] * D)
    fit = (resid <= tol).all(1)
    inside = (t >= -TT) & (t <= 1 + TT)
    cands = [(int(p), float(1.0 - t[p]), bool(dd[p] == 0)) for p in np.nonzero(fit & inside)[0]]
    outside = [(int(p), float(1.0 - t[p])) for p in np.nonzero(fit & ~inside)[0]]
    return cands, outside


def decode_paste(M, i, x):
    """explanation as an element-wise paste (cutmix): every element is x_i's or U(x_p)'s -> [(p, retained fraction)]"""
    a, B, D, dd, tol = M.cand(i)
    xv = x.detach().to(torch.float64).numpy().ravel()
    out = []
    for p in range(M.n):
        if dd[p] == 0:
            continue
        from_a = np.abs(xv - a) <= tol[p]
        from_b = np.abs(xv - B[p]) <= tol[p]
        if (from_a | from_b).all():
            out.append((p, float(from_a.mean())))
    return out


# ------------------------------------------------------------------------------------------------ building the real stack
def _mix_kwargs(spec):
    kw = {}
    for k in ("mixup_p", "cutmix_p", "mixup_alpha", "cutmix_alpha", "seed"):
        if spec[k] is not None:
            kw[k] = spec[k]
    if spec["unify"] is not None:
        kw["mixup_unify_shapes_mode"] = spec["unify"]
    if spec.get("ctx_prefix") is not None:
        kw["ctx_prefix"] = spec["ctx_prefix"]
    return kw


def _describe(spec):
    if _DESC["spec"] is not spec:          # the reference keeps the spec alive, so identity is reliable
        _DESC["spec"], _DESC["desc"] = spec, _describe_uncached(spec)
    return _DESC["desc"]


_DESC = {"spec": None, "desc": ""}


def _describe_uncached(spec):
    leaf = "leaf" + (f"[{spec['layout']}]" if spec.get("layout") else "") + ("[ctx-coupled]" if spec.get("ctx_coupled") else "") + (f"[soft {spec['smooth']}]" if spec.get("smooth_via") == "leaf" else "")
    inner = f"KDSubset({leaf})" if spec["subset"] is not None else leaf
    if spec.get("smooth_via") == "wrapper":
        inner = f"LabelSmoothing[{spec['smooth']}]({inner})"
    st = "KDMixWrapper(" + ("XT[%s](" % spec["tf_below"] if spec["tf_below"] else "") + inner
    st += (")" if spec["tf_below"] else "") + ", " + ", ".join(f"{k}={v!r}" for k, v in _mix_kwargs(spec).items()) + ")"
    if spec["tf_above"]:
        st = f"XT[{spec['tf_above']}]({st})"
    return st


def _build(run, spec):
    leaf = IdLeaf(spec["shapes"], spec["classes"], spec["ncls"], spec["label_kind"], ctx_coupled=spec.get("ctx_coupled", False),
                  smooth=spec.get("smooth"), layout=spec.get("layout"))

    def make():
        ds = leaf
        if spec["subset"] is not None:
            ds = KDSubset(ds, list(spec["subset"]))
        if spec.get("smooth_via") == "wrapper":
            ds = LabelSmoothingWrapper(ds, smoothing=spec["smooth"])
        if spec["tf_below"] is not None:
            ds = XTransformWrapper(ds, transform=TF[spec["tf_below"]][0])
        ds = KDMixWrapper(ds, **_mix_kwargs(spec))
        if spec["tf_above"] is not None:
            ds = XTransformWrapper(ds, transform=TF[spec["tf_above"]][0])
        return ds
    ok, ds = call_real(run, make, crash_key="ctor-crash", what=f"constructing {_describe(spec)}")
    return (leaf, ds) if ok else (leaf, None)


# ------------------------------------------------------------------------------------------------ judging one result
def _fmt(v, lim=12):
    v = [round(float(z), 6) for z in (v.tolist() if hasattr(v, "tolist") else v)]
    return str(v if len(v) <= lim else v[:lim] + ["…"])


def _label_struct(run, M, y, what):
    if not torch.is_tensor(y) or not y.dtype.is_floating_point:
        run.violation("label:not-a-float-vector", f"{what}: label is {type(y).__name__} {getattr(y, 'dtype', '')}")
        return None
    if tuple(y.shape) != (M.ncls,):
        run.violation("label:wrong-shape", f"{what}: label shape {tuple(y.shape)}, dataset has {M.ncls} classes")
        return None
    yv = y.detach().to(torch.float64).numpy()
    if not np.isfinite(yv).all():
        run.violation("label:not-finite", f"{what}: label {_fmt(yv)}")
        return None
    if (yv < 0).any():
        run.violation("label:negative-entry", f"{what}: label has a negative entry: {_fmt(yv)}")
        return None
    if abs(yv.sum() - 1.0) > TSUM:
        run.violation("label:does-not-sum-to-one", f"{what}: label sums to {yv.sum()!r}: {_fmt(yv)}")
        return None
    if not M.soft and int((yv > 0).sum()) > 2:
        run.violation("label:more-than-two-classes", f"{what}: label has {(yv > 0).sum()} non-zero entries: {_fmt(yv)}")
        return None
    return yv


def _x_struct(run, M, i, x, what):
    if not torch.is_tensor(x) or not x.dtype.is_floating_point:
        run.violation("x:not-a-float-tensor", f"{what}: x is {type(x).__name__} {getattr(x, 'dtype', '')}")
        return False
    if tuple(x.shape) != M.shapes[i]:
        run.violation("x:shape-differs-from-sample-i", f"{what}: x has shape {tuple(x.shape)}, sample {i} has {M.shapes[i]}")
        return False
    if not bool(torch.isfinite(x).all()):
        run.violation("x:not-finite", f"{what}: x contains nan/inf")
        return False
    return True


def judge(run, spec, M, i, x, y, form, allow_paste):
    """x / y may be None (not requested). -> dict describing the decoded draw, or None after reporting a violation"""
    what = f"{_describe(spec)} mode={form!r} [{i}]"
    ci = M.classes[i]
    yv = None
    if y is not None:
        yv = _label_struct(run, M, y, what)
        if yv is None:
            return None
    if x is None:
        # label-only request: own class + at most one class of some sample of the same dataset
        run.count("label_only_results_checked")
        if M.soft:
            fits = M.fit_label(yv, ci)
            if not fits:
                run.violation("label:not-a-mix-of-two-sample-labels", f"{what}: label {_fmt(yv)} is not w*L({ci}) + (1-w)*L(q) for any class q of the dataset "
                                                                      f"(L = label vector served below the mix wrapper, smoothing {M.smooth})")
                return None
            w_own = max(w for _, w in fits)
            return {"unmixed_like": bool(w_own >= 1 - P1_EPS), "own_weight": w_own}
        other = [int(c) for c in np.nonzero(yv > 0)[0] if c != ci]
        if len(other) > 1:
            run.violation("label:own-class-missing", f"{what}: label {_fmt(yv)} has two non-zero classes, none of them the class {ci} of sample {i}")
            return None
        if other and other[0] not in set(M.classes):
            run.violation("label:partner-class-not-in-dataset", f"{what}: label {_fmt(yv)} puts weight on class {other[0]}, which no sample of the mixed dataset has")
            return None
        return {"unmixed_like": bool(yv[ci] >= 1 - P1_EPS), "own_weight": float(yv[ci])}
    if not _x_struct(run, M, i, x, what):
        return None
    cands, outside = decode_x(M, i, x)
    if not cands:
        paste = decode_paste(M, i, x) if allow_paste else []
        if paste:
            if yv is not None and not any(np.abs(yv - (w * M.onehot(ci) + (1 - w) * M.onehot(M.classes[p]))).max() <= TY for p, w in paste):
                run.violation("cutmix:label-weight-differs-from-retained-fraction", f"{what}: pasted result (partner, retained fraction) {paste[:3]} but label {_fmt(yv)}")
                return None
            run.count("paste_results_accepted")
            return {"paste": True, "unmixed_like": False}
        if outside:
            run.violation("x:weight-outside-unit-interval", f"{what}: x = w*x_i + (1-w)*U(x_p) only with (p, w) = {outside[:3]}" + (f"; label {_fmt(yv)}" if yv is not None else ""))
        else:
            key = "x:not-a-convex-combination" if M.uniform else "x:not-a-convex-combination-after-shape-unification"
            run.violation(key, f"{what}: x (first values {_fmt(x.flatten()[:6])}) is neither sample {i} nor w*x_{i} + (1-w)*U(x_p) for any sample p of the dataset "
                               f"(shapes: own {M.shapes[i]}" + (f", label names classes {np.nonzero(yv > 0)[0].tolist()} / samples {[k for k in range(M.n) if yv[M.classes[k]] > 0][:6]} with shapes {[M.shapes[k] for k in range(M.n) if yv[M.classes[k]] > 0][:6]}" if yv is not None else "") + ")")
        return None
    self_like = any(p == i or same for p, _, same in cands)
    # sharpest description of the data draw: a candidate well inside (0,1) if there is one
    best = min(cands, key=lambda c: (c[0] == i, abs(c[1] - 0.5)))
    info = {"p": best[0], "w": best[1], "self_like": self_like,
            # every explanation of the data (the true draw is one of them) keeps less than P1_EPS of the partner
            "unmixed_like": bool(self_like or all(1 - w < P1_EPS for _, w, _ in cands))}
    if M.shapes[best[0]] != M.shapes[i] and not self_like:
        run.count("unified_shape_results_checked")
        d = [a - b for a, b in zip(M.shapes[i], M.shapes[best[0]])]
        run.cover("unify", "pad" if any(z > 0 for z in d) else "-", "cut" if any(z < 0 for z in d) else "-", len(d))
    if yv is None:
        run.count("x_only_results_checked")
        return info
    run.count("joint_results_checked")
    e_i = M.onehot(ci)
    diffs = [float(np.abs(yv - (w * e_i + (1 - w) * M.onehot(M.classes[p]))).max()) for p, w, _ in cands]
    k = int(np.argmin(diffs))
    if diffs[k] <= TY:
        info.update(p=cands[k][0], w=cands[k][1])
        return info
    # classify the disagreement (mechanism keys)
    label_onehot_own = np.abs(yv - e_i).max() <= TY
    cand_classes = {M.classes[p] for p, _, _ in cands}
    other = [int(c) for c in np.nonzero(yv > TY)[0] if c != ci]
    if M.soft:
        other = [q for q, _ in M.fit_label(yv, ci) if q != ci] or [-1]
    dec = f"data decodes to (partner, weight) {[(p, round(w, 5)) for p, w, _ in cands[:4]]} (partner classes {sorted(cand_classes)[:4]}), own class {ci}, label {_fmt(yv)}"
    if M.soft and other == [-1]:
        key = "label:not-a-mix-of-two-sample-labels"
    elif self_like:
        key = "label:mixed-but-data-untouched"
    elif label_onehot_own:
        key = "label:untouched-but-data-mixed"
    elif other and not set(other) <= cand_classes:
        key = "label:partner-differs-from-data"
    else:
        key = "label:weight-differs-from-data"
    run.violation(key, f"{what}: {dec}")
    return None


# ------------------------------------------------------------------------------------------------ case execution
def _split(form, res, return_ctx):
    items = form.split(" ")
    if return_ctx:
        res = res[0]
    if len(items) == 1:
        res = (res,)
    x = res[items.index("x")] if "x" in items else None
    y = res[items.index("class")] if "class" in items else None
    return x, y


def _p_class(p):
    if p is None:
        return "none"
    if p == 0:
        return "0"
    if p == 1:
        return "1"
    return "tiny" if p < 1e-3 else "mid"


def run_case(run, spec):
    if spec["kind"] == "p1_aggregate":
        return _run_p1_aggregate(run, spec)
    if spec["kind"] == "p1small":
        return _run_p1small(run, spec)
    if spec["kind"] == "values":
        return _run_values(run, spec)
    if spec["kind"] == "xproc":
        return _run_xproc(run, spec)
    if spec["kind"] == "history":
        return _run_history(run, spec)
    _run_mix(run, spec)


def _run_mix(run, spec):
    is_p1 = spec["kind"] == "p1"
    M = Model(spec)
    leaf, ds = _build(run, spec)
    if ds is None:
        return
    cutmix = bool(spec["cutmix_p"])
    refusal = "cutmix-not-implemented" if cutmix else None
    seeded = spec["seed"] is not None
    if not seeded:
        # an unseeded wrapper may derive its stream from the global numpy RNG: pin it per case, so a run is reproducible
        np.random.seed(int(core.digest(spec), 16) % (2 ** 32))
    run.cover("config", "subset" if spec["subset"] is not None else "-", spec["tf_below"] or "-", spec["tf_above"] or "-",
              "unif" if M.uniform else "diff", spec["unify"] or "-", _p_class(spec["mixup_p"]), _p_class(spec["cutmix_p"]),
              "seed" if seeded else "noseed", spec["label_kind"])
    run.cover("layout", spec.get("layout") or "contig", len(M.shapes[0]), "prefix" if spec.get("ctx_prefix") else "-")
    run.cover("size", min(M.n, 5), "a<1" if (spec["mixup_alpha"] or 1) < 1 else "a>=1", len(M.shapes[0]))
    wrappers = {}
    sampled = False
    for form in spec["forms"]:
        ok, mw = call_real(run, lambda: ModeWrapper(ds, mode=form, return_ctx=spec["return_ctx"]), crash_key="modewrapper-ctor-crash",
                           what=f"ModeWrapper({_describe(spec)}, mode={form!r})")
        if not ok:
            return
        wrappers[form] = mw
    v0 = len(run.violations) + sum(run.known_hits.values())
    for i_req in spec["indices"]:
        if len(run.violations) + sum(run.known_hits.values()) - v0 >= 3:
            break                                      # enough witnesses from this configuration
        i = i_req % M.n
        per_form = {}
        for form in spec["forms"]:
            mw = wrappers[form]
            n_log = len(leaf.log)
            ok, res = call_real(run, lambda: mw[i_req], refusal_class=refusal, crash_key="getitem-crash",
                                what=f"{_describe(spec)} mode={form!r} [{i_req}]")
            run.count("leaf_loads_observed", len(leaf.log) - n_log)
            if not ok:
                if refusal is not None and core.classify_exception(res)[0] == "guard":
                    if isinstance(res, NotImplementedError):
                        run.count("cutmix_refusals_seen")
                        per_form[form] = "refused"
                    else:
                        run.violation(f"refused-in-domain:{type(res).__name__}", f"{_describe(spec)} mode={form!r} [{i_req}]: refused with {type(res).__name__}: {res}")
                continue
            x, y = _split(form, res, spec["return_ctx"])
            info = judge(run, spec, M, i, x, y, form, allow_paste=cutmix)
            if info is None:
                continue
            per_form[form] = (x, y, info)
            if x is not None and spec.get("layout") not in (None, "contig") and not info["unmixed_like"]:
                run.count("noncontiguous_mixed_results_checked")
            if M.soft and y is not None:
                run.count("soft_label_results_checked")
            if spec.get("ctx_coupled") and y is not None and not info["unmixed_like"]:
                run.count("ctx_coupled_results_checked")
            kind = "joint" if (x is not None and y is not None) else ("x" if x is not None else "class")
            if info.get("paste"):
                outcome = "paste"
            elif info["unmixed_like"]:
                outcome = "untouched-like"
                run.count("untouched_results_seen")
            else:
                outcome = "mixed"
                run.count("mixed_results_seen")
            run.cover("result", kind, outcome, "index" in form, "ctx." in form, spec["return_ctx"])
            if is_p1:
                run.count("p1_draws")
                if info["unmixed_like"]:
                    run.count("p1_unmixed_looking")
                if y is not None:
                    for name, j in (("first", 0), ("last", M.n - 1)):
                        if i != j:
                            run.count(f"p1_census_eligible_{name}")
                            if float(y[M.classes[j]]) > 0:
                                run.count(f"p1_partner_is_{name}")
            elif outcome == "mixed" and kind == "joint" and len(run.samples) < 6 and not sampled and \
                    (M.shapes[info["p"]] != M.shapes[i] or len(run.samples) % 2 == 0):
                sampled = True
                run.sample({"stack": _describe(spec), "mode": form, "index": i_req, "shape_i": M.shapes[i], "decoded_partner": info["p"],
                            "shape_partner": M.shapes[info["p"]], "decoded_weight": round(info["w"], 6),
                            "label_top2": {int(c): round(float(y[c]), 6) for c in torch.topk(y, min(2, y.numel())).indices.tolist()}})
        if seeded and len(per_form) > 1:
            _agree(run, spec, M, i_req, per_form)


def _run_p1small(run, spec):
    """2-/3-sample datasets with mixup_p=1: for a fixed index, SMALL_K seeds; at least one result must be a mix with
    another sample. P(all SMALL_K look un-mixed | correct) <= (1/2 + 2e-3)^64 < 1e-19 (partner = self with probability
    <= 1/n <= 1/2, lambda ~ Beta(alpha>=1) within 1e-3 of 1 with probability < 2e-3)."""
    M = Model(spec)
    form = spec["forms"][0]
    run.cover("small", M.n, form, len(M.shapes[0]))
    for i in spec["indices"]:
        judged = mixed = 0
        for k in range(SMALL_K):
            sk = dict(spec, seed=spec["seed0"] + spec["stride"] * k, kind="mix")
            leaf, ds = _build(run, sk)
            if ds is None:
                return
            ok, mw = call_real(run, lambda: ModeWrapper(ds, mode=form), crash_key="modewrapper-ctor-crash", what=f"ModeWrapper({_describe(sk)}, mode={form!r})")
            if not ok:
                return
            ok, res = call_real(run, lambda: mw[i], crash_key="getitem-crash", what=f"{_describe(sk)} mode={form!r} [{i}]")
            if not ok:
                return
            x, y = _split(form, res, False)
            info = judge(run, sk, M, i, x, y, form, allow_paste=False)
            if info is None:
                return
            judged += 1
            mixed += 0 if info["unmixed_like"] else 1
        run.count("small_dataset_indices_checked")
        run.count("small_dataset_draws", judged)
        if mixed == 0:
            run.violation("p1:sample-never-mixed-with-another-sample",
                          f"{_describe(dict(spec, seed='seed0+stride*k'))} mode={form!r}: index {i} of a {M.n}-sample dataset looks un-mixed for all {SMALL_K} seeds "
                          f"{spec['seed0']}+{spec['stride']}*k (P < 1e-19 if the partner can be another sample)")
        else:
            run.cover("small-mixed-fraction", M.n, min(9, 10 * mixed // SMALL_K))


# ------------------------------------------------------------------------------------------------ value classes
class ValueLeaf(KDDataset):
    """samples given as float64 arrays, served in `dtype` and in the requested memory layout; class = sample id"""

    def __init__(self, arrays, dtype, layout):
        super().__init__()
        self.t = [torch.tensor(a, dtype=torch.float64).to(dtype) for a in arrays]
        self.layout = layout

    def getitem_x(self, idx, ctx=None):
        idx = int(idx)
        return lay_out(self.t[idx], layout_of({"layout": self.layout}, idx))

    def getitem_class(self, idx, ctx=None):
        return int(idx)

    def getshape_class(self):
        return (len(self.t),)

    def __len__(self):
        return len(self.t)


class _LabelDims:
    soft = False

    def __init__(self, n):
        self.ncls = n


def _value_arrays(spec):
    rs = np.random.default_rng(spec["data_seed"])
    shape, n = tuple(spec["shape"]), spec["n"]
    if spec["vkind"] == "inf":
        mask = rs.random(shape) < 0.35
        mask.flat[0], mask.flat[-1] = True, False
        sign = np.full(shape, float(spec["inf_sign"])) if spec["inf_sign"] else rs.choice([-1.0, 1.0], size=shape)
        out = []
        for _ in range(n):
            a = rs.uniform(-100, 100, size=shape).astype(np.float32).astype(np.float64)
            a[mask] = sign[mask] * np.inf
            out.append(a)
        return out
    fmax = float(torch.finfo(getattr(torch, spec["dtype"])).max)
    sgn = rs.choice([-1.0, 1.0], size=shape)
    return [sgn * rs.uniform(0.62, 0.92, size=shape) * fmax, -sgn * rs.uniform(0.62, 0.92, size=shape) * fmax]


def _run_values(run, spec):
    """the reference uses the partner and the two weights the returned label names: x = y_i*x_i + y_p*x_p; equal
    infinities stay that infinity, finite inputs give a finite result (tolerance 8 eps of the sample dtype)"""
    dtype = getattr(torch, spec["dtype"])
    leaf = ValueLeaf(_value_arrays(spec), dtype, spec.get("layout"))
    X = [t.to(torch.float64).numpy() for t in leaf.t]            # the values really served (after the cast to dtype)
    n = len(X)
    eps = max(float(torch.finfo(dtype).eps), 1.2e-7)              # the weight itself is a float32
    dims = _LabelDims(n)
    run.cover("values", spec["vkind"], spec["dtype"], spec.get("layout") or "contig", len(spec["shape"]), _p_class(spec["mixup_p"]))
    for seed in spec["seeds"]:
        kw = dict(mixup_p=spec["mixup_p"], mixup_alpha=spec["mixup_alpha"], seed=seed)
        if spec["unify"] is not None:
            kw["mixup_unify_shapes_mode"] = spec["unify"]
        desc = f"KDMixWrapper(value-leaf[{spec['vkind']}, {spec['dtype']}, {spec.get('layout') or 'contig'}, {n}x{tuple(spec['shape'])}], " + \
               ", ".join(f"{k}={v!r}" for k, v in kw.items()) + ")"

        def make():
            ds = KDMixWrapper(leaf, **kw)
            return XTransformWrapper(ds, transform=TF["id"][0]) if spec["tf_above"] else ds
        ok, ds = call_real(run, make, crash_key="ctor-crash", what=f"constructing {desc}")
        if not ok:
            return
        for i in range(n):
            ref = None
            for form in ("x class", "class x", "x"):
                ok, mw = call_real(run, lambda: ModeWrapper(ds, mode=form), crash_key="modewrapper-ctor-crash", what=f"ModeWrapper({desc}, {form!r})")
                if not ok:
                    return
                what = f"{desc} mode={form!r} [{i}]"
                ok, res = call_real(run, lambda: mw[i], crash_key="getitem-crash", what=what)
                if not ok:
                    return
                x, y = _split(form, res, False)
                if not torch.is_tensor(x) or not x.dtype.is_floating_point or tuple(x.shape) != tuple(spec["shape"]):
                    run.violation("x:shape-differs-from-sample-i", f"{what}: x is {type(x).__name__} {getattr(x, 'dtype', '')} {tuple(getattr(x, 'shape', ()))}")
                    return
                xv = x.detach().to(torch.float64).numpy()
                if y is None:
                    # same seed: the data-only request describes the draw of the joint request
                    if ref is not None:
                        run.count("value_form_agreement_checked")
                        if not np.array_equal(np.isnan(xv), np.isnan(ref)) or not np.allclose(xv, ref, rtol=8 * eps, atol=0, equal_nan=True):
                            run.violation("forms:x-differs-between-request-forms", f"{what}: x differs from the x of the joint request with the same seed")
                            return
                    continue
                yv = _label_struct(run, dims, y, what)
                if yv is None:
                    return
                others = [int(c) for c in np.nonzero(yv > 0)[0] if c != i]
                p = others[0] if others else i
                wi, wp = (float(yv[i]), float(yv[p])) if p != i else (1.0, 0.0)
                a, b = X[i], X[p]
                both_inf = np.isinf(a) & (a == b)
                with np.errstate(invalid="ignore", over="ignore"):
                    exp = np.where(both_inf, a, wi * np.where(both_inf, 0.0, a) + wp * np.where(both_inf, 0.0, b))
                    tol = 8 * eps * (np.abs(wi * np.where(both_inf, 0.0, a)) + np.abs(wp * np.where(both_inf, 0.0, b))) + 1e-30
                run.count("value_class_results_checked")
                if p != i:
                    run.count(f"value_{spec['vkind']}_mixed_results_checked")
                if both_inf.any() and not np.array_equal(xv[both_inf], a[both_inf]):
                    run.violation("x:equal-infinities-not-preserved",
                                  f"{what}: samples {i} and {p} both hold {_fmt(a[both_inf][:4])} at the same positions, the result holds {[repr(float(z)) for z in xv[both_inf][:4]]} "
                                  f"(label weights {wi:.5f}/{wp:.5f})")
                    return
                fin = ~both_inf
                if not np.isfinite(xv[fin]).all():
                    k = int(np.nonzero(~np.isfinite(xv[fin]))[0][0])
                    run.violation("x:finite-convex-combination-not-finite",
                                  f"{what}: {spec['dtype']} result is {float(xv[fin][k])!r} where x_i={float(a[fin][k])!r}, x_p={float(b[fin][k])!r} and the label weights are "
                                  f"{wi:.5f}/{wp:.5f} (combination {float(exp[fin][k])!r}, dtype max {float(torch.finfo(dtype).max)!r})")
                    return
                if (np.abs(xv[fin] - exp[fin]) > tol[fin]).any():
                    k = int(np.argmax(np.abs(xv[fin] - exp[fin]) - tol[fin]))
                    run.violation("x:not-the-convex-combination-the-label-names",
                                  f"{what}: label names partner {p} with weights {wi:.6f}/{wp:.6f}; x={float(xv[fin][k])!r} but w*x_i+(1-w)*x_p={float(exp[fin][k])!r} "
                                  f"(x_i={float(a[fin][k])!r}, x_p={float(b[fin][k])!r})")
                    return
                ref = xv


# ------------------------------------------------------------------------------------------------ cross-interpreter clause
_ASYNC = False
_pending = []
XPROC_TIMEOUT_S = 600     # generous; expiry is recorded as "not compared" (inconclusive material), never as a violation
XPROC_MARK = "KDV11RESULT "


def xproc_table(cfg):
    """{form: [per index: {"x": [...], "y": [...]} | {"refused": type} ]} of one seeded configuration - plain, no monitors;
    this is what the child interpreter runs (and the checking interpreter, for comparison)"""
    return table_of(plain_stack(cfg)[0], cfg)


def plain_stack(cfg):
    """-> (top of the stack, the KDMixWrapper inside it)"""
    leaf = IdLeaf(cfg["shapes"], cfg["classes"], cfg["ncls"], cfg["label_kind"], smooth=cfg.get("smooth"), layout=cfg.get("layout"))
    ds = leaf
    if cfg["subset"] is not None:
        ds = KDSubset(ds, list(cfg["subset"]))
    if cfg.get("smooth_via") == "wrapper":
        ds = LabelSmoothingWrapper(ds, smoothing=cfg["smooth"])
    if cfg["tf_below"] is not None:
        ds = XTransformWrapper(ds, transform=TF[cfg["tf_below"]][0])
    mix = ds = KDMixWrapper(ds, **_mix_kwargs(cfg))
    if cfg["tf_above"] is not None:
        ds = XTransformWrapper(ds, transform=TF[cfg["tf_above"]][0])
    return ds, mix


def table_of(ds, cfg):
    out = {}
    for form in cfg["forms"]:
        mw = ModeWrapper(ds, mode=form)
        rows = []
        for i in cfg["indices"]:
            x, y = _split(form, mw[i], False)
            rows.append({"x": None if x is None else x.detach().to(torch.float64).flatten().tolist(),
                         "y": None if y is None else y.detach().to(torch.float64).flatten().tolist()})
        out[form] = rows
    return out


def _tables_differ(cfg, a, b):
    for form, rows in a.items():
        for i, ra, rb in zip(cfg["indices"], rows, b[form]):
            if not (_close(ra["x"], rb["x"]) and _close(ra["y"], rb["y"])):
                return form, i, ra, rb
    return None


def _run_history(run, spec):
    """instance histories of a seeded wrapper: (a) built with another seed / unseeded, then the public `seed` attribute is assigned;
    (b) worker_init_fn(rank=k) was called. Either way every request form must return, for every index, what a twin built directly
    with that seed returns (the same partner, weight and label)."""
    cfg = spec["config"]
    desc = _describe(cfg)
    ok, ref = call_real(run, lambda: xproc_table(cfg), crash_key="getitem-crash", what=f"{desc}: twin built directly with seed {cfg['seed']}")
    if not ok:
        return
    n_cmp = sum(len(v) for v in ref.values())

    def subject(kind, prepare, what):
        def go():
            ds, mix = plain_stack(dict(cfg, seed=spec["first_seed"]) if kind == "assign" else cfg)
            prepare(ds, mix)
            return table_of(ds, cfg)
        ok, tab = call_real(run, go, crash_key="history-crash", what=f"{desc}: {what}")
        if not ok:
            return
        run.count("reconfigured_seed_results_compared" if kind == "assign" else "worker_hook_results_compared", n_cmp)
        bad = _tables_differ(cfg, ref, tab)
        if bad is not None:
            form, i, ra, rb = bad
            key = "history:assigned-seed-not-honoured" if kind == "assign" else "history:worker-hook-changes-seeded-draw"
            run.violation(key, f"{desc} mode={form!r} [{i}]: {what}; result differs from a wrapper built directly with seed {cfg['seed']}: "
                               f"label {_fmt(rb['y'] or [])} vs {_fmt(ra['y'] or [])}, x[:4] {_fmt((rb['x'] or [])[:4])} vs {_fmt((ra['x'] or [])[:4])}")

    run.cover("history", "assign", "from-unseeded" if spec["first_seed"] is None else "from-seed")
    subject("assign", lambda ds, mix: setattr(mix, "seed", cfg["seed"]),
            f"built with seed={spec['first_seed']!r}, then wrapper.seed = {cfg['seed']} was assigned")
    for k in spec["ranks"]:
        run.cover("history", "hook", k)
        subject("hook", lambda ds, mix, k=k: ds.worker_init_fn(k), f"worker_init_fn(rank={k}) was called on the stack")
    if spec["ranks"]:
        ks = spec["ranks"]

        def both(ds, mix):
            ModeWrapper(ds, mode="x class").worker_init_fn(ks[-1])      # the way a DataLoader worker reaches the stack
            mix.seed = cfg["seed"]
        subject("hook", both, f"ModeWrapper(...).worker_init_fn(rank={ks[-1]}) was called, then wrapper.seed = {cfg['seed']} re-assigned")


def _gen_history(rng):
    c = _gen_xproc(rng, 0)["configs"][rng.randrange(4)]
    first = rng.choice([None, None, c["seed"] + 1 + rng.randrange(50), rng.randrange(10 ** 6)])
    return {"kind": "history", "config": c, "first_seed": first, "ranks": [0, 1, 3]}


def _xproc_fail(run, msg):
    run.count("cross_interpreter_child_failed")
    run.notes.setdefault("cross_interpreter_failures", [])
    if len(run.notes["cross_interpreter_failures"]) < 5:
        run.notes["cross_interpreter_failures"].append(msg[:600])


def _run_xproc(run, spec):
    mine = []
    for cfg in spec["configs"]:
        try:
            mine.append(xproc_table(cfg))
        except Exception:
            mine.append(None)          # judged by the ordinary cases under its own key; nothing to compare here
    env = dict(os.environ, PYTHONHASHSEED=str(spec["hashseed"]), OMP_NUM_THREADS="1", MKL_NUM_THREADS="1", PYTHONDONTWRITEBYTECODE="1",
               PYTHONPATH=os.pathsep.join([str(core.REPO), str(core.VERIF)]))
    try:
        p = subprocess.Popen([sys.executable, "-m", "kdv.h11_child"], cwd=str(core.VERIF), env=env, stdin=subprocess.PIPE,
                             stdout=subprocess.PIPE, stderr=subprocess.STDOUT, text=True)
        p.stdin.write(json.dumps({"configs": spec["configs"]}))
        p.stdin.close()
        p.stdin = None
    except Exception as e:
        _xproc_fail(run, f"could not start the child interpreter: {e!r}")
        return
    run.cover("xproc", "hashseed", min(spec["hashseed"], 3))
    if _ASYNC:
        _pending.append((spec, p, mine))
    else:
        _collect_xproc(run, spec, p, mine)


def _close(a, b):
    if (a is None) != (b is None):
        return False
    if a is None:
        return True
    return len(a) == len(b) and all(abs(u - v) <= 1e-6 * (abs(u) + abs(v)) + 1e-9 for u, v in zip(a, b))


def _collect_xproc(run, spec, p, mine):
    try:
        out, _ = p.communicate(timeout=XPROC_TIMEOUT_S)
    except subprocess.TimeoutExpired:
        p.kill()
        p.communicate()
        _xproc_fail(run, f"child interpreter (PYTHONHASHSEED={spec['hashseed']}) hit the {XPROC_TIMEOUT_S}s watchdog")
        return
    line = next((l for l in reversed(out.splitlines()) if l.startswith(XPROC_MARK)), None)
    if p.returncode != 0 or line is None:
        _xproc_fail(run, f"child interpreter (PYTHONHASHSEED={spec['hashseed']}) rc={p.returncode}: {out[-400:]}")
        return
    res = json.loads(line[len(XPROC_MARK):])
    if "fatal" in res or len(res.get("results", [])) != len(spec["configs"]):
        _xproc_fail(run, f"child interpreter: {res.get('fatal', 'incomplete result')}")
        return
    run.count("child_interpreters")
    for cfg, a, b in zip(spec["configs"], mine, res["results"]):
        if a is None:
            continue
        one = {"kind": "xproc", "hashseed": spec["hashseed"], "configs": [cfg]}          # minimal replayable witness
        if "error" in b:
            # a child that cannot compute what this interpreter computes is "not compared", not a verdict
            _xproc_fail(run, f"{_describe(cfg)}: fresh interpreter raised {b['error']}")
            continue
        t = b["table"]
        bad = None
        for form, rows in a.items():
            for i, ra, rb in zip(cfg["indices"], rows, t.get(form, [])):
                run.count("cross_interpreter_results_compared")
                if bad is None and not (_close(ra["x"], rb["x"]) and _close(ra["y"], rb["y"])):
                    bad = (form, i, ra, rb)
        if bad is not None:
            form, i, ra, rb = bad
            run.violation("xproc:seeded-draw-differs-between-interpreters",
                          f"{_describe(cfg)} mode={form!r} [{i}]: this interpreter (PYTHONHASHSEED={os.environ.get('PYTHONHASHSEED')}) and a fresh interpreter with "
                          f"PYTHONHASHSEED={spec['hashseed']} return different results for the same seed: label {_fmt(ra['y'] or [])} vs {_fmt(rb['y'] or [])}, "
                          f"x[:4] {_fmt((ra['x'] or [])[:4])} vs {_fmt((rb['x'] or [])[:4])}", one)


def finalize(run):
    while _pending:
        spec, p, mine = _pending.pop(0)
        _collect_xproc(run, spec, p, mine)


def _agree(run, spec, M, i_req, per_form):
    """with a seed every request form describes the same draw for index i"""
    what = f"{_describe(spec)} [{i_req}]"
    refused = [f for f, v in per_form.items() if v == "refused"]
    returned = {f: v for f, v in per_form.items() if v != "refused"}
    run.count("seeded_form_agreement_checked")
    if refused and returned:
        run.violation("forms:refusal-differs-between-request-forms", f"{what}: refused for modes {refused} but returned for {sorted(returned)}")
        return
    ref_x = ref_y = None
    for f, (x, y, info) in returned.items():
        if x is not None:
            if ref_x is None:
                ref_x = (f, x)
            else:
                a, b = ref_x[1].to(torch.float64), x.to(torch.float64)
                if a.shape != b.shape or bool(((a - b).abs() > RT * (a.abs() + b.abs()) + 1e-6).any()):
                    run.violation("forms:x-differs-between-request-forms",
                                  f"{what}: x of mode {ref_x[0]!r} and of mode {f!r} differ (max abs diff {float((a - b).abs().max()) if a.shape == b.shape else 'shape'}); "
                                  f"decoded draws {returned[ref_x[0]][2]} vs {info}")
                    return
        if y is not None:
            if ref_y is None:
                ref_y = (f, y)
            else:
                a, b = ref_y[1].to(torch.float64), y.to(torch.float64)
                if a.shape != b.shape or bool(((a - b).abs() > 1e-6).any()):
                    run.violation("forms:label-differs-between-request-forms",
                                  f"{what}: label of mode {ref_y[0]!r} {_fmt(ref_y[1])} and of mode {f!r} {_fmt(y)} differ")
                    return
    # an x-only and a label-only request must also fit together (same partner / weight)
    if ref_x is not None and ref_y is not None:
        i = i_req % M.n
        cands, _ = decode_x(M, i, ref_x[1])
        yv = ref_y[1].detach().to(torch.float64).numpy()
        e_i = M.onehot(M.classes[i])
        if cands and not any(np.abs(yv - (w * e_i + (1 - w) * M.onehot(M.classes[p]))).max() <= TY for p, w, _ in cands):
            run.violation("forms:label-of-one-form-does-not-match-data-of-another",
                          f"{what}: x of mode {ref_x[0]!r} decodes to {[(p, round(w, 5)) for p, w, _ in cands[:4]]} but label of mode {ref_y[0]!r} is {_fmt(yv)}")


# ------------------------------------------------------------------------------------------------ p = 1 clause
def binom_tail(n, q, k):
    """P(Bin(n, q) >= k), exact binomial terms summed in log space"""
    if k <= 0:
        return 1.0
    if k > n:
        return 0.0
    lq, l1q = math.log(q), math.log1p(-q)
    total = 0.0
    for j in range(k, n + 1):
        lt = math.lgamma(n + 1) - math.lgamma(j + 1) - math.lgamma(n - j + 1) + j * lq + (n - j) * l1q
        term = math.exp(lt)
        total += term
        if j > n * q and term < total * 1e-18:
            break
    return total


def p1_threshold(n, q=P1_Q0, alarm=P1_ALARM):
    """smallest k with 1.01 * P(Bin(n, q) >= k) < alarm"""
    lo, hi = int(n * q), n + 1
    while lo < hi:
        mid = (lo + hi) // 2
        if 1.01 * binom_tail(n, q, mid) < alarm:
            hi = mid
        else:
            lo = mid + 1
    return lo


def _decide_p1(run, spec_for_replay):
    n, u = run.counters.get("p1_draws", 0), run.counters.get("p1_unmixed_looking", 0)
    if n < P1_MIN_DRAWS:
        return False
    thr = p1_threshold(n)
    run.notes["p1_clause"] = {"draws": n, "unmixed_looking": u, "expected_if_partner_uniform": round(n / 64, 1),
                              "violation_threshold": thr, "null_probability_bound": P1_Q0, "false_alarm_bound": P1_ALARM,
                              "tail_at_threshold": binom_tail(n, P1_Q0, thr)}
    for name in ("first", "last"):
        elig, hits = run.counters.get(f"p1_census_eligible_{name}", 0), run.counters.get(f"p1_partner_is_{name}", 0)
        run.notes["p1_clause"][f"partner_is_{name}_sample"] = [hits, elig]
        if elig >= P1_CENSUS_MIN and hits == 0:
            run.violation(f"p1:{name}-sample-never-drawn-as-partner",
                          f"mixup_p=1 on 64 samples: in {elig} mixed results of other indices the {name} sample (index {0 if name == 'first' else 63}) never "
                          f"occurs as partner; if every sample can be the partner (probability >= 1/64 each) this has probability (63/64)^{elig} < 3e-14",
                          spec_for_replay)
    if u >= thr:
        run.violation("p1:unmixed-samples-exceed-binomial-bound",
                      f"mixup_p=1 on 64 distinct classes: {u} of {n} (seed, index) draws look un-mixed; even if every self-partner draw (1/64) "
                      f"counts, P(>= {thr}) < {P1_ALARM} (null bound {P1_Q0:.5f} per draw)", spec_for_replay)
    return True


def finalize_merged(run):
    plan = sorted(run.notes.get("p1_plan", []))
    spec = {"kind": "p1_aggregate", "verif_seed": run.seed, "plan": plan}
    if not _decide_p1(run, spec) and not run.violations:
        raise core.Inconclusive(f"p=1 clause undecided: only {run.counters.get('p1_draws', 0)} of the {P1_MIN_DRAWS} draws required for the bound were judged")


def _run_p1_aggregate(run, spec):
    """replay of the statistical clause: re-run every p=1 case of the original run and apply the same bound"""
    run.counters["p1_draws"] = 0
    run.counters["p1_unmixed_looking"] = 0
    for sh, cnt in spec["plan"]:
        for s in p1_specs(spec["verif_seed"], sh, cnt):
            _run_mix(run, s)
    _decide_p1(run, spec)
