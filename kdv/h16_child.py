"""C16 cross-interpreter clause, child side: rebuild a batch of label-wrapper stacks in a fresh interpreter (own
PYTHONHASHSEED, own process-global RNG states) and print per layer the per-sample labels / encodings, the bulk labels and
the announced class count as one JSON line.

usage: python -m kdv.h16_child < {"specs": [case spec, ...]}     (started by kdv.c16; not a check of its own)
"""
from __future__ import annotations

import json
import os
import sys

MARK = "KDV16RESULT "


def main():
    os.environ.setdefault("OMP_NUM_THREADS", "1")
    sys.dont_write_bytecode = True
    import warnings
    warnings.filterwarnings("ignore")
    from kdv import core
    if str(core.REPO) != "/repo":
        sys.path.insert(0, str(core.REPO))
    import torch
    torch.set_num_threads(1)
    import kappadata
    from pathlib import Path
    kd = str(Path(kappadata.__file__).resolve())
    if not kd.startswith(str(core.REPO.resolve())):
        print(MARK + json.dumps({"fatal": f"kappadata imported from {kd}, expected under {core.REPO}"}))
        return 0
    from kdv import c16
    req = json.loads(sys.stdin.read())
    out = []
    for spec in req["specs"]:
        try:
            out.append({"layers": c16.plain_labels(spec)})
        except BaseException as e:  # incl. the check's own unwinding exception: this spec is 'not compared'
            out.append({"error": f"{type(e).__name__}: {e}"[:300]})
    print(MARK + json.dumps({"hashseed": os.environ.get("PYTHONHASHSEED"), "results": out}))
    return 0


if __name__ == "__main__":
    sys.exit(main())
