"""C09 — every dataloader worker gets its own reproducible augmentation stream.

(a) simulated workers (DESIGN §2/C09).  A stack is built once under a global seed ("parent"); the generator census (a
    bounded walk of the object graph, no attribute names) records every np.random.Generator reachable from it with its state.
    Per worker: deepcopy(stack, collate_fn); the three process-global RNGs are seeded the way torch's worker loop does from
    (base_seed, worker_id); torch's WorkerInfo is published; stack.worker_init_fn(rank) runs; census; K samples are drawn
    through the stack and collated with the root's registered collators; census again.
      live generator      its state changed while the K samples / the batch were produced (its stream is observable)
      stale-generator     a live generator whose post-hook state equals the parent's pre-fork state at the same place
                          (or whose next 64 raw outputs overlap the parent's): it was not overwritten
      seed-independent    differently seeded workers hold equal states at a live place
      overlapping-streams next 64 raw outputs of live generators of differently seeded workers share a value (any two places)
      not-reproducible    two workers with the same (base_seed, rank): states at *all* places, samples, collated batches equal
    State coincidences are re-observed with two other base seeds before they are reported (a 31-bit seed collision does not
    recur; a mechanism does).
(b) real DataLoader(num_workers 1..4, fork) over stacks whose transforms are the real containers around harness probes (a
    KDStochasticTransform / collator whose only effect is to publish one raw draw, tagged with get_worker_info().id/.seed):
    draws of different workers are disjoint, no draw belongs to a generator of the parent, a second pass under the same
    torch.manual_seed repeats batches and draws bit-identically, a pass under another seed shares no draw.
"""
from __future__ import annotations

import copy
import os
import random as pyrandom

import numpy as np
import torch

from . import core
from . import h07_recipes as H
from . import h09_gen as G
from . import h09_stacks as S
from .harness import StepBudget, call_real, canon_value, codes_of

LEVEL = "exploration"
RULE = ("(a) random dataset stacks: a harness root (tensor / PIL / (image, mask) inputs, optional registered collators: harness draw "
        "collators, KDMixCollator) below 1..4 layers of XTransformWrapper / KDMultiViewWrapper (all config forms) / SemsegTransformWrapper / "
        "KDMixWrapper / common wrappers (BYOL, ImagenetMinaug x2, MUGS) / KDSubset / ShuffleWrapper / RepeatWrapper / plain KDWrapper, all "
        "without seed, optionally joined by KDConcatDataset, below ModeWrapper (several modes, return_ctx) or InterleavedSampler's concat "
        "dataset; the parts of a concat / interleaved stack are separate datasets or different wrapper stacks over ONE shared root / shared "
        "lower layers (shared part first or last); registered collators are plain KDSingleCollators or ONE composite (KDComposeCollator over them / "
        "KDSingleCollatorWrapper) used directly as collate function; in a third of the cases the hook has already been run once by hand in "
        "the parent process before the workers are created; in half of the cases 1 or 3 samples are fetched in the parent before the workers "
        "are created; concat members carry stochastic collators on their roots (collate function built from root.collators); a fraction of "
        "the stacks is handed to the workers without ModeWrapper on top (harness adapter serving getitem_x, stack.worker_init_fn); multi-view config lists mix KDTransform views, identity views and plain-callable views "
        "(function / callable object) in every order (plain first / middle / last); transforms are random well-typed compositions (kdv/h07_recipes.py) to depth 3 of compose / bare list / random-apply / "
        "patchwise / scheduled over every stochastic recipe; x W in {1,2,3,4} workers of one base seed + one worker of another base seed "
        "(same rank; the two base seeds are random 40/62-bit numbers or boundary pairs: s vs s + 2^32, congruent modulo 2^32 / 2^31 / 2^16, "
        "differing in the high 32 bits only) + one duplicate worker, K in 3..6 samples. (b) probe stacks of the same shapes on a real forked DataLoader "
        "(W 1..4, batch 1..3, two torch seeds, InterleavedSampler.get_data_loader included). distinct by full spec; trivial = no live generator")
ASSUMPTIONS = [
    "simulated workers reproduce torch's worker loop through torch.utils.data._utils.worker (WorkerInfo, _generate_state): "
    "random.seed / torch.manual_seed(base_seed + rank), np.random.seed(_generate_state(base_seed, rank)); 'worker seed' = (base_seed, rank)",
    "a generator is judged only if it is live (drew while the worker produced its K samples / batch): idle generators have no observable stream",
    "the generator census locates generators by walking instance dictionaries / lists / tuples / dicts of objects whose classes live in "
    "kappadata or the harness; a generator hidden elsewhere (closure, C extension) is not seen by (a) but its draws are by (b)",
    "stream overlap is decided on the next 64 raw 64-bit outputs after the hook (false-alarm bound per run < 1e-9: <= 2e6 value pairs "
    "per worker pair x 2^-64); an overlap starting later is not observable",
    "state coincidences are reported only if they recur at the same place under two further, different base seeds "
    "(get_rng_from_global draws a 31-bit seed: a chance collision, 2^-31 per comparison, recurs with probability 2^-62)",
    "wrappers are constructed without a seed (with a seed C08 applies)",
    "KDScheduledTransform needs batch_size / updates from the hook: stacks holding one call worker_init_fn(rank, batch_size=, updates=) "
    "(functools.partial for the real loader); schedules are reached through compose members only - the hook of the repository does not "
    "initialise a schedule nested below random-apply / patchwise / another schedule (own assertion at call time; strength scheduling is C15)",
    "leaves below a schedule accept scale_strength (recipes flagged strength_ok)",
    "multi-view wrappers are not placed directly on an XTransformWrapper (own assertion: deterministic transform below); stacks containing "
    "a fused wrapper (KDMixWrapper, SemsegTransformWrapper) end in a wrapper type implementing the requested items (ModeWrapper's assertion)",
    "SemsegTransformWrapper members: the five semseg classes it dispatches on, or size-preserving image transforms; KDSemsegRandomResize "
    "is not fed with strips thinner than 4 pixels or more elongated than 4:1 (it computes an output size of 0: geometry, C14)",
    "KDConcatDataset reports no collators (its own property): concat stacks are run without collate function",
    "the real loader uses the fork start method and one pass; InterleavedSampler.get_data_loader passes no keyword arguments to the hook, "
    "so interleaved probe stacks hold no schedule",
    "cross-interpreter clause: the streams of the first few stacks with registered collators are recomputed in one child interpreter "
    "(python -m kdv.h09_child) started with another PYTHONHASHSEED; a child that crashes / times out means 'not compared' "
    "(monitor xproc_stacks_compared = 0 -> INCONCLUSIVE), never a violation",
    "a seeded sibling wrapper (built from the same config list as an unseeded one) is only a disturbance: its own draws are a function of "
    "the index (C08) and are exempt from the worker clauses; deep copies are promised for KDMultiViewWrapper config lists only "
    "(XTransformWrapper keeps the transform instance it is given, so sharing an instance between wrappers is not driven)",
    "outputs of differently seeded workers are not compared (deterministic layers legitimately agree); only streams are",
]
MONITORS = ["sim_workers_observed", "live_generators_judged", "state_pairs_compared", "raw_sets_compared", "same_seed_pairs_compared",
            "samples_drawn", "collated_batches", "loader_runs", "loader_draws_observed", "loader_worker_pairs_compared",
            "loader_repeats_compared", "mv_plain_view_before_kd_view", "concat_parts_sharing_a_dataset",
            "interleaved_parts_sharing_a_dataset", "single_worker_sim_cases", "single_worker_loader_cases",
            "hook_already_run_in_parent_sim_cases", "hook_already_run_in_parent_loader_cases",
            "composite_collator_registered_sim_cases", "composite_collator_registered_loader_cases",
            "samples_fetched_in_parent_sim_cases", "samples_fetched_in_parent_loader_cases", "samples_fetched_in_parent_mix_wrapper_cases",
            "no_mode_wrapper_sim_cases", "no_mode_wrapper_loader_cases", "no_mode_wrapper_with_collators_cases",
            "concat_member_root_collators_sim_cases", "concat_member_root_collators_loader_cases",
            "seeded_and_unseeded_wrapper_from_one_config_list_cases", "loader_seeded_sibling_draws",
            "compose_edited_after_construction_sim_cases", "compose_edited_after_construction_loader_cases",
            "xproc_stacks_compared", "boundary_base_seed_pair_sim_cases", "congruent_base_seed_loader_cases"]

STEP_LIMIT = 3_000_000
WITNESSES_PER_KEY = 4


# ------------------------------------------------------------------------------------------------ generation
def gen_cases(run):
    rng = run.rng
    n_sim = run.n(100, 16 * 500)
    n_loader = run.n(16, 16 * 60)
    part = os.environ.get("KDV_C09_PART")       # development aid: run only one half of the check
    if part == "loader":
        for _ in range(n_loader):
            yield _loader_case(rng, made_loader)
        return
    if part == "sim":
        n_loader = 0
    every = max(1, n_sim // max(1, n_loader))
    made_loader = 0
    for i in range(n_sim):
        want = {3: "mix", 13: "bare", 23: "concat_collators", 8: "edit", 18: "edit"}.get(i % 30)     # every family in every run
        top = G.gen_sim_stack(rng, want)
        W = rng.choice([1, 1, 2, 3, 4])     # a single worker is re-created per epoch with a new seed as well
        b1, b2, pair_class = _base_seed_pair(rng, i)
        yield {"kind": "sim", "top": top, "build_seed": rng.randrange(2 ** 31), "W": W, "base": [b1, b2], "base_pair": pair_class,
               "alt_rank": rng.randrange(W), "dup_rank": rng.randrange(W), "K": rng.choice([3, 4, 4, 6]), "B": rng.choice([1, 2, 3]),
               "idx_seed": rng.randrange(10 ** 6), "parent_hook": rng.randrange(W) if rng.random() < 0.35 else None,
               "parent_samples": rng.choice([1, 3]) if want == "mix" else rng.choice([None, None, 1, 3])}
        if i % every == every // 2 and made_loader < n_loader:
            made_loader += 1
            yield _loader_case(rng, made_loader)
    while made_loader < n_loader:
        made_loader += 1
        yield _loader_case(rng, made_loader)


# torch.manual_seed(a) / torch.manual_seed(b) make the DataLoader draw base seeds that are congruent modulo 2**32 (found by search;
# the first pair gives 7286304267170608698 / 2526331350342825530); the further pairs serve the re-observation of a coincidence
CONGRUENT_TORCH_SEEDS = [(51199, 55302), (35138, 69010), (74438, 112707)]


def _base_seed_pair(rng, i):
    """two different base seeds for 'different worker seeds -> disjoint streams', biased to the boundary: congruent modulo 2**32 /
    2**31 / 2**16, differing only in the high 32 bits, s vs s + 2**32 (torch base seeds are 63-bit numbers; the worker seed is
    base + rank, so the same-rank workers of the two bases inherit the relation)"""
    b1 = rng.randrange(2 ** 62) if i % 2 else rng.randrange(2 ** 40)
    cls = ["random", "plus-2^32", "mod-2^32", "high-bits-only", "mod-2^31", "mod-2^16", "random", "mod-2^32"][i % 8]
    if cls == "random":
        b2 = b1 + 1000 + rng.randrange(2 ** 40)
    elif cls == "plus-2^32":
        b2 = b1 + 2 ** 32
    elif cls == "mod-2^32":
        b2 = b1 + 2 ** 32 * rng.randrange(1, 2 ** 29)
    elif cls == "high-bits-only":
        b2 = (b1 % 2 ** 32) + 2 ** 32 * rng.randrange(1, 2 ** 30)
        if b2 == b1:
            b2 += 2 ** 32
    elif cls == "mod-2^31":
        b2 = b1 + 2 ** 31 * (2 * rng.randrange(2 ** 20) + 1)
    else:
        b2 = b1 + 2 ** 16 * (2 * rng.randrange(2 ** 30) + 1)
    return b1, b2, cls


def _loader_case(rng, k=0):
    s1 = rng.randrange(2 ** 40)
    if k % 8 == 1:
        # the two passes run under torch seeds whose loader base seeds are congruent modulo 2**32; stack with registered collators
        return {"kind": "loader", "top": G.gen_probe_stack(rng, "collators"), "build_seed": rng.randrange(2 ** 31), "W": [1, 2, 3][(k // 8) % 3],
                "B": rng.choice([1, 2, 2, 3]), "torch_seed": list(CONGRUENT_TORCH_SEEDS[0]), "torch_pairs": [list(p_) for p_ in CONGRUENT_TORCH_SEEDS],
                "base": [rng.randrange(2 ** 40)], "parent_hook": None, "parent_samples": None, "idx_seed": rng.randrange(10 ** 6)}
    return {"kind": "loader", "top": G.gen_probe_stack(rng, {2: "bare", 5: "concat_collators", 4: "edit", 7: "shared_cfg"}.get(k % 8)), "build_seed": rng.randrange(2 ** 31), "W": [1, 2, 3, 1, 2, 4][k % 6],      # every worker count in every run, a single worker included
            
            "B": rng.choice([1, 2, 2, 3]), "torch_seed": [s1, s1 + 1 + rng.randrange(2 ** 40)], "base": [rng.randrange(2 ** 40)],
            "parent_hook": [None, 0, None][k % 3], "parent_samples": [None, 1, 3, None][k % 4], "idx_seed": rng.randrange(10 ** 6)}


# ------------------------------------------------------------------------------------------------ helpers
def _seed_globals(seed):
    np.random.seed(seed % (2 ** 32))
    torch.default_generator.manual_seed(seed)
    pyrandom.seed(seed)


class _Collector:
    def __init__(self):
        self.found = []

    not_computable = 0

    def violation(self, key, what, spec=None):
        if key.startswith("sample-crash") and "refers to a single memory location" in what:
            # torch refuses an in-place write into an expanded tensor (a composition of shipped transforms in which one hands on an
            # expanded view - torchvision's 3-channel grayscale - and the next one writes in place): the SAMPLE cannot be computed, in the
            # parent and in every worker alike. Whether every composition of transforms is computable is not C09's statement (it is about
            # the streams of the workers), so such a stack is skipped and counted, not reported.
            _Collector.not_computable += 1
            return
        self.found.append({"key": key, "what": what, "place": None, "confirm": False})

    def refusal(self, cls):
        raise AssertionError("no refusal class is enumerated for C09")


def _codes(run):
    if getattr(run, "_c09_codes", None) is None:
        import sys
        mods = [m for n, m in list(sys.modules.items())
                if m is not None and (n.startswith("kappadata.transforms") or n.startswith("kappadata.common") or n.startswith("kappadata.wrappers")
                                      or n.startswith("kappadata.datasets") or n.startswith("kappadata.collators")
                                      or n in ("kappadata.utils.magnitude_sampler", "kappadata.utils.random", "kappadata.factory"))]
        run._c09_codes = codes_of(*mods)
    return run._c09_codes


def _owner_name(entry):
    return S.repo_class_name(entry.chain[-1]) if entry.chain else "unattributed"


class _Obs:
    """what one simulated worker showed"""
    __slots__ = ("base", "rank", "post", "end", "samples", "collated", "ds", "raw")


def _draw_samples(col, ds, coll, idxs, B, interleaved):
    """K samples through the stack + the root's collate function on the first B of them -> (canon samples, canon batches)"""
    raws, canon = [], []
    for i in idxs:
        ok, v = call_real(col, lambda: ds[i], crash_key="sample-crash", what=f"stack[{i}] in a worker")
        if not ok:
            return None, None
        raws.append(v)
        canon.append(canon_value(v))
    batches = []
    if coll is not None:
        if interleaved:
            groups = {}
            for v in raws:
                groups.setdefault(int(v[0]), []).append(v)
            todo = [g[:B] for _, g in sorted(groups.items())]
        else:
            todo = [raws[:B]]
        for b in todo:
            S.PROBE_LOG.clear()
            ok, out = call_real(col, lambda: coll(b), crash_key="collate-crash", what="collate function of the stack in a worker")
            if not ok:
                return None, None
            batches.append((canon_value(out), tuple(S.PROBE_LOG)))
    S.PROBE_LOG.clear()
    return canon, batches


def _parent_samples(col, ds, spec):
    """history: k samples are fetched in the parent process (e.g. to look at shapes) before the workers are created"""
    k = spec.get("parent_samples")
    if not k:
        return True
    r = pyrandom.Random(spec.get("idx_seed", 0) + 1)
    _seed_globals(spec["build_seed"] + 2)
    n = len(ds)
    for _ in range(k):
        i = r.randrange(n)
        ok, _v = call_real(col, lambda: ds[i], crash_key="sample-crash", what=f"stack[{i}] fetched in the parent process")
        if not ok:
            return False
    S.PROBE_LOG.clear()
    return True


def observe_sim(spec, shift, stats):
    """build the stack, run the simulated workers -> (findings, live place count). No reporting."""
    top, W = spec["top"], spec["W"]
    col = _Collector()

    def bump(k, v=1):
        stats[k] = stats.get(k, 0) + v

    _seed_globals(spec["build_seed"])
    ok, built = call_real(col, lambda: S.build_stack(top), crash_key="build-crash", what="building the dataset stack")
    if not ok:
        return col.found, 0
    kw = S.hook_kwargs_for(top)
    interleaved = top["k"] == "interleaved"
    if spec.get("parent_hook") is not None:
        # history: the hook was already run once by hand in the parent (main process, parent's global RNG) before the fork
        _seed_globals(spec["build_seed"] + 1)
        ok, _ = call_real(col, lambda: built.dataset.worker_init_fn(spec["parent_hook"], **kw), crash_key="hook-crash",
                          what=f"worker_init_fn({spec['parent_hook']}) called in the parent process")
        if not ok:
            return col.found, 0
    if not _parent_samples(col, built.dataset, spec):
        return col.found, 0
    pre = {e.path: e for e in S.census(built.dataset)}
    pre_state = {p: e.state for p, e in pre.items()}
    pre_raw = {p: set(e.raw()) for p, e in pre.items()}
    n = len(built.dataset)
    r = pyrandom.Random(spec["idx_seed"])
    idxs = [r.randrange(n) for _ in range(spec["K"])]
    if interleaved:     # at least one sample of every part
        sizes = [len(p[0]) for p in built.parts]
        idxs = [sum(sizes[:j]) + r.randrange(sizes[j]) for j in range(len(sizes))] + idxs[:max(1, spec["K"] - len(sizes))]
    b1 = spec["base"][0] + shift * 7919      # both bases move together: the relation between them (e.g. congruent modulo
    b2 = spec["base"][1] + shift * 7919      # 2**32) is part of the case and is kept when a coincidence is re-observed
    workers = [(b1, rk) for rk in range(W)] + [(b2, spec["alt_rank"]), (b1, spec["dup_rank"])]
    obs = []
    for base, rank in workers:
        ds, coll = copy.deepcopy((built.dataset, built.collate))
        o = _Obs()
        o.base, o.rank, o.ds = base, rank, ds
        with S.simulated_worker(rank, W, base, ds):
            ok, _ = call_real(col, lambda: ds.worker_init_fn(rank, **kw), crash_key="hook-crash", what=f"worker_init_fn({rank}) of the stack")
            if not ok:
                return col.found, 0
            post = S.census(ds)
            o.post = {e.path: e for e in post}
            o.raw = {p: e.raw() for p, e in o.post.items()}
            post_state = {p: e.state for p, e in o.post.items()}
            o.samples, o.collated = _draw_samples(col, ds, coll, idxs, spec["B"], interleaved)
            if o.samples is None:
                return col.found, 0
            o.end = {e.path: e.state for e in S.census(ds)}
            o.post = {p: (e, post_state[p]) for p, e in o.post.items()}
        bump("sim_workers_observed")
        bump("samples_drawn", len(o.samples))
        bump("collated_batches", len(o.collated))
        obs.append(o)

    findings = []
    live = set()
    for o in obs:
        live |= {p for p, (e, st) in o.post.items() if o.end.get(p) != st}
    distinct = obs[:W + 1]          # pairwise different (base_seed, rank)
    dup = obs[W + 1]
    orig = obs[spec["dup_rank"]]

    # ---- A: live generators still carrying the parent's stream
    stale_places = set()
    for o in distinct:
        stale_paths = {p for p, (e, st) in o.post.items() if p in pre_state and st == pre_state[p]}
        for p in sorted(live):
            if p not in o.post or p not in pre_state:
                continue
            e, st = o.post[p]
            bump("live_generators_judged")
            if st == pre_state[p]:
                kind = "state equal to the parent's pre-fork state"
            elif pre_raw[p] & set(o.raw[p]):
                kind = "next 64 raw outputs overlap the parent's pre-fork stream"
            else:
                continue
            if p in stale_places:
                continue
            stale_places.add(p)
            with S.simulated_worker(o.rank, W, o.base, o.ds):     # same WorkerInfo as when the hook ran
                blame = S.blame_stale(o.ds, p, stale_paths, kw)
            findings.append({"key": f"stale-generator:{blame}", "place": p, "confirm": True,
                             "what": f"after worker_init_fn({o.rank}) under worker seed (base {o.base}, rank {o.rank}) the live generator at "
                                     f"`stack{p}` (held by {_owner_name(e)}) was not overwritten: {kind}; every worker replays the stream "
                                     f"the parent process would draw"})

    # ---- B: differently seeded workers
    for i in range(len(distinct)):
        for j in range(i + 1, len(distinct)):
            a, b = distinct[i], distinct[j]
            for p in sorted(live):
                if p in stale_places or p not in a.post or p not in b.post:
                    continue
                bump("state_pairs_compared")
                if a.post[p][1] == b.post[p][1]:
                    findings.append({"key": f"seed-independent-stream:{_owner_name(a.post[p][0])}", "place": p, "confirm": True,
                                     "what": f"workers seeded (base {a.base}, rank {a.rank}) and (base {b.base}, rank {b.rank}) hold the "
                                             f"same state in the live generator at `stack{p}` although both were overwritten by the hook"})
            va, vb = _raw_values(a, live, stale_places), _raw_values(b, live, stale_places)
            bump("raw_sets_compared")
            common = set(va) & set(vb)
            for v in sorted(common)[:1]:
                pa, pb = va[v], vb[v]
                if pa == pb and a.post[pa][1] == b.post[pb][1]:
                    continue    # reported above as equal states
                findings.append({"key": f"overlapping-streams:{_owner_name(a.post[pa][0])}", "place": f"{pa}|{pb}", "confirm": True,
                                 "what": f"the next 64 raw outputs of `stack{pa}` in worker (base {a.base}, rank {a.rank}) and of `stack{pb}` in "
                                         f"worker (base {b.base}, rank {b.rank}) share the value {v}: the streams overlap"})

    # ---- C: same seed reproduces
    bump("same_seed_pairs_compared")
    diff_places = sorted(p for p in set(orig.post) | set(dup.post)
                         if (orig.post.get(p) or (None, None))[1] != (dup.post.get(p) or (None, None))[1])
    for p in diff_places[:1]:
        e = (orig.post.get(p) or dup.post.get(p))[0]
        findings.append({"key": f"not-reproducible:{_owner_name(e)}", "place": p, "confirm": False,
                         "what": f"two workers with the same seed (base {orig.base}, rank {orig.rank}) hold different generator states at "
                                 f"`stack{p}` after the hook"})
    if not diff_places:
        if orig.samples != dup.samples:
            k = next(i for i in range(len(idxs)) if orig.samples[i] != dup.samples[i])
            findings.append({"key": "not-reproducible-output", "place": "samples", "confirm": False, "blame_output": True,
                             "what": f"two workers with the same seed (base {orig.base}, rank {orig.rank}) and equal generator states produce "
                                     f"different samples (stack[{idxs[k]}], draw {k} of {len(idxs)})"})
        elif orig.collated != dup.collated:
            findings.append({"key": "not-reproducible-output:collate", "place": "collate", "confirm": False,
                             "what": f"two workers with the same seed (base {orig.base}, rank {orig.rank}) collate the same samples differently"})
        elif orig.end != dup.end:
            findings.append({"key": "not-reproducible:end-state", "place": "end", "confirm": False,
                             "what": "two workers with the same seed end in different generator states after the same samples"})
    stats["live_places"] = len(live)
    stats["places"] = len(pre)
    return col.found + findings, len(live)


# ------------------------------------------------------------------------------------------------ other interpreter
def fingerprint(spec):
    """per-worker streams of a sim spec as plain data (recomputed in a child interpreter with another hash salt):
    {"w<rank>": {"gens": {place: digest of the next raw outputs after the hook}, "out": digest of samples + collated batches}}"""
    import hashlib
    top, W = spec["top"], spec["W"]
    col = _Collector()
    _seed_globals(spec["build_seed"])
    built = S.build_stack(top)
    kw = S.hook_kwargs_for(top)
    if spec.get("parent_hook") is not None:
        _seed_globals(spec["build_seed"] + 1)
        built.dataset.worker_init_fn(spec["parent_hook"], **kw)
    if not _parent_samples(col, built.dataset, spec):
        raise RuntimeError(col.found[-1]["what"][:300] if col.found else "the stack's samples cannot be computed (in-place write into an expanded tensor)")
    n = len(built.dataset)
    r = pyrandom.Random(spec["idx_seed"])
    idxs = [r.randrange(n) for _ in range(spec["K"])]
    interleaved = top["k"] == "interleaved"
    if interleaved:
        sizes = [len(p[0]) for p in built.parts]
        idxs = [sum(sizes[:j]) + r.randrange(sizes[j]) for j in range(len(sizes))] + idxs[:max(1, spec["K"] - len(sizes))]
    out = {}
    for rank in range(W):
        ds, coll = copy.deepcopy((built.dataset, built.collate))
        with S.simulated_worker(rank, W, spec["base"][0], ds):
            ds.worker_init_fn(rank, **kw)
            gens = {e.path: hashlib.sha1(repr(e.raw()).encode()).hexdigest()[:16] for e in S.census(ds)}
            samples, collated = _draw_samples(col, ds, coll, idxs, spec["B"], interleaved)
            if samples is None:
                raise RuntimeError(col.found[-1]["what"][:300])
        out[f"w{rank}"] = {"gens": gens, "out": hashlib.sha1(repr((samples, collated)).encode()).hexdigest()[:16]}
    return out


def finalize(run):
    """clause 'the same worker seed reproduces the same stream' across interpreter instances: the streams of a few stacks with
    registered collators are recomputed in ONE child interpreter started with another PYTHONHASHSEED and compared"""
    import json
    import subprocess
    import sys
    specs = getattr(run, "_c09_xproc", [])
    if not specs:
        return
    mine = []
    for spec in specs:
        try:
            mine.append(fingerprint(spec))
        except Exception as e:  # noqa: BLE001 - such a stack is reported by its own case
            mine.append({"error": str(e)})
    env = dict(os.environ, PYTHONHASHSEED=str(1 + (run.seed * 7919 + 4242) % 4000000000))
    if env["PYTHONHASHSEED"] == os.environ.get("PYTHONHASHSEED"):
        env["PYTHONHASHSEED"] = "97"
    try:
        p = subprocess.run([sys.executable, "-m", "kdv.h09_child"], input=json.dumps(specs), capture_output=True, text=True,
                           cwd=str(core.VERIF), env=env, timeout=600)
        line = next((ln for ln in p.stdout.splitlines() if ln.startswith("C09CHILD ")), None)
        theirs = json.loads(line[len("C09CHILD "):]) if line else None
    except Exception as e:  # noqa: BLE001 - infrastructure: not an observation of the repository
        theirs = None
        run.notes["xproc_child_problem"] = [f"{type(e).__name__}: {e}"[:300]]
    if theirs is None or len(theirs) != len(specs):
        run.count("xproc_child_failures")
        return
    for spec, a, b in zip(specs, mine, theirs):
        if "error" in a or "error" in b:
            run.count("xproc_stacks_not_compared")
            continue
        run.count("xproc_stacks_compared")
        if a == b:
            continue
        what, owner = "samples / collated batches differ although all generator streams agree", "output"
        for w in sorted(a):
            diff = sorted(p_ for p_ in set(a[w]["gens"]) | set(b.get(w, {}).get("gens", {})) if a[w]["gens"].get(p_) != b.get(w, {}).get("gens", {}).get(p_))
            if diff:
                _seed_globals(spec["build_seed"])
                ent = {e.path: e for e in S.census(S.build_stack(spec["top"]).dataset)}
                owner = _owner_name(ent[diff[0]]) if diff[0] in ent else "unattributed"
                what = (f"worker (base {spec['base'][0]}, rank {w[1:]}): the generator at `stack{diff[0]}` (held by {owner}) delivers another "
                        f"stream after worker_init_fn in a second interpreter (PYTHONHASHSEED={env['PYTHONHASHSEED']}) than in this one "
                        f"({len(diff)} places differ)")
                break
        run.violation(f"not-reproducible-across-interpreters:{owner}", f"{what}\nstack: {brief_stack(spec['top'])}", spec)


def _raw_values(o, live, skip):
    """value -> place over the next raw outputs of the worker's live generators (one entry per generator object)"""
    out, seen = {}, set()
    for p in sorted(live):
        if p in skip or p not in o.post:
            continue
        e = o.post[p][0]
        if id(e.gen) in seen:
            continue
        seen.add(id(e.gen))
        for v in o.raw[p]:
            out.setdefault(v, p)
    return out


def _blame_output(spec):
    """diagnostics: innermost layer of the stack whose samples differ between two equally seeded workers"""
    def layers(node):
        for ch in node.get("children", []):
            yield from layers(ch)
        if "child" in node:
            yield from layers(node["child"])
        if node["k"] not in ("mode", "interleaved", "bare"):
            yield node
    from kappadata.wrappers import ModeWrapper
    for node in layers(spec["top"]):
        try:
            _seed_globals(spec["build_seed"])
            ds0 = ModeWrapper(S.build_dataset(node), mode="x")
            outs = []
            for _ in range(2):
                ds = copy.deepcopy(ds0)
                with S.simulated_worker(0, spec["W"], spec["base"][0], ds):
                    ds.worker_init_fn(0, **S.hook_kwargs_for(spec["top"]))
                    outs.append([canon_value(ds[i % len(ds)]) for i in range(4)])
            if outs[0] != outs[1]:
                return S.repo_class_name(ds0.dataset)
        except Exception:  # noqa: BLE001 - diagnostics only
            continue
    return "unattributed"


def evaluate_sim(spec, stats):
    """-> confirmed findings"""
    findings, _ = observe_sim(spec, 0, stats)
    out = [f for f in findings if not f.get("confirm")]
    pending = [f for f in findings if f.get("confirm")]
    for shift in (1, 2):
        if not pending:
            break
        again, _ = observe_sim(spec, shift, {})
        recurring = {(f["key"], f["place"]) for f in again}
        pending = [f for f in pending if (f["key"], f["place"]) in recurring]
        stats["confirmations"] = stats.get("confirmations", 0) + 1
    out += pending
    for f in out:
        if f.get("blame_output"):
            f["key"] = f"not-reproducible-output:{_blame_output(spec)}"
    return out


# ------------------------------------------------------------------------------------------------ real loader
def _parent_values(ds):
    """the first 64 probe-style draws every generator of the parent would deliver"""
    vals = {}
    for e in S.census(ds):
        bg = e.gen.bit_generator
        st = bg.state
        try:
            for v in e.gen.integers(0, 2 ** 63, size=S.RAW_DRAWS):
                vals.setdefault(int(v), e.path)
        finally:
            bg.state = st
    return vals


def _canon_run(batches):
    return [(canon_value(b), tuple(log)) for b, log in batches]


def evaluate_loader(run, spec):
    """-> findings; coincidences of draws are re-observed under other torch seeds before they are reported (the 31-bit seeds
    of get_rng_from_global collide by chance with 2^-31 per generator pair; a mechanism recurs)"""
    findings = observe_loader(run, spec, 0)
    out = [f for f in findings if not f.get("confirm")]
    pending = [f for f in findings if f.get("confirm")]
    for shift in (1, 2):
        if not pending:
            break
        again = {f["key"] for f in observe_loader(run, spec, shift)}
        pending = [f for f in pending if f["key"] in again]
    return out + pending


def observe_loader(run, spec, shift):
    top, W, B = spec["top"], spec["W"], spec["B"]
    if spec.get("torch_pairs"):
        seeds = list(spec["torch_pairs"][shift % len(spec["torch_pairs"])])
    else:
        seeds = [spec["torch_seed"][0] + 7919 * shift, spec["torch_seed"][1] + 104729 * shift]
    _seed_globals(spec["build_seed"])
    col = _Collector()
    ok, built = call_real(col, lambda: S.build_stack(top, ship=True), crash_key="build-crash", what="building the probe stack")
    if not ok:
        return col.found
    kw = {"batch_size": B, "updates": 10 ** 6} if S.hook_kwargs_for(top) else {}
    if spec.get("parent_hook") is not None:
        _seed_globals(spec["build_seed"] + 1)
        ok, _ = call_real(col, lambda: built.dataset.worker_init_fn(spec["parent_hook"], **kw), crash_key="hook-crash",
                          what=f"worker_init_fn({spec['parent_hook']}) called in the parent process")
        if not ok:
            return col.found
    if not _parent_samples(col, built.dataset, spec):
        return col.found
    parent = _parent_values(built.dataset)
    runs = []
    for ts in (seeds[0], seeds[0], seeds[1]):
        try:
            batches = S.run_loader(built, top, W, B, ts, kw)
        except Exception as e:  # noqa: BLE001
            if "Caught " in str(e):    # raised by the code running in a worker, re-raised by torch
                return [{"key": f"loader-worker-crash:{type(e).__name__}", "place": None,
                         "what": f"DataLoader(num_workers={W}) over the probe stack: {type(e).__name__}: {str(e)[-1500:]}"}]
            run.count("loader_infrastructure_failures")
            return []
        run.count("loader_runs")
        runs.append(batches)
    findings = []

    def per_worker(batches):
        d, seeds = {}, {}
        for _, log in batches:
            for tag, wid, wseed, v in log:
                seeds[wid] = wseed
                run.count("loader_draws_observed")
                if tag.startswith("seeded:"):     # batch of a part served by a seeded wrapper: function of the index, not of the worker
                    run.count("loader_seeded_sibling_draws")
                    d.setdefault(wid, {})
                    continue
                d.setdefault(wid, {}).setdefault(v, tag)
        return d, seeds

    d1, seeds1 = per_worker(runs[0])
    d3, seeds3 = per_worker(runs[2])
    run.cover("loader_workers_seen", W, len(d1))
    tags_total = {n["tag"] for t in S.stack_trees(top) for n in S.tree_nodes(t) if n["t"] in ("probe", "semseg_probe")}
    tags_seen = {t for w in d1.values() for t in w.values()}
    run.count("probes_placed", len(tags_total))
    run.count("probes_that_drew", len(tags_seen & tags_total))
    if -1 in d1:
        raise core.Inconclusive("harness: a probe drew outside a dataloader worker")
    # 1. same torch seed -> identical pass
    run.count("loader_repeats_compared")
    if _canon_run(runs[0]) != _canon_run(runs[1]):
        k = next((i for i, (a, b) in enumerate(zip(_canon_run(runs[0]), _canon_run(runs[1]))) if a != b), -1)
        findings.append({"key": "loader:not-reproducible", "place": None,
                         "what": f"two passes over DataLoader(num_workers={W}, batch_size={B}) under torch.manual_seed({seeds[0]}) "
                                 f"differ (first at batch {k})"})
    # 2. workers of one pass are disjoint, 3. nothing stems from the parent's generators
    for d, seeds, name in ((d1, seeds1, "pass 1"), (d3, seeds3, "pass 2")):
        wids = sorted(d)
        for i in range(len(wids)):
            for j in range(i + 1, len(wids)):
                run.count("loader_worker_pairs_compared")
                common = set(d[wids[i]]) & set(d[wids[j]])
                if common:
                    v = min(common)
                    findings.append({"key": "loader:workers-share-draws", "place": d[wids[i]][v], "confirm": True,
                                     "what": f"{name}: workers {wids[i]} (seed {seeds[wids[i]]}) and {wids[j]} (seed {seeds[wids[j]]}) both drew "
                                             f"{v} (probes {d[wids[i]][v]!r} / {d[wids[j]][v]!r}): {len(common)} shared draws"})
            stale = set(d[wids[i]]) & set(parent)
            if stale:
                v = min(stale)
                findings.append({"key": "loader:worker-draws-from-parent-stream", "place": d[wids[i]][v], "confirm": True,
                                 "what": f"{name}: worker {wids[i]} drew {v} at probe {d[wids[i]][v]!r}, a value of the parent's generator at "
                                         f"`stack{parent[v]}` (not overwritten by the hook)"})
    # 4. another torch seed -> other worker seeds -> disjoint from the first pass
    if not set(seeds1.values()) & set(seeds3.values()):
        run.count("loader_cross_seed_compared")
        a = {v: t for w in d1.values() for v, t in w.items()}
        b = {v: t for w in d3.values() for v, t in w.items()}
        common = set(a) & set(b)
        if common and not any(f["key"].startswith("loader:worker") for f in findings):
            v = min(common)
            findings.append({"key": "loader:seed-independent-draws", "place": a[v], "confirm": True,
                             "what": f"passes under torch seeds {seeds} (worker seeds {sorted(seeds1.values())} / "
                                     f"{sorted(seeds3.values())}) share {len(common)} draws, e.g. {v} at probe {a[v]!r}"})
    if findings:
        # name the mechanism with the census of a simulated run over the same stack
        sim = {"kind": "sim", "top": top, "build_seed": spec["build_seed"], "W": W, "base": [spec["base"][0], spec["base"][0] + 12345],
               "alt_rank": 0, "dup_rank": 0, "K": 4, "B": B, "idx_seed": 1}
        try:
            named = [f for f in evaluate_sim(sim, {}) if f["key"].startswith(("stale-generator", "seed-independent", "overlapping"))]
        except Exception:  # noqa: BLE001 - diagnostics only
            named = []
        if named:
            for f in findings:
                if f["key"].startswith("loader:worker") or f["key"] == "loader:seed-independent-draws":
                    f["what"] += f"  [census of a simulated run: {named[0]['what']}]"
                    f["key"] = named[0]["key"]
    return col.found + findings


# ------------------------------------------------------------------------------------------------ case execution
def _stack_cover(run, spec):
    top = spec["top"]
    kinds = sorted({n["k"] for n in S.stack_nodes(top)})
    run.cover("stack", spec["kind"], "+".join(kinds))
    for n in S.stack_nodes(top):
        if n["k"] == "mode":
            run.cover("mode", n["mode"], n.get("return_ctx", False), n.get("cform"))
        elif n["k"] == "common":
            run.cover("common", n["cls"])
        elif n["k"] == "mv":
            run.cover("mv", tuple(sorted({c["form"] for c in n["configs"]})), sum(c["n"] for c in n["configs"]))
            order = "".join("p" if c.get("plain") else ("k" if c.get("tree") is not None else "i") for c in n["configs"])
            run.cover("mv_order", spec["kind"], order)      # p = plain callable, k = KDTransform tree, i = identity
            if "p" in order and "k" in order[order.index("p"):]:
                run.count("mv_plain_view_before_kd_view")
        elif n["k"] in ("concat", "interleaved"):
            rids = [sorted({x["rid"] for x in S.stack_nodes(ch) if x.get("rid")}) for ch in n["children"]]
            shared = sum(1 for r in rids if r)
            run.cover(n["k"], spec["kind"], len(n["children"]), "shared" if shared >= 2 else "separate")
            if shared >= 2:
                run.count(f"{n['k']}_parts_sharing_a_dataset")
        elif n["k"] == "root":
            run.cover("root", n["T"]["kind"], tuple(c["c"] for c in n.get("collators", [])))
    for t in S.stack_trees(top):
        tk = sorted({n["t"] for n in S.tree_nodes(t)})
        run.cover("tree", spec["kind"], "+".join(tk))
        for n in S.tree_nodes(t):
            if n["t"] == "leaf":
                run.cover("leaf", n["recipe"])
                _note(run, "classes_exercised", H.RECIPES[n["recipe"]].cls.__name__)
    run.cover("workers", spec["kind"], spec["W"])
    if spec["W"] == 1:
        run.count(f"single_worker_{spec['kind']}_cases")
    if spec.get("parent_hook") is not None:
        run.count(f"hook_already_run_in_parent_{spec['kind']}_cases")
    run.cover("history", spec["kind"], "parent-hook" if spec.get("parent_hook") is not None else "fresh", spec.get("parent_samples") or 0)
    if spec.get("parent_samples"):
        run.count(f"samples_fetched_in_parent_{spec['kind']}_cases")
        if any(n["k"] == "mix" for n in S.stack_nodes(top)):
            run.count("samples_fetched_in_parent_mix_wrapper_cases")
    if top["k"] == "bare":
        run.count(f"no_mode_wrapper_{spec['kind']}_cases")
        if any(n["k"] == "root" and n.get("collators") for n in S.stack_nodes(top)):
            run.count("no_mode_wrapper_with_collators_cases")
    if spec.get("base_pair"):
        run.cover("base_seed_pair", spec["base_pair"])
        if spec["base_pair"] != "random":
            run.count("boundary_base_seed_pair_sim_cases")
    if spec.get("torch_pairs"):
        run.count("congruent_base_seed_loader_cases")
    if any(n.get("cfg") for n in S.stack_nodes(top)):
        run.count("seeded_and_unseeded_wrapper_from_one_config_list_cases")
    edits = [(n.get("late") or {}).get("op") or n["edit"]["mode"] for t in S.stack_trees(top) for n in S.tree_nodes(t)
             if n["t"] == "compose" and (n.get("edit") or n.get("late"))]
    for op in edits:
        run.cover("compose_edit", spec["kind"], op)
    if edits:
        run.count(f"compose_edited_after_construction_{spec['kind']}_cases")
    if any(n.get("collate_roots") for n in S.stack_nodes(top)):
        run.count(f"concat_member_root_collators_{spec['kind']}_cases")
    for n in S.stack_nodes(top):
        if n["k"] == "root" and n.get("collators") and n["collators"][0]["c"] in ("compose", "wrapper"):
            run.count(f"composite_collator_registered_{spec['kind']}_cases")


def _note(run, key, val):
    lst = run.notes.setdefault(key, [])
    if val not in lst:
        lst.append(val)


def brief_stack(node):
    k = node["k"]
    if k == "root":
        cols = ",".join(c["c"] for c in node.get("collators", []))
        return f"root<{node['T']['kind']}{', collators=[' + cols + ']' if cols else ''}{', ' + node['rid'] if node.get('rid') else ''}>"
    if k in ("concat", "interleaved"):
        return f"{k}[" + ", ".join(brief_stack(c) for c in node["children"]) + "]"
    inner = brief_stack(node["child"])
    if node.get("rid"):
        inner += f" @{node['rid']}"
    if k == "xt":
        return f"XT({S.brief_tree(node['tree'])}; {inner})"
    if k == "mv":
        return "MV([" + ", ".join(f"{c['n']}x{S.brief_tree(c['tree']) if c.get('tree') else ('plain' if c.get('plain') else 'id')}" for c in node["configs"]) + f"]; {inner})"
    if k == "semseg":
        return "Semseg([" + ", ".join(S.brief_tree(m) for m in node["members"]) + f"]; {inner})"
    if k == "common":
        return f"{node['cls']}({inner})"
    if k == "mode":
        return f"Mode('{node['mode']}'{', collate from member roots' if node.get('collate_roots') else ''}; {inner})"
    if k == "bare":
        return f"NoModeWrapper({inner})"
    return f"{k}({inner})"


def _report(run, spec, findings):
    per_key = run.__dict__.setdefault("_c09_per_key", {})
    seen = set()
    for f in findings:
        key = f["key"]
        if key in seen:
            continue
        seen.add(key)
        per_key[key] = per_key.get(key, 0) + 1
        if key in run.known or per_key[key] <= WITNESSES_PER_KEY:
            run.violation(key, f"{f['what']}\nstack: {brief_stack(spec['top'])}", spec)
        else:
            run.count(f"further_witnesses[{key}]")


def run_case(run, spec):
    _stack_cover(run, spec)
    if spec["kind"] == "sim":
        pool = run.__dict__.setdefault("_c09_xproc", [])
        if len(pool) < run.n(5, 16 * 10) and any(n["k"] == "root" and n.get("collators") for n in S.stack_nodes(spec["top"])):
            pool.append(spec)
        stats = {}
        with StepBudget(STEP_LIMIT, _codes(run), what="simulated workers of one stack"):
            findings = evaluate_sim(spec, stats)
        for k, v in stats.items():
            if k not in ("live_places", "places"):
                run.count(k, v)
        run.count("generator_places_seen", stats.get("places", 0))
        run.count("live_places_seen", stats.get("live_places", 0))
        if stats.get("live_places", 0) == 0 and not findings:
            run.count("cases_without_live_generator")
        if not findings:
            run.count("cases_held")
            if stats.get("live_places", 0) >= 3:
                run.sample({"stack": brief_stack(spec["top"]), "workers": spec["W"] + 2, "generator_places": stats.get("places"),
                            "live_places": stats.get("live_places")}, cap=5)
    else:
        findings = evaluate_loader(run, spec)
        if not findings:
            run.count("loader_cases_held")
            if len(run.samples) < 7:
                run.sample({"loader_stack": brief_stack(spec["top"]), "num_workers": spec["W"], "batch_size": spec["B"],
                            "torch_seeds": spec["torch_seed"]}, cap=7)
    _report(run, spec, findings)


def finalize_merged(run):
    run.notes["classes_exercised"] = sorted(run.notes.get("classes_exercised", []))
