"""C04 — interleaved scheduler: main stream, batch cutting and stopping point are exact.

The REAL InterleavedSampler is iterated; its event stream `(is_full_batch, index)`, a second run through its batch
sampler, and the set_epoch / iteration-start log of a recording main sampler are compared with the executable reference
model in h04_sched (written from the property text). Only the main-sampler part is judged here (side passes: C05).
"""
from __future__ import annotations

from . import core
from . import h04_sched as H
from .harness import call_real

LEVEL = "exploration"
RULE = ("random schedules: main length N<=40 (M>=N data source), batch size classes {1, N, divisor of N, any<=N}, drop_last on/off, "
        "drop_last_batch_size multiples of B, budgets of all three kinds (incl. 0, inside-epoch, non-multiples of B), 0..4 side "
        "configs (incl. several interval kinds on one config), main samplers: recording epoch-seeded sampler with/without set_epoch, "
        "torch Sequential/Random/Distributed and kappadata Random(num_repeats)/Distributed behind a recording proxy; "
        "non-trivial = non-zero budget; distinct by full spec")
ASSUMPTIONS = [
    "main samplers yield len(sampler) indices per iteration (stated in the property's quantifier)",
    "side passes are only used as traffic between main updates here; their content is judged by C05",
]
MONITORS = ["concurrent_iterator_pairs_compared", "main_events_compared", "epoch_announcements_compared", "batch_sampler_runs", "stop_points_compared"]

MAIN_KINDS = ["rec", "rec", "rec", "rec_noepoch", "torch_seq", "torch_rand", "kd_rand_rep", "kd_dist", "torch_dist2", "kd_dist2"]


def gen_cases(run):
    n = run.n(30000, 1600000)
    rng = run.rng
    for _ in range(n):
        g = H.gen_geometry(rng, big=True)
        kind = rng.choice(MAIN_KINDS)
        if kind not in ("rec", "rec_noepoch"):
            g["M"] = g["N"]
        if kind in ("torch_dist2", "kd_dist2"):
            # torch's DistributedSampler with 2 replicas yields ceil(n/2) indices over a dataset of n
            g["M"] = g["N"] * 2 - rng.choice([0, 1])
        spec = {"g": g, "budget": H.gen_budget(rng, g), "cfgs": H.gen_configs(rng, g), "main_kind": kind, "seed": rng.randrange(10 ** 6)}
        if rng.random() < 0.2:
            spec["types"] = {"drop_last": rng.choice(["np", "int"])}  # drop_last as numpy bool / 0-1 int (the constructor takes it by truthiness)
        elif kind == "rec" and rng.random() < 0.2:
            # built with decoy values, brought to this configuration through the public attributes before the first iteration
            spec["reconfig"] = {k_: True for k_ in rng.sample(["batch", "budget", "main"], rng.randint(1, 3))}
            if "budget" in spec["reconfig"]:
                spec["reconfig"]["budget"] = rng.choice(["zero", "other", "same-kind"])
        if list(spec["budget"].values())[0] == 0:
            spec["_trivial"] = True
        yield spec


def _main_only(events, M):
    return [(e[0], e[1]) for e in events if e[1] < M]


def run_case(run, spec):
    g, budget, cfgs = spec["g"], spec["budget"], spec["cfgs"]
    (bkind, bval), = budget.items()
    M = g["M"]
    if spec["main_kind"] == "torch_dist2":
        M = g["M"]
    ok, built = call_real(run, lambda: H.build_real(_geom(spec), budget, cfgs, spec["seed"], spec["main_kind"], types=spec.get("types"), reconfig=spec.get("reconfig")), crash_key="ctor-crash", what="InterleavedSampler(...)")
    if not ok:
        return
    sampler, main, sides, events = built
    N = len(main)

    def draw(j, epoch):
        if spec["main_kind"] == "rec":
            return H.rec_draw(g["M"], g["N"], spec["seed"], epoch)
        # samplers whose draw the harness cannot predict: use the iteration the real sampler produced the j-th time
        return main.iterations[j] if j < len(main.iterations) else None

    gm = _geom(spec)
    # a generous cut: the model's length is only known afterwards for proxied samplers -> bound by budget arithmetic
    spe = max(1, H.samples_per_epoch(gm))
    side_total = sum(c["n"] for c in cfgs)
    if bval == 0:
        cap = side_total + 5
    else:
        upd_bound = {"epochs": bval * (-(-spe // gm["B"])), "updates": bval, "samples": bval}[bkind] + 2
        cap = upd_bound * (gm["B"] + side_total) + 10
    ok, finished = call_real(run, lambda: H.consume(sampler, events, cap), what="iterating InterleavedSampler")
    if not ok:
        return
    mdl = H.model(gm, budget, cfgs, draw)
    run.cover(bkind, bval == 0, g["N"] % g["B"] == 0, g["B"] == 1, g["B"] == g["N"], g["drop_last"], g["D"] is not None, min(len(cfgs), 3),
              spec["main_kind"], _alignment(gm, budget))
    if not finished:
        run.violation("stream-does-not-end", f"stream still running after {cap} events; model ends after {len(mdl['events'])}")
        return
    if not mdl["complete"]:
        run.violation("stream-ends-early", f"real stream ended after {len(events)} events / {len(main.iterations)} main iterations; the budget {budget} is not reached by then")
        return

    real_main, model_main = _main_only(events, M), _main_only(mdl["events"], M)
    run.count("main_events_compared", len(real_main))
    if bval == 0:
        if real_main:
            run.violation("zero-budget-main-indices", f"zero budget must not yield main indices, got {real_main[:8]}")
        return
    # ---- main stream: indices, flags
    if real_main != model_main:
        k = next((i for i, (a, b) in enumerate(zip(real_main, model_main)) if a != b), min(len(real_main), len(model_main)))
        if k == len(model_main) and len(real_main) > len(model_main):
            key = "stops-too-late"
        elif k == len(real_main) and len(model_main) > len(real_main):
            key = "stops-too-early"
        elif real_main[k][1] != model_main[k][1]:
            key = "main-index"
        else:
            key = "batch-flag"
        run.violation(key, f"{_desc(spec)}: main part differs at main event {k}: real {real_main[max(0, k - 3):k + 3]} vs model {model_main[max(0, k - 3):k + 3]} "
                           f"(real has {len(real_main)} main events, model {len(model_main)})")
        return
    run.count("stop_points_compared")
    if events and not events[-1][0]:
        run.violation("ends-inside-batch", f"{_desc(spec)}: last event {events[-1]} does not close a batch")
        return
    # only an epoch's last batch may be short (follows from equality with the model; double-checked structurally)
    # ---- epoch announcements: numbers and position relative to the main stream
    def to_main_pos(p, evs):
        return sum(1 for e in evs[:p] if e[1] < M)
    want_epochs = [(e, to_main_pos(p, mdl["events"])) for e, p in mdl["epochs"]]
    if spec["main_kind"] != "rec_noepoch" and hasattr(main, "set_epoch"):
        got = [(e, to_main_pos(p, events)) for e, p in main.epoch_log]
        run.count("epoch_announcements_compared", len(got))
        if got != want_epochs:
            run.violation("epoch-announcement", f"{_desc(spec)}: set_epoch calls (epoch, main-stream position) {got} vs model {want_epochs}")
            return
        # announced before the epoch's iteration starts
        iters = [(e, to_main_pos(p, events)) for e, p in main.iter_log]
        if iters != want_epochs:
            run.violation("epoch-iteration-start", f"{_desc(spec)}: main iterations started at {iters} vs model {want_epochs}")
            return
    else:
        iters = [to_main_pos(p, events) for _, p in main.iter_log]
        run.count("epoch_announcements_compared", len(iters))
        if iters != [p for _, p in want_epochs]:
            run.violation("epoch-iteration-start", f"{_desc(spec)}: main iterations started at {iters} vs model {[p for _, p in want_epochs]}")
            return

    # ---- the batch sampler view (second real execution on a fresh sampler)
    ok, built2 = call_real(run, lambda: H.build_real(gm, budget, cfgs, spec["seed"], spec["main_kind"], types=spec.get("types"), reconfig=spec.get("reconfig")), crash_key="ctor-crash", what="InterleavedSampler(...)")
    if not ok:
        return
    s2 = built2[0]
    if spec["main_kind"] in ("rec", "rec_noepoch", "torch_seq", "kd_dist", "torch_dist2", "kd_dist2"):  # reproducible draws
        def batches():
            held = []  # the batch objects are kept (as a DataLoader's index queue / prefetching does) and read after the iteration
            if spec["seed"] % 4 == 1 and spec["main_kind"] in ("rec", "torch_seq", "kd_dist", "torch_dist2", "kd_dist2"):  # draws that depend on the announced epoch only
                # a pass over the batch sampler is started and abandoned after a few batches (a peek, a `break` in the training loop):
                # the next pass is a whole pass again
                run.count("abandoned_batch_sampler_passes")
                it0 = iter(s2.batch_sampler)
                for _ in range(1 + spec["seed"] % 3):
                    if next(it0, None) is None:
                        break
                if spec["seed"] % 8 == 1:
                    del it0  # abandoned and collected; otherwise it stays suspended at its yield while the next pass runs
            with H.StepBudget(200 * cap + 5000, H.sched_codes(), what="batch sampler"):
                for b in s2.batch_sampler:
                    held.append(b)
                    if len(held) > cap:
                        break
            return [[int(i) for i in b] for b in held]
        ok, got = call_real(run, batches, what="list(sampler.batch_sampler)")
        if not ok:
            return
        want, rest = H.batches_of(mdl["events"])
        run.count("batch_sampler_runs")
        got_main = [b for b in got if b and b[0] < M]
        want_main = [b for b in want if b and b[0] < M]
        if got_main != want_main or rest:
            run.violation("batch-sampler", f"{_desc(spec)}: main batches from batch_sampler {got_main[:6]}… vs model {want_main[:6]}…")
            return
    # ---- a second iteration of the SAME sampler object starts from the beginning again (no state survives an iteration)
    if spec["main_kind"] in ("rec", "torch_seq", "kd_dist", "torch_dist2", "kd_dist2") and spec["seed"] % 3 == 0:  # draws that depend on the announced epoch only
        first = list(events)
        del events[:]
        ok, finished2 = call_real(run, lambda: H.consume(sampler, events, cap), what="iterating the same InterleavedSampler a second time")
        if not ok:
            return
        run.count("reiterations_compared")
        if not finished2 or _main_only(events, M) != _main_only(first, M):
            run.violation("second-iteration-differs", f"{_desc(spec)}: iterating the same sampler object again gives a different main stream "
                                                      f"({len(_main_only(events, M))}{'+' if not finished2 else ''} vs {len(_main_only(first, M))} main events; first differing event "
                                                      f"{next((i for i, (a, b) in enumerate(zip(_main_only(events, M), _main_only(first, M))) if a != b), None)})")
            return
    # ---- two live iterators over ONE sampler object, advanced alternately: each is the whole stream (the counters of an iteration belong
    #      to that iteration, not to the sampler object)
    if spec["main_kind"] == "rec" and spec["seed"] % 3 == 1 and len(mdl["events"]) <= 4000:
        ok, built3 = call_real(run, lambda: H.build_real(gm, budget, cfgs, spec["seed"], "rec", types=spec.get("types"), reconfig=spec.get("reconfig")), crash_key="ctor-crash", what="InterleavedSampler(...)")
        if not ok:
            return
        s3 = built3[0]
        stride = 1 + spec["seed"] % 4

        def alternate():
            its = [iter(s3), iter(s3)]
            outs, done = [[], []], [False, False]
            with H.StepBudget(400 * cap + 10000, H.sched_codes(), what="two alternating iterators"):
                while not all(done):
                    for k in (0, 1):
                        for _ in range(stride if k == 0 else 1):
                            if done[k]:
                                break
                            try:
                                ev = next(its[k])
                            except StopIteration:
                                done[k] = True
                                break
                            outs[k].append((bool(ev[0]), int(ev[1])))
                            if len(outs[k]) >= cap:
                                done[k] = True
            return outs
        ok, outs = call_real(run, alternate, what="two live iterators over the same InterleavedSampler")
        if not ok:
            return
        run.count("concurrent_iterator_pairs_compared")
        want_all = [(e[0], e[1]) for e in mdl["events"]]
        for k in (0, 1):
            if outs[k] != want_all:
                d = next((i for i, (a, b) in enumerate(zip(outs[k], want_all)) if a != b), min(len(outs[k]), len(want_all)))
                run.violation("concurrent-iterators-share-state", f"{_desc(spec)}: iterator {k} of two live iterators over one sampler object (advanced alternately, {stride}:1) "
                                                                  f"yields {len(outs[k])} events vs {len(want_all)} of the stream; first difference at event {d}: "
                                                                  f"{outs[k][d:d + 4]} vs {want_all[d:d + 4]}")
                return
    run.sample({"spec": _desc(spec), "main_events": len(real_main), "epochs_announced": [e for e, _ in want_epochs], "head": events[:10]})


def _geom(spec):
    return spec["g"]


def _alignment(g, budget):
    (k, v), = budget.items()
    spe = max(1, H.samples_per_epoch(g))
    if k == "samples":
        return ("s%B", v % g["B"] == 0, "s%E", v % spe == 0)
    if k == "updates":
        return ("u%E", v % (-(-spe // g["B"])) == 0)
    return ("e",)


def _desc(spec):
    g = spec["g"]
    c = [{k: v for k, v in c.items() if v is not None and k.startswith("every")} for c in spec["cfgs"]]
    return f"N={g['N']} M={g['M']} B={g['B']} drop_last={g['drop_last']} D={g['D']} {spec['budget']} main={spec['main_kind']} configs={c}"
