"""Helpers of the C14 check: coordinate-coded images / masks, reference padding, rectangle analysis, a two-member dataset.

Coordinate code (DESIGN 1.4 "id-encoded tensors", reduced to geometry): pixel (h, w) of an input carries
`code = (h + 1) * 128 + (w + 1)` (never 0, exact in float32 / in two uint8 channels for h, w < 127), so that every pixel of
an *output* names the input pixel it came from; 0 is reserved for image padding.
"""
from __future__ import annotations

import numpy as np
import torch
from PIL import Image
import torchvision.transforms.functional as F

from kappadata.datasets.kd_dataset import KDDataset
from kappadata.transforms.base.kd_stochastic_transform import KDStochasticTransform

K = 128


# --------------------------------------------------------------------------------------------- plain inputs (crops)
def make_input(io, c, h, w, data_seed):
    """random content (no two windows equal in practice), tensor float32 (c,h,w) or PIL 'L' / 'RGB'"""
    g = np.random.default_rng(data_seed)
    if io == "tensor":
        return torch.from_numpy(g.random((c, h, w), dtype=np.float32))
    arr = g.integers(0, 256, size=(h, w, 3 if c == 3 else 1), dtype=np.uint8)
    if c == 3:
        return Image.fromarray(arr, mode="RGB")
    return Image.fromarray(arr[:, :, 0], mode="L")


def hw_of(img):
    """(height, width) of a tensor (..., H, W) or PIL image"""
    if torch.is_tensor(img):
        return int(img.shape[-2]), int(img.shape[-1])
    return int(img.size[1]), int(img.size[0])


def norm_padding(padding):
    """-> (left, top, right, bottom) as torchvision documents the three accepted forms"""
    if padding is None:
        return 0, 0, 0, 0
    if isinstance(padding, int):
        return padding, padding, padding, padding
    if len(padding) == 1:
        return padding[0], padding[0], padding[0], padding[0]
    if len(padding) == 2:
        return padding[0], padding[1], padding[0], padding[1]
    return tuple(padding)


def reference_padded(img, size, padding, pad_if_needed, fill, padding_mode):
    """the padded input of a (torchvision-style) random crop, built by hand with torchvision.functional.pad:
    explicit padding first; with pad_if_needed a dimension smaller than the target is padded on both sides by the deficit"""
    th, tw = size
    if padding is not None:
        img = F.pad(img, padding, fill, padding_mode)
    h, w = hw_of(img)
    if pad_if_needed and w < tw:
        img = F.pad(img, [tw - w, 0], fill, padding_mode)
    if pad_if_needed and h < th:
        img = F.pad(img, [0, th - h], fill, padding_mode)
    return img


def iou_ijhw(a, b):
    """intersection over union of two boxes (i, j, h, w), written independently of the repository's helper"""
    ai, aj, ah, aw = a
    bi, bj, bh, bw = b
    ih = min(ai + ah, bi + bh) - max(ai, bi)
    iw = min(aj + aw, bj + bw) - max(aj, bj)
    inter = max(ih, 0) * max(iw, 0)
    return inter / (ah * aw + bh * bw - inter)


# --------------------------------------------------------------------------------------------- coded pairs (semseg)
def code_grid(h, w):
    hh = np.arange(1, h + 1, dtype=np.int64)[:, None]
    ww = np.arange(1, w + 1, dtype=np.int64)[None, :]
    return hh * K + ww


def make_mask(style, h, w, data_seed):
    """int64 label map; 'coord' = every pixel its own label, 'blobs' = few classes in blocks, 'dominant' = one class
    nearly everywhere plus ignore(-1) regions (drives the category-ratio retry of the random crop)"""
    g = np.random.default_rng(data_seed + 17)
    if style == "coord":
        return code_grid(h, w)
    if style == "blobs":
        bh, bw = max(1, h // 4), max(1, w // 4)
        small = g.integers(0, 5, size=(-(-h // bh), -(-w // bw)))
        return np.kron(small, np.ones((bh, bw), dtype=np.int64))[:h, :w].astype(np.int64)
    m = np.full((h, w), 3, dtype=np.int64)
    k = g.integers(0, 4)
    for _ in range(int(k)):
        a, b = int(g.integers(0, h)), int(g.integers(0, w))
        m[a:a + 1 + h // 6, b:b + 1 + w // 6] = int(g.integers(0, 3))
    if g.random() < 0.6:
        a, b = int(g.integers(0, h)), int(g.integers(0, w))
        m[a:a + 1 + h // 3, b:b + 1 + w // 3] = -1
    return m


def make_pair(io, c, h, w, style, data_seed, mdim=2):
    """-> (image, mask, mask_array). image channel 0 (tensor) / channels R,G (PIL) carry the coordinate code"""
    grid = code_grid(h, w)
    m = make_mask(style, h, w, data_seed)
    g = np.random.default_rng(data_seed + 5)
    if io == "tensor":
        x = torch.from_numpy(g.random((c, h, w), dtype=np.float32))
        x[0] = torch.from_numpy(grid.astype(np.float32))
        mt = torch.from_numpy(m.copy())
        return x, (mt.unsqueeze(0) if mdim == 3 else mt), m   # mdim 3: map with a leading channel dimension (1, H, W)
    arr = np.zeros((h, w, 3), dtype=np.uint8)
    arr[:, :, 0] = (grid // K).astype(np.uint8)
    arr[:, :, 1] = (grid % K).astype(np.uint8)
    arr[:, :, 2] = g.integers(1, 256, size=(h, w), dtype=np.uint8)
    return Image.fromarray(arr, mode="RGB"), Image.fromarray(m.astype(np.int32), mode="I"), m


def decode_image(img, normed=False, solarized=False):
    """-> (codes int64 (H,W) with 0 = padding, ok flag: every pixel is an exact code or a padding value)"""
    if torch.is_tensor(img):
        v = img[0].detach().to(torch.float64).numpy()
        if solarized:
            # solarize(threshold=1.) maps every code v >= 1 to 1 - v (< 0, so it is inverted at most once); padding 0 stays
            v = np.where(v < 0, 1.0 - v, v)
        if normed:
            # KDImageRangeNorm maps v -> 2v-1 (exact for the integer codes); padding added afterwards is 0 -> 0.5
            v = (v + 1.0) / 2.0
            pad = (v == 0.0) | (v == 0.5)
            v = np.where(pad, 0.0, v)
        d = np.rint(v)
        ok = bool(np.all(d == v))
        return d.astype(np.int64), ok
    arr = np.asarray(img)
    if arr.ndim != 3 or arr.shape[2] != 3:
        return np.zeros(arr.shape[:2], dtype=np.int64), False
    return arr[:, :, 0].astype(np.int64) * K + arr[:, :, 1].astype(np.int64), True


def mask_array(mask):
    if torch.is_tensor(mask):
        return mask.detach().numpy().astype(np.int64)
    return np.asarray(mask).astype(np.int64)


def expected_mask(codes, orig_mask, pad_value=-1):
    """mask implied by the image: label of the decoded source pixel, pad_value where the image is padding.
    -> (expected, valid) ; valid = every non-padding code names a pixel of the input"""
    h, w = orig_mask.shape
    hh = codes // K - 1
    ww = codes % K - 1
    is_pad = codes == 0
    inside = (hh >= 0) & (hh < h) & (ww >= 0) & (ww < w)
    valid = bool(np.all(is_pad | inside))
    hh = np.clip(hh, 0, h - 1)
    ww = np.clip(ww, 0, w - 1)
    exp = np.where(is_pad, pad_value, orig_mask[hh, ww])
    return exp, valid


def is_window(codes, h, w):
    """codes == code_grid(h, w)[t:t+H', l:l+W'] for the (t, l) named by its first pixel -> (t, l) or None"""
    oh, ow = codes.shape
    t = int(codes[0, 0]) // K - 1
    l = int(codes[0, 0]) % K - 1
    if t < 0 or l < 0 or t + oh > h or l + ow > w:
        return None
    if np.array_equal(codes, code_grid(h, w)[t:t + oh, l:l + ow]):
        return t, l
    return None


class PairDataset(KDDataset):
    """root dataset with the two members a segmentation pipeline needs; hands out fresh copies"""

    def __init__(self, xs, masks):
        super().__init__()
        self.xs = xs
        self.masks = masks

    def getitem_x(self, idx, ctx=None):
        x = self.xs[idx]
        return x.clone() if torch.is_tensor(x) else x.copy()

    def getitem_semseg(self, idx, ctx=None):
        m = self.masks[idx]
        return m.clone() if torch.is_tensor(m) else m.copy()

    def __len__(self):
        return len(self.xs)


class DrawingImageOnly(KDStochasticTransform):
    """harness-side stochastic *image-only* transform (the role colour jitter / blur / noise play in a segmentation
    pipeline): consumes `n_draws` numbers of the injected generator and perturbs only the channels that do not carry the
    coordinate code, so the geometry stays decodable. What it exercises is the wrapper's bookkeeping of the shared
    per-sample generator, not this class."""

    def __init__(self, n_draws=1, **kwargs):
        super().__init__(**kwargs)
        self.n_draws = n_draws

    def __call__(self, x, ctx=None):
        vals = [float(self.rng.random()) for _ in range(self.n_draws)]
        if torch.is_tensor(x) and x.shape[0] > 1:
            x = x.clone()
            x[1:] = (x[1:] + vals[0]) % 1.0
        return x


# --------------------------------------------------------------------------------------------- erase / mask analysis
def runs_per_line(mask2d):
    """max number of maximal runs of True per row"""
    if mask2d.size == 0:
        return 0
    m = mask2d.astype(np.int8)
    starts = (np.diff(np.concatenate([np.zeros((m.shape[0], 1), dtype=np.int8), m], axis=1), axis=1) == 1).sum(axis=1)
    return int(starts.max())


def bounding_rect(mask2d):
    rows = np.flatnonzero(mask2d.any(axis=1))
    cols = np.flatnonzero(mask2d.any(axis=0))
    if len(rows) == 0:
        return None
    return int(rows[0]), int(cols[0]), int(rows[-1] - rows[0] + 1), int(cols[-1] - cols[0] + 1)


def contiguous(idx):
    return len(idx) == 0 or int(idx[-1] - idx[0] + 1) == len(idx)


def divisors(n):
    return [d for d in range(1, n + 1) if n % d == 0]
