"""C20 — global-to-local copy is crash-safe and idempotent (fault enumeration).

Every call of the REAL copy function runs in a forked child with a sys.addaudithook monitor that (a) streams the numbered
file-system operation trace to the parent and (b) SIGKILLs the child *before* the k-th operation touching the sandbox.
For every scenario the single-death sweep k = 1..n is exhaustive at audit-event granularity; chains of 2-3 deaths are
enumerated (small trees, thorough) or sampled. Oracle: directory trees, marker files, mutation traces, result objects.
"""
from __future__ import annotations

import json
import os
import shutil
import signal
import subprocess
import sys
import tempfile
import time
import zipfile
from pathlib import Path

from . import core

LEVEL = "fault_enumeration"
RULE = ("scenarios = {copy_folder_from_global_to_local, copy_imagefolder_from_global_to_local} x source format {raw folder with nested "
        "dirs/binary/empty files, single zip, folder of zips} x relative_path {none, nested} x parent dir {exists, missing} (+ user-provided "
        "destination folders, + unzip workers in thorough); a case = (scenario, kill sequence k1[,k2[,k3]]) where the process is SIGKILLed "
        "before the k-th file-system audit event of the respective attempt, followed by an uninterrupted call and one more call; the "
        "single-death sweep enumerates every k of every scenario (exhaustive); non-trivial = at least one death; distinct by (scenario, kills)")
ASSUMPTIONS = [
    "process death only (SIGKILL): the page cache survives, so completed write() calls are visible to the next attempt",
    "crash points are the boundaries between Python-level file-system operations (audit events fire before the operation); thorough adds syscall-level kills via strace",
    "source trees contain no files named like the marker files; folders of zips contain only zips",
    "a call that raises instead of returning is not judged (the property speaks about normal returns); it is counted",
]
MONITORS = ["single_death_cases", "recovery_calls_checked", "idempotent_calls_checked", "fs_events_observed", "user_folder_cases"]
NO_SHARD = False
THOROUGH_WATCHDOG_S = 5400

START, END = "autocopy_start.txt", "autocopy_end.txt"
# not part of the dataset: the two markers, and the README-like files of a 'mostly zips' source folder (whether an
# implementation copies them along or not is not fixed by the property)
_NOT_DATA = (START, END, "README.md", "LICENSE", "notes.txt")
_MUT_EVENTS = {"os.mkdir", "os.rmdir", "os.remove", "os.rename", "os.utime", "os.chmod", "os.chown", "os.link", "os.symlink", "os.truncate",
               "shutil.copyfile", "shutil.copymode", "shutil.copystat", "shutil.copytree", "shutil.rmtree", "shutil.move", "os.replace"}
_FS_EVENTS = _MUT_EVENTS | {"open", "os.listdir", "os.scandir"}


# ------------------------------------------------------------------------------------------------ source material
import functools  # noqa: E402


@functools.lru_cache(maxsize=None)
def _tiny_zip():
    import io
    buf = io.BytesIO()
    with zipfile.ZipFile(buf, "w") as z:
        z.writestr(zipfile.ZipInfo("inside.txt", date_time=(2020, 1, 1, 0, 0, 0)), b"zipped payload")
    return buf.getvalue()


def _files(fmt):
    """relative path -> bytes (None = directory); deterministic binary content (cached: treat as read-only)"""
    def blob(tag, n):
        return bytes((i * 31 + len(tag) * 7 + ord(tag[0])) % 256 for i in range(n))
    if fmt == "raw":
        return {"a.bin": blob("a", 300), "d1": None, "d1/b.bin": blob("b", 70000), "d1/d2": None, "d1/d2/c.txt": b"hello\n",
                "d1/empty.dat": b"", "e": None, "d1/clip_002..wav": blob("w", 90),  # '..' inside a file name is legal
                "attachment.zip": _tiny_zip()}  # ONE zip among many plain files: a plain folder, copied as it is (the zip stays a zip)
    if fmt == "raw_containers":
        # a PLAIN folder whose files are mostly zip containers that are not named *.zip (numpy / torch / java archives): copied as it is
        return {"weights.npz": _tiny_zip(), "shard_0.pt": _tiny_zip() + b"", "model.jar": _tiny_zip(), "labels.csv": b"plain"}
    if fmt == "zip":
        return {"top.bin": blob("t", 500), "k": None, "k/x.bin": blob("x", 66000), "k/y.txt": b"y", "k/Dr..Who_s01.wav": blob("d", 50)}
    if fmt == "zips":
        return {"batch_0.zip": {"p/one.bin": blob("1", 400), "two.bin": blob("2", 10)},
                "batch_1.zip": {"p/three.bin": blob("3", 66000)},
                "batch_2.zip": {"q/r/four.txt": b"4444", "q/take..1.wav": blob("k", 120), "...hidden": b"h"}}
    raise ValueError(fmt)


def _write_tree(base, files):
    for rel, data in files.items():
        p = base / rel
        if data is None:
            p.mkdir(parents=True, exist_ok=True)
        else:
            p.parent.mkdir(parents=True, exist_ok=True)
            p.write_bytes(data)


def _make_source(root, scn):
    """creates the global side; returns expected destination content {rel: bytes|None}"""
    g = root / "global"
    rel = scn["rel"]
    src = g / rel if rel else g / "ds"
    fmt = scn["fmt"]
    expected = {}
    if fmt == "raw_containers":
        files = _files(fmt)
        _write_tree(src, files)
        expected = dict(files)
    elif fmt == "raw":
        files = _files("raw")
        _write_tree(src, files)
        expected = dict(files)
        # a file of the dataset that is a relative symlink to a shared file OUTSIDE the dataset folder: the local copy must
        # hold its bytes (a re-created relative link would dangle on the local side)
        shared = root / "global_shared" / "vocab.bin"
        shared.parent.mkdir(parents=True, exist_ok=True)
        shared.write_bytes(b"shared vocabulary \x00\x01\x02" * 9)
        link = src / "d1" / "vocab_link.bin"
        if not link.exists():
            os.symlink(os.path.relpath(shared, link.parent), link)
        expected["d1/vocab_link.bin"] = shared.read_bytes()
    elif fmt == "zip":
        files = _files("zip")
        src.parent.mkdir(parents=True, exist_ok=True)
        with zipfile.ZipFile(src.with_suffix(".zip"), "w") as z:
            for r, d in files.items():
                if d is None:
                    z.writestr(r + "/", b"")
                else:
                    z.writestr(r, d)
        expected = dict(files)
    else:
        src.mkdir(parents=True, exist_ok=True)
        if fmt == "zips_half":
            # 'mostly zips' is documented as len(zips) >= len(items) // 2 (README-like files are allowed): 3 zips + 3 other files
            for extra in ("README.md", "LICENSE", "notes.txt"):
                (src / extra).write_bytes(b"not part of the dataset: " + extra.encode())
        for zname, content in _files("zips").items():
            with zipfile.ZipFile(src / zname, "w") as z:
                for r, d in content.items():
                    z.writestr(r, d)
            prefix = "" if scn["fn"] == "folder" else zname[:-4] + "/"
            for r, d in content.items():
                expected[prefix + r] = d
    # implied parent directories
    for r in list(expected):
        parts = r.split("/")[:-1]
        for j in range(1, len(parts) + 1):
            expected.setdefault("/".join(parts[:j]), None)
    return expected


def _paths(root, scn):
    """(global_path, local_path, relative_path, dst)"""
    g, l = root / "global", root / ("local" if scn["parent"] else "local_missing/deeper")
    rel = scn["rel"]
    if rel:
        return g, l, rel, l / rel
    return g / "ds", l / "ds", None, l / "ds"


def _snapshot(dst):
    """{rel: bytes|None} of everything below dst (None for directories); {} if dst is missing -> returns None"""
    if not dst.exists():
        return None
    out = {}
    for p in sorted(dst.rglob("*")):
        r = str(p.relative_to(dst))
        if p.is_symlink() and not p.exists():
            out[r] = b"<dangling symlink -> " + os.readlink(p).encode() + b">"
        else:
            out[r] = None if p.is_dir() else p.read_bytes()
    return out


def _state_shape(snap, expected):
    if snap is None:
        return "absent"
    body = {k: v for k, v in snap.items() if k not in _NOT_DATA}
    full = body == expected
    return f"dir{'+start' if START in snap else ''}{'+end' if END in snap else ''}:{'complete' if full else 'empty' if not body else 'partial'}"


# ------------------------------------------------------------------------------------------------ child execution
_server = None


def _get_server():
    """the light fork server (see h20_server.py); restarted if it died"""
    global _server
    if _server is None or _server.poll() is not None:
        _server = subprocess.Popen([sys.executable, "-u", str(Path(__file__).with_name("h20_server.py")), str(core.REPO)],
                                   stdin=subprocess.PIPE, stdout=subprocess.PIPE, text=True, bufsize=1)
        hello = json.loads(_server.stdout.readline())
        if not hello.get("ready") or not hello["folder_file"].startswith(str(core.REPO)):
            raise core.Inconclusive(f"fork server did not start from the repository under test: {hello}")
        import atexit
        atexit.register(lambda: _server and _server.poll() is None and _server.kill())
    return _server


def _send(req):
    srv = _get_server()
    srv.stdin.write(json.dumps(req) + "\n")
    srv.stdin.flush()
    line = srv.stdout.readline()
    if not line:
        raise core.Inconclusive("fork server died")
    res = json.loads(line)
    res["events"] = [tuple(e) for e in res["events"]]
    return res


def _call_in_child(root, scn, kill_at=None, workers=0, fail_at=None, fsize_limit=None):
    """runs the real function in a forked child (of the light fork server) under the audit monitor.
    returns dict(status=returned|killed|raised, result=..., events=[(name, paths, mutating)], err=str)"""
    g, l, rel, dst = _paths(root, scn)
    req = {"root": str(root), "fn": scn["fn"], "g": str(g), "l": str(l), "rel": rel, "kill_at": kill_at, "workers": workers, "fail_at": fail_at, "fsize_limit": fsize_limit}
    srv = _get_server()
    srv.stdin.write(json.dumps(req) + "\n")
    srv.stdin.flush()
    line = srv.stdout.readline()
    if not line:
        raise core.Inconclusive("fork server died")
    res = json.loads(line)
    res["events"] = [tuple(e) for e in res["events"]]
    return res


# ------------------------------------------------------------------------------------------------ scenarios / generation
def _scenarios():
    out = []
    for fn in ("folder", "imagefolder"):
        for fmt in ("raw", "zip", "zips", "zips_half"):
            for rel in (None, "sub/ds"):
                for parent in (True, False):
                    out.append({"fn": fn, "fmt": fmt, "rel": rel, "parent": parent})
    for fn in ("folder", "imagefolder"):
        out.append({"fn": fn, "fmt": "raw_containers", "rel": None, "parent": True})
    # source / destination names with glob metacharacters and spaces ("audioset[2M]", "fold [1-4]")
    for fn in ("folder", "imagefolder"):
        for fmt in ("raw", "zip", "zips"):
            out.append({"fn": fn, "fmt": fmt, "rel": "sub/ds[2M] v*1", "parent": True, "glob": True})
    for fn in ("folder", "imagefolder"):
        for fmt, sfmt in (("raw", "zip"), ("zip", "raw"), ("zips", "raw")):
            out.append({"fn": fn, "fmt": fmt, "rel": "sub/ds", "parent": True, "sibling": sfmt})
        # related names in one local parent folder ("ds" next to "ds.v2"): temp / marker names derived from the destination name must not reach the sibling
        for fmt, sfmt in (("raw", "raw"), ("zip", "zips")):
            out.append({"fn": fn, "fmt": fmt, "rel": "sub/ds", "parent": True, "sibling": sfmt, "sib_suffix": ".v2"})
    return out


def _count_events(scn):
    root = Path(tempfile.mkdtemp(prefix="kdv_c20_"))
    try:
        _prepare(root, scn)
        r = _call_in_child(root, scn)
        return len(r["events"]) if r["status"] == "returned" else None, r
    finally:
        shutil.rmtree(root, ignore_errors=True)


def _prepare(root, scn, user=None):
    expected = _make_source(root, scn)
    g, l, rel, dst = _paths(root, scn)
    if scn["parent"]:
        (root / "local").mkdir(parents=True, exist_ok=True)
    if user is not None:
        dst.mkdir(parents=True, exist_ok=True)
        _write_tree(dst, user)
    return expected


def gen_cases(run):
    scns = _scenarios()
    if run.tier == "quick":
        # quick: half of the path variants (plain destination with existing parent; nested relative_path with missing parents)
        scns = [s for s in scns if ((s["rel"] is None) == s["parent"] and not s.get("sibling") and not s.get("glob")) or (s.get("sibling") and s["fn"] == "folder")
                or (s.get("glob") and (s["fn"], s["fmt"]) in (("folder", "zips"), ("folder", "zip"), ("imagefolder", "raw")))]
    rng = run.rng
    shard_i, shard_n = run.shard if run.shard else (0, 1)
    idx = 0

    def mine():
        nonlocal idx
        idx += 1
        return (idx - 1) % shard_n == shard_i

    all_single = True
    for scn in scns:
        n, r = _count_events(scn)
        if n is None:
            # the uninterrupted call itself does not return: reported by the k=[] case
            if mine():
                yield {"scn": scn, "kills": [], "_trivial": True}
            all_single = False
            continue
        if mine():
            yield {"scn": scn, "kills": [], "n": n, "_trivial": True}
        sparse = run.tier == "quick" and (scn.get("glob") or scn["fmt"] in ("raw_containers", "zips_half") or scn.get("sib_suffix"))
        for k in range(1, n + 1):
            if sparse and k % 3 != (1 + run.seed) % 3:
                continue  # quick: the variants that differ from a fully swept scenario only in names get every third death point
            if mine():
                yield {"scn": scn, "kills": [k], "n": n}
        # an operation fails with an I/O error instead of the process dying (full disk, flaky network file system): the call may raise,
        # but it must not report - now or later - a copy it did not finish
        structural = [i + 1 for i, e in enumerate(r["events"]) if e[0] in ("os.rename", "os.replace", "os.mkdir", "shutil.rmtree", "os.rmdir")]
        ks = list(range(1, n + 1)) if run.tier == "thorough" else sorted(set(rng.sample(range(1, n + 1), min(n, 1))) | set(structural[::2] if sparse else structural))
        for k in ks:
            if mine():
                yield {"scn": scn, "kills": [k], "n": n, "fail": True}
        # writes beyond a size limit fail (also inside unzip workers)
        for lim, w in ((65536, 0), (65536, 2), (1000, 2)):
            if run.tier == "quick" and not (scn["rel"] is None and scn["parent"] and not scn.get("sibling") and (w == 0 or (scn["fmt"] == "zips" and lim == 65536 and scn["fn"] == "folder"))):
                continue  # quick: the plain path variant only; unzip workers (a process pool per call) for the folder-of-zips format only
            if (scn["fmt"] in ("zips", "zip") or w == 0) and mine():
                yield {"scn": scn, "kills": [lim], "n": n, "fail": "fsize", "workers": w}
        # chains of deaths
        small = scn["fmt"] == "zip" and scn["rel"] is None
        if scn["fmt"] == "zips_half" and (scn["rel"] is not None or not scn["parent"]):
            continue  # the boundary format is swept for the plain path variant only
        if run.tier == "thorough" and small:
            for k1 in range(1, n + 1):
                for k2 in range(1, n + 8):
                    if mine():
                        yield {"scn": scn, "kills": [k1, k2], "n": n}
        n_pairs = 4 if run.tier == "quick" else 160
        for _ in range(n_pairs):
            spec = {"scn": scn, "kills": [rng.randint(1, n), rng.randint(1, n + 6)], "n": n}
            if rng.random() < 0.35:
                spec["kills"].append(rng.randint(1, n + 6))
            if mine():
                yield spec
    # user-provided destination folders (must be left untouched)
    for scn in scns:
        for uname, user in (("empty", {}), ("files", {"mine.txt": b"user data", "sub": None, "sub/z.bin": b"\x00\x01"})):
            if mine():
                yield {"scn": scn, "kills": [], "user": uname, "user_files": {k: (v.decode("latin1") if v is not None else None) for k, v in user.items()}}
    # several calls in ONE process with the source re-packed in between (raw folder -> folder of zips and back): state that
    # survives between two calls of the same process must not leak into the second copy
    for direction in ("raw->zips", "zips->raw"):
        if mine():
            yield {"scn": {"fn": "folder", "fmt": "raw" if direction.startswith("raw") else "zips", "rel": None, "parent": True}, "kills": [], "same_process": direction}
    # two DIFFERENT datasets copied one after the other by one process (train / test): the finished first copy is never redone or touched
    for fmt in ("zips", "zip", "raw"):
        for fn in ("folder", "imagefolder"):
            if mine():
                yield {"scn": {"fn": fn, "fmt": fmt, "rel": None, "parent": True}, "kills": [], "same_process": "A-then-B"}
    if run.tier == "quick":
        # one uninterrupted folder-of-zips copy through joblib workers (3 zips on 2 workers: more jobs than workers, not divisible)
        wscn = {"fn": "folder", "fmt": "zips", "rel": None, "parent": True}
        if mine():
            yield {"scn": wscn, "kills": [], "workers": 2}
    if run.tier == "thorough":
        # unzip workers (joblib / loky processes): expensive, a few sampled deaths
        for scn in [s for s in scns if s["fmt"] == "zips" and s["rel"] is None and s["parent"]]:
            for kills in ([], [3], [6], [9]):
                if mine():
                    yield {"scn": scn, "kills": kills, "workers": 2}
        # syscall-level deaths (mid-file writes) through strace fault injection
        for scn in [s for s in scns if s["parent"]]:
            for j in range(30):
                if mine():
                    yield {"scn": scn, "strace_frac": round((j + rng.random()) / 30, 4), "kills": ["strace"]}
    run.exhaustive = all_single


# ------------------------------------------------------------------------------------------------ case execution
def _desc(scn, extra=""):
    sib = f", sibling split copied before ({scn['sibling']})" if scn.get("sibling") else ""
    return f"copy_{scn['fn']}(fmt={scn['fmt']}, relative_path={scn['rel']!r}, parent_exists={scn['parent']}{sib}){extra}"


def _check_result_truth(run, scn, res, pre_shape, what):
    """the returned result says truthfully what was done"""
    r = res["result"]
    want_deleted = pre_shape.startswith("dir+start") and "+end" not in pre_shape
    want_copied = not (pre_shape.startswith("dir+start+end") or (pre_shape.startswith("dir") and "+start" not in pre_shape))
    muts = [e for e in res["events"] if e[2]]
    if bool(r.get("was_copied")) != bool(muts) or bool(r.get("was_copied")) != want_copied:
        run.violation("result:was_copied", f"{what}: result {r} but the call performed {len(muts)} mutating file-system operations on pre-state '{pre_shape}'")
        return False
    if bool(r.get("was_deleted")) != want_deleted:
        run.violation("result:was_deleted", f"{what}: result {r}; pre-state was '{pre_shape}' ({'an incomplete automatic copy had to be removed' if want_deleted else 'nothing to delete'})")
        return False
    if r.get("was_copied"):
        if scn["fn"] == "folder":
            if r.get("source_format") != scn["fmt"].split("_")[0]:
                run.violation("result:source_format", f"{what}: source_format={r.get('source_format')!r} for a '{scn['fmt']}' source")
                return False
        else:
            if (bool(r.get("was_zip")), bool(r.get("was_zip_classwise"))) != (scn["fmt"] == "zip", scn["fmt"].startswith("zips")):
                run.violation("result:source_format", f"{what}: was_zip={r.get('was_zip')}, was_zip_classwise={r.get('was_zip_classwise')} for a '{scn['fmt']}' source")
                return False
    return True


def run_case(run, spec):
    scn = spec["scn"]
    if "strace_frac" in spec:
        return _run_strace(run, spec)
    if "same_process" in spec:
        return _run_same_process(run, spec)
    workers = spec.get("workers", 0)
    root = Path(tempfile.mkdtemp(prefix="kdv_c20_"))
    try:
        user = None
        if "user" in spec:
            user = {k: (v.encode("latin1") if v is not None else None) for k, v in spec["user_files"].items()}
        expected = _prepare(root, scn, user=user)
        g, l, rel, dst = _paths(root, scn)
        sib = None
        if scn.get("sibling"):
            # a sibling split ("<rel>_other") of the same local root was copied completely before: it must stay complete and untouched
            sib_scn = dict(scn, rel=scn["rel"] + scn.get("sib_suffix", "_other"), fmt=scn["sibling"], sibling=None)
            sib_expected = _make_source(root, sib_scn)
            r0 = _call_in_child(root, sib_scn, workers=0)
            sib_dst = _paths(root, sib_scn)[3]
            sib = (sib_scn, sib_expected, sib_dst, _snapshot(sib_dst))
            if r0["status"] != "returned":
                run.count("calls_raised")
                return
        src_before = _snapshot(root / "global")
        run.cover(scn["fn"], scn["fmt"], scn["rel"] is not None, scn["parent"], len(spec["kills"]), "user" in spec, workers)

        if user is not None:
            # user-provided folder that existed before any automatic copy: left untouched, truthfully reported
            run.count("user_folder_cases")
            before = _snapshot(dst)
            res = _call_in_child(root, scn, workers=workers)
            run.count("fs_events_observed", len(res["events"]))
            what = _desc(scn, f" on a user-provided {spec['user']} destination")
            if res["status"] != "returned":
                run.count("calls_raised")
                return
            muts = [e for e in res["events"] if e[2]]
            if _snapshot(dst) != before or muts:
                run.violation("user-folder-modified", f"{what}: the folder was modified (mutating operations: {muts[:6]})")
                return
            if res["result"].get("was_copied") or res["result"].get("was_deleted"):
                run.violation("result:was_copied", f"{what}: result {res['result']} although nothing was (or may be) done")
            return

        # ---- interrupted attempts
        shapes = []
        for j, k in enumerate(spec["kills"]):
            if spec.get("fail") == "fsize":
                res = _call_in_child(root, scn, fsize_limit=k, workers=workers)   # every write beyond k bytes fails with EFBIG (quota / full disk)
                run.count("io_error_injections")
            elif spec.get("fail"):
                res = _call_in_child(root, scn, fail_at=k, workers=workers)   # the k-th file-system operation fails with EIO
                run.count("io_error_injections")
            else:
                res = _call_in_child(root, scn, kill_at=k, workers=workers)
            run.count("fs_events_observed", len(res["events"]))
            snap = _snapshot(dst)
            shape = _state_shape(snap, expected)
            shapes.append((k, res["status"], shape))
            run.cover("post-crash-state", shape)
            notes = run.notes.setdefault("distinct_post_crash_states", [])
            if shape not in notes:
                notes.append(shape)
            if snap is not None and START in snap and END in snap and {a: b for a, b in snap.items() if a not in _NOT_DATA} != expected:
                run.violation("state:looks-complete-but-is-not", f"{_desc(scn)} kills={spec['kills']}: after attempt {j + 1} both markers exist but the tree is incomplete")
                return
            if res["status"] == "returned":
                # the kill point lay beyond this attempt's operations, or the injected error was absorbed: a call that returns normally
                # has a complete copy behind it
                body_j = {a: b for a, b in (snap or {}).items() if a not in _NOT_DATA}
                if body_j != expected or snap is None or START not in snap or END not in snap:
                    why = "an operation failed with an I/O error" if spec.get("fail") else "the kill point was not reached"
                    run.violation("returns-on-incomplete-copy:after-io-error" if spec.get("fail") else "returns-on-incomplete-copy",
                                  f"{_desc(scn)} {'faults' if spec.get('fail') else 'kills'}={spec['kills']}: attempt {j + 1} returned normally ({res['result']}) although {why} and the "
                                  f"destination is '{shape}' (missing {sorted(set(expected) - set(body_j))[:4]})")
                    return
        if spec["kills"]:
            run.count("single_death_cases" if len(spec["kills"]) == 1 else "chain_death_cases")

        # ---- the uninterrupted call
        pre = _snapshot(dst)
        pre_shape = _state_shape(pre, expected)
        res = _call_in_child(root, scn, workers=workers)
        run.count("fs_events_observed", len(res["events"]))
        what = f"{_desc(scn)} after deaths {shapes}"
        if res["status"] == "killed" or res["status"] == "lost":
            raise core.Inconclusive(f"child vanished without result: {res}")
        if res["status"] == "raised":
            run.count("calls_raised")
            notes = run.notes.setdefault("raised_examples", [])
            if len(notes) < 5:
                notes.append(f"{what}: {res['err'][:200]}")
            return
        run.count("recovery_calls_checked")
        post = _snapshot(dst)
        body = {a: b for a, b in (post or {}).items() if a not in _NOT_DATA}
        if body != expected:
            missing = sorted(set(expected) - set(body))[:5]
            extra = sorted(set(body) - set(expected))[:5]
            diff = sorted(k for k in set(body) & set(expected) if body[k] != expected[k])[:5]
            key = "returns-on-incomplete-copy"
            if pre_shape.startswith("dir") and "+start" not in pre_shape:
                key += ":unmarked-directory-left-by-interrupted-attempt"
            run.violation(key, f"{what}: the call returned normally ({res['result']}) on pre-state '{pre_shape}' but the destination is not a complete copy "
                               f"(missing {missing}, unexpected {extra}, different {diff})")
            return
        if post is None or START not in post or END not in post:
            run.violation("markers-missing-after-success", f"{what}: returned normally but markers are {sorted(set(post or {}) & {START, END})}")
            return
        if _snapshot(root / "global") != src_before:
            run.violation("source-modified", f"{what}: the source tree was modified")
            return
        if not _check_result_truth(run, scn, res, pre_shape, what):
            return

        # ---- one more call on the completed copy: never deleted or redone
        res2 = _call_in_child(root, scn, workers=workers)
        run.count("fs_events_observed", len(res2["events"]))
        if res2["status"] == "returned":
            run.count("idempotent_calls_checked")
            muts = [e for e in res2["events"] if e[2]]
            if muts or _snapshot(dst) != post:
                run.violation("completed-copy-touched", f"{what}: a further call on the completed copy performed mutating operations {muts[:6]}")
                return
            if res2["result"].get("was_copied") or res2["result"].get("was_deleted"):
                run.violation("result:was_copied", f"{what}: a further call on the completed copy reports {res2['result']}")
                return
        else:
            run.count("calls_raised")
        if sib is not None:
            run.count("sibling_split_cases")
            now = _snapshot(sib[2])
            if now != sib[3] or {a: b for a, b in (now or {}).items() if a not in _NOT_DATA} != sib[1]:
                run.violation("sibling-copy-damaged", f"{what}: the completed copy of the sibling split {sib[0]['rel']!r} under the same local root was modified / is no longer complete")
                return
            res3 = _call_in_child(root, sib[0])
            if res3["status"] == "returned" and (res3["result"].get("was_copied") or [e for e in res3["events"] if e[2]]):
                run.violation("completed-copy-touched", f"{what}: a further call for the completed sibling split {sib[0]['rel']!r} copied again ({res3['result']})")
                return
        if len(run.samples) < 6 and spec["kills"]:
            run.sample({"scenario": _desc(scn), "kills": spec["kills"], "states_after_each_death": shapes, "recovery_result": res["result"],
                        "recovery_ops": len(res["events"])})
    finally:
        shutil.rmtree(root, ignore_errors=True)


# ------------------------------------------------------------------------------------------------ strace (syscall level)
_SYSCALLS = "write,sendfile,copy_file_range,mkdir,mkdirat,rename,renameat,renameat2,unlink,unlinkat,rmdir"


def _strace_cmd(scn, g, l, rel, extra):
    return ["strace", "-f", "-qq"] + extra + [sys.executable, str(Path(__file__).with_name("h20_server.py")), str(core.REPO), "--oneshot",
                                               scn["fn"], str(g), str(l), rel or "-"]


def _run_strace(run, spec):
    """syscall-level death: the process is SIGKILLed at the k-th mutating syscall (write / sendfile / copy_file_range / mkdir /
    rename / unlink ...) of the copy, i.e. also in the middle of a file; then an uninterrupted call must recover"""
    scn = spec["scn"]
    root = Path(tempfile.mkdtemp(prefix="kdv_c20s_"))
    try:
        expected = _prepare(root, scn)
        g, l, rel, dst = _paths(root, scn)
        # counting run (no injection) on a throw-away destination: how many such syscalls does a full copy perform?
        trace = root / "trace.txt"
        try:
            p = subprocess.run(_strace_cmd(scn, g, root / "count_run" / "ds" if rel is None else root / "count_run", rel, ["-o", str(trace), "-e", f"trace={_SYSCALLS}"]),
                               capture_output=True, text=True, timeout=300)
        except subprocess.TimeoutExpired:
            raise core.Inconclusive("strace counting run hit the wall-clock watchdog")
        if "RESULT" not in p.stdout:
            raise core.Inconclusive(f"strace counting run failed: {p.stderr[-300:]}")
        import re
        seq = [m.group(1) for m in (re.match(r"^\d+\s+(\w+)\(", ln) for ln in open(trace)) if m]
        n_sys = len(seq)
        if n_sys < 3:
            raise core.Inconclusive(f"strace counted only {n_sys} syscalls")
        when = max(1, min(n_sys, int(round(spec["strace_frac"] * n_sys))))
        # strace counts `when` per syscall name: kill at the k-th invocation of the syscall that is the `when`-th overall
        name = seq[when - 1]
        k = seq[:when].count(name)
        try:
            p = subprocess.run(_strace_cmd(scn, g, l, rel, ["-o", "/dev/null", "-e", f"trace={name}", "-e", f"inject={name}:signal=SIGKILL:when={k}"]),
                               capture_output=True, text=True, timeout=300)
        except subprocess.TimeoutExpired:
            raise core.Inconclusive("strace run hit the wall-clock watchdog")
        run.cover("strace-kill-at", name)
        run.count("strace_runs")
        if "RESULT" in p.stdout:
            run.count("strace_survived")
        else:
            run.count("strace_deaths")
        snap = _snapshot(dst)
        shape = _state_shape(snap, expected)
        run.cover("strace-post-state", shape)
        notes = run.notes.setdefault("distinct_post_crash_states_syscall_level", [])
        if shape not in notes:
            notes.append(shape)
        if snap is not None and START in snap and END in snap and {a: b for a, b in snap.items() if a not in _NOT_DATA} != expected:
            run.violation("state:looks-complete-but-is-not", f"{_desc(scn)} after a syscall-level death at mutating syscall {when}/{n_sys}: both markers exist but the tree is incomplete")
            return
        res = _call_in_child(root, scn)
        if res["status"] != "returned":
            run.count("calls_raised")
            return
        run.count("recovery_calls_checked")
        post = _snapshot(dst)
        body = {a: b for a, b in (post or {}).items() if a not in _NOT_DATA}
        if body != expected:
            key = "returns-on-incomplete-copy"
            if shape.startswith("dir") and "+start" not in shape:
                key += ":unmarked-directory-left-by-interrupted-attempt"
            run.violation(key, f"{_desc(scn)} after a syscall-level death (mutating syscall {when}/{n_sys}, state '{shape}'): returned normally ({res['result']}) but the destination is not a complete copy")
            return
        if not _check_result_truth(run, scn, res, shape, f"{_desc(scn)} after a syscall-level death ({when}/{n_sys})"):
            return
        if len(run.samples) < 8:
            run.sample({"scenario": _desc(scn), "syscall_level_death_at": f"{when}/{n_sys}", "state_after_death": shape, "recovery_result": res["result"]})
    finally:
        shutil.rmtree(root, ignore_errors=True)


# ------------------------------------------------------------------------------------------------ same-process sequences
def _run_two_datasets(run, spec):
    """dataset A, then another dataset B (same format, other content), then A again - all in one process"""
    scn = spec["scn"]
    root = Path(tempfile.mkdtemp(prefix="kdv_c20q_"))
    try:
        exp_a = _prepare(root, scn)
        g, l, rel, dst_a = _paths(root, scn)
        # dataset B: same layout under another name, every payload byte-reversed and prefixed (so A and B never agree on a file)
        scn_b = dict(scn, rel="ds_second")
        exp_b0 = _make_source(root, scn_b)
        gb = root / "global"
        src_b = gb / "ds_second"
        if scn["fmt"] == "raw":
            for q in sorted(src_b.rglob("*")):
                if q.is_file() and not q.is_symlink():
                    q.write_bytes(b"B:" + q.read_bytes()[::-1])
            exp_b = {k: (v if v is None or k.endswith("vocab_link.bin") else b"B:" + v[::-1]) for k, v in exp_b0.items()}
        else:
            exp_b = exp_b0  # zip sources: identical member content is fine, what matters is that A's files are not rewritten
        dst_b = root / "local" / "ds_second"
        fnname = scn["fn"]
        call_a = {"fn": fnname, "g": str(g), "l": str(l), "rel": None, "workers": 0}
        call_b = {"fn": fnname, "g": str(gb), "l": str(root / "local"), "rel": "ds_second", "workers": 0}
        res = _send({"root": str(root), "seq": [{"call": call_a}, {"stat": str(dst_a)}, {"call": call_b}, {"stat": str(dst_a)}, {"call": call_a}, {"stat": str(dst_a)}]})
        run.count("fs_events_observed", len(res["events"]))
        run.cover("same-process", "A-then-B", scn["fn"], scn["fmt"])
        what = f"{scn['fn']} copy of dataset A ({scn['fmt']}), then of another dataset B, then of A again, all in one process"
        if res["status"] != "returned":
            run.count("calls_raised")
            notes = run.notes.setdefault("raised_examples", [])
            if len(notes) < 5:
                notes.append(f"{what}: {str(res.get('err'))[:200]}")
            return
        run.count("same_process_sequences")
        r_a, st1, r_b, st2, r_a2, st3 = res["result"]["results"]
        for name, d, exp in (("A", dst_a, exp_a), ("B", dst_b, exp_b)):
            snap = _snapshot(d)
            body = {a: b for a, b in (snap or {}).items() if a not in _NOT_DATA}
            if body != exp:
                run.violation("returns-on-incomplete-copy:same-process-sequence", f"{what}: the destination of {name} is not a complete copy of its source "
                                                                                 f"(missing {sorted(set(exp) - set(body))[:4]}, unexpected {sorted(set(body) - set(exp))[:4]}, "
                                                                                 f"different {sorted(k for k in set(body) & set(exp) if body[k] != exp[k])[:4]})")
                return
        if st1["stat"] != st2["stat"] or st2["stat"] != st3["stat"]:
            changed = sorted(k for k in set(st1["stat"]) | set(st3["stat"]) if st1["stat"].get(k) != st2["stat"].get(k) or st2["stat"].get(k) != st3["stat"].get(k))
            run.violation("completed-copy-touched:same-process-sequence", f"{what}: files of the finished copy of A were re-created or rewritten by a later call "
                                                                         f"(inode / mtime / size changed for {changed[:5]})")
            return
        if not r_a.get("was_copied") or not r_b.get("was_copied") or r_a2.get("was_copied"):
            run.violation("result:was_copied", f"{what}: results {r_a}, {r_b}, {r_a2} (expected copied, copied, not copied)")
            return
    finally:
        shutil.rmtree(root, ignore_errors=True)


def _run_same_process(run, spec):
    if spec["same_process"] == "A-then-B":
        return _run_two_datasets(run, spec)
    scn = spec["scn"]
    root = Path(tempfile.mkdtemp(prefix="kdv_c20p_"))
    try:
        expected = _prepare(root, scn)
        g, l, rel, dst = _paths(root, scn)
        to = "zips" if spec["same_process"] == "raw->zips" else "raw"
        if spec["same_process"] == "zips->raw":
            pass
        l2 = root / "local_second" / "ds"
        call1 = {"fn": "folder", "g": str(g), "l": str(l), "rel": None, "workers": 0}
        call2 = {"fn": "folder", "g": str(g), "l": str(l2), "rel": None, "workers": 0}
        (root / "local_second").mkdir(parents=True, exist_ok=True)
        res = _send({"root": str(root), "seq": [{"call": call1}, {"repack": {"src": str(g), "to": to}}, {"call": call2}]})
        run.count("fs_events_observed", len(res["events"]))
        run.cover("same-process", spec["same_process"])
        what = f"two copies of the same source path in one process, the source re-packed in between ({spec['same_process']})"
        if res["status"] != "returned":
            run.count("calls_raised")
            notes = run.notes.setdefault("raised_examples", [])
            if len(notes) < 5:
                notes.append(f"{what}: {str(res.get('err'))[:200]}")
            return
        run.count("same_process_sequences")
        r1, r2 = res["result"]["results"]
        fmt2 = "zips" if to == "zips" else "raw"
        for name, d, r, fmt in (("first", l, r1, scn["fmt"]), ("second", l2, r2, fmt2)):
            snap = _snapshot(d)
            body = {a: b for a, b in (snap or {}).items() if a not in _NOT_DATA}
            if body != expected:
                run.violation("returns-on-incomplete-copy:same-process-sequence", f"{what}: the {name} call returned normally ({r}) but its destination is not a complete copy of the source "
                                                                                 f"(missing {sorted(set(expected) - set(body))[:4]}, unexpected {sorted(set(body) - set(expected))[:4]})")
                return
            if not r.get("was_copied") or r.get("source_format") != fmt:
                run.violation("result:source_format", f"{what}: the {name} call reports {r} for a '{fmt}' source")
                return
    finally:
        shutil.rmtree(root, ignore_errors=True)
