"""C15 — strength scaling interpolates from identity to the configured augmentation; a scheduled transform applies the
schedule's value at global batch b.

Observed: the *range signature* of a transform (h15_recgen): arguments of every draw it makes on an injected recording
generator, the parameters it writes to ctx when the generator answers with the low / high end of every requested range,
the thresholds of its `rng.random() < p` gates recovered by bisection with a constant-answer generator, parameters
decoded from returned values. Oracle (from the property text):
  restore      sig(fresh.scale_strength(1)) == sig(fresh as constructed)
  collapse     at strength 0 every range has equal ends / zero spread
  identity     at strength 0 the output equals the input where the transform has an identity
  monotone     for fa < fb < fc every bound at fb lies between its values at fa and fc   (triples (0,f1,f2) and (f1,f2,1))
  compounding  an instance driven through a factor sequence ending in f has the signature of a fresh instance scaled once by f
for every discovered class reporting supports_scale_strength(), for harness-built compositions of them and for
MagnitudeSampler. Factor histories over object graphs (members scaled directly between composition-level calls, members
pre-scaled before being wrapped, one member shared by two compositions, inner compositions scaled on their own): after the
last call on an object that reaches a member, the member has the signature of a fresh instance scaled once by that factor. Scheduled transform: under simulated round-robin workers and under a real DataLoader
ctx["KDScheduledTransform.strength"] of every sample of global batch b equals schedule.get_value(b, n_batches) (reference
computed on an independent schedule object / decodable custom value lists) and the call is indistinguishable from the
call of a fresh pipeline whose wrapped transform was scaled once by that value.
"""
from __future__ import annotations

import copy
import contextlib

import numpy as np
import torch

from . import core
from . import h15_recgen as R
from . import h15_recipes as P
from . import h15_sched as S
from .harness import call_real

LEVEL = "exploration"
RULE = ("per discovered class supporting scale_strength: constructor arguments drawn inside the documented domain (p in {0,1,..}, "
        "scalar/tuple ranges, magnitude samplers const/uniform/normal), PIL or tensor workload, factors f1<f2 in (0,1) and a factor "
        "sequence (length 1..8, with repeats/0/1) ending in one of {0,f1,f2,1,other}; harness-built KDComposeTransform nestings of 2..4 "
        "members (+ non-scalable / plain members); factor histories (3..9 calls, factors from a small pool so that equal factors recur) over graphs "
        "of 3 members and 1..2 (shared-member / nested) compositions; library presets; MagnitudeSampler; scheduled pipelines (4 wrap shapes x schedule "
        "kinds x worker counts 0..7 x batch sizes 1..8 x 1..16 batches x updates/samples/epochs init) simulated and on real DataLoaders "
        "(1..4 workers); the same below an InterleavedSampler (main dataset + 1..2 interleaved side datasets of other lengths, every_n_epochs/updates/samples, "
        "epochs/updates/samples durations, simulated workers 0..3 and get_data_loader() with 0..1 workers). A case is distinct by its full spec; non-trivial = the subject has at least one scalable range")
ASSUMPTIONS = [
    "the harness generator reaches nested transforms through the public set_rng of every transform object found in instance dictionaries; whether set_rng is forwarded is C07's concern",
    "float bounds that re-derive arithmetic are compared with relative tolerance 1e-9 (restore/collapse/monotone) and 1e-12 (no compounding, scheduled differential); gate thresholds are bisected down to adjacent doubles",
    "a reported ctx parameter equal to -1 is the library's 'not sampled' marker (populate-on-skip, `value or -1`), never a legal parameter value; such entries are not used in the monotone clause",
    "identity at strength 0: exact for PIL / additive noise / solarize / grayscale / threshold, 1e-5 for float tensors through colour jitter and rotation; a PIL hue shift of 0 is compared with torchvision's own HSV round trip; workloads lie strictly inside (0,1) (float solarize at threshold 1.0 and thresholding at 0 are identities there)",
    "KDRandomRotation is only scaled when built with equal lower and upper bound (its own assertion); symmetric ranges are driven as refusal class 'rotation-unequal-bounds'",
    "KDRandAugment has no identity as a whole (posterize/auto_contrast/equalize/invert); only its magnitude-driven operations documented as identity at magnitude 0 are checked, selected by answering its public op choice",
    "library presets (BYOL/MUGS/Imagenet*) contain non-scalable members with ranges: collapse/identity/gates are not judged on them; presets whose constructor fails with default arguments are listed in unconstructible_presets, not judged",
    "classes not reporting supports_scale_strength() (e.g. KDRandomApply, KDScheduledTransform itself) are outside the quantifier",
    "scheduled below an InterleavedSampler: only MAIN samples are judged, n_batches comes from the main dataset's own length; with >= 2 workers every interleaved block is generated as a multiple of W batches (torch deals main and side batches to the workers alike, the per-worker counter only sees main batches - other block sizes are outside what the counter can support and are not driven); real loaders from get_data_loader() with 0..1 workers",
    "scheduled: calls made before worker_init_fn configured the schedule (main-process peeks, 0..batch_size+1 of them) are unscheduled and must not shift the batch index of the later pass",
    "scheduled, shared wrapped object: two scheduled transforms with different schedules around one transform object are called alternately per sample; every call must be the call of a fresh instance scaled by the calling wrapper's own schedule value (observed through draws / reported parameters / returned value, not only ctx strength)",
    "compositions whose public `transforms` list is edited after construction (item assignment, append, reassignment): the live members are the members; scheduled: a ctx dict reused for consecutive calls must report the strength of the call just made",
    "scheduled: full batches only; with samples % batch_size != 0 only the full batches are judged; one pass over the loader (worker re-creation between epochs is outside the claim); torch assigns batch b to worker b % num_workers",
]
MONITORS = ["restore_checked", "collapse_checked", "identity_checked", "monotone_checked", "compounding_checked",
            "gate_thresholds_recovered", "sched_sim_samples_checked", "sched_signature_checked", "sched_loader_samples_checked",
            "history_members_checked", "sched_inter_main_samples_checked", "sched_shared_samples_checked"]

TOL = 1e-9
TOL_SAME = 1e-12

_ST = {}


class _Capture:
    """Run facade used while a subject is evaluated: crashes / refusals reported by call_real are collected so that they
    can be filed under the mechanism (family) of the subject they belong to"""

    def __init__(self, run, quiet=False):
        self.run, self.quiet, self.captured = run, quiet, []

    def violation(self, key, what, spec=None):
        self.captured.append((key, what))

    def refusal(self, cls):
        if not self.quiet:
            self.run.refusal(cls)

    def count(self, name, k=1):
        if not self.quiet:
            self.run.count(name, k)

    def sample(self, obj, cap=6):
        if not self.quiet:
            self.run.sample(obj, cap)


def setup(run):
    found, problems = P.discover()
    recipes, uncovered = P.recipes_for(found)
    _ST["recipes"] = recipes
    _ST["mag"] = P.MagRecipe()
    run.notes["discovered_classes"] = sorted(found)
    run.notes["uncovered_classes"] = sorted(uncovered)
    run.notes["unimportable_modules"] = sorted(problems)
    run.notes["recipes_without_class"] = sorted((set(P.RECIPE_TABLE) | set(P.COMMON_VARIANTS)) - set(found))


# ================================================================================================ generation
def _factors(rng):
    grid = [0.1, 0.25, 0.5, 0.75, 0.9, 1 / 3, 0.01, 0.99]
    while True:
        a, b = rng.choice(grid + [round(rng.uniform(0.001, 0.999), 4)]), rng.choice(grid + [round(rng.uniform(0.001, 0.999), 4)])
        if a != b:
            return min(a, b), max(a, b)


def _sequence(rng, f1, f2):
    k = rng.choice([1, 2, 3, 4, 6, 8])
    pool = [0.0, 1.0, f1, f2, 0.5, round(rng.random(), 4)]
    seq = [rng.choice(pool) for _ in range(k - 1)]
    if rng.random() < 0.3 and seq:
        seq.append(seq[-1])   # repeated factor
    seq.append(rng.choice([0.0, 1.0, f1, f2, f1, f2, round(rng.uniform(0.0, 1.0), 4)]))
    return seq


def _scaling_fields(rng):
    f1, f2 = _factors(rng)
    return {"f1": f1, "f2": f2, "seq": _sequence(rng, f1, f2), "calls_between": rng.random() < 0.5, "np_seed": rng.randrange(2 ** 31)}


def _member(rng, recipes, kind, names=None, prefix=None):
    names = names or [n for n, r in recipes.items() if r.composable and not isinstance(r, P.ComposeRecipe) and kind in r.inputs]
    name = rng.choice(names)
    params = recipes[name].gen(rng, kind)
    if prefix is not None:
        params["ctx_prefix"] = prefix
    return {"cls": name, "params": params}


def _input(rng, kind, big=False):
    if kind == "none":
        return {"kind": "none", "seed": 0}
    h, w = (24, 24) if big else rng.choice([(10, 12), (8, 8), (9, 7)])
    return {"kind": kind, "seed": rng.randrange(10 ** 6), "h": h, "w": w}


def _gen_single(rng, recipes, name):
    r = recipes[name]
    kind = rng.choice(list(r.inputs))
    spec = {"kind": "single", "cls": name, "params": r.gen(rng, kind), "input": _input(rng, kind)}
    if name == "KDRandomRotation" and rng.random() < 0.25:
        spec["params"]["degrees"] = abs(spec["params"]["degrees"][0]) + 1.0   # symmetric range (-d, d): refused by the transform's own guard
        spec["refusal"] = "rotation-unequal-bounds"
    spec.update(_scaling_fields(rng))
    if spec["params"].get("p") == 0 and name != "KDRandomGrayscale":
        spec["_trivial"] = True    # never applied: the inner ranges are not observable
    return spec


def _gen_compose(rng, recipes):
    kind = rng.choice(["tensor", "pil"])
    k = rng.choice([1, 2, 2, 3, 3, 4])
    members = [_member(rng, recipes, kind, prefix=f"m{i}") for i in range(k)]
    spec = {"kind": "compose", "members": members, "layout": rng.choice(["flat", "flat", "nested", "deep", "with_flip", "with_plain"]),
            "flip_p": P._p(rng), "input": _input(rng, kind)}
    spec.update(_scaling_fields(rng))
    return spec


def _gen_sched(rng, recipes, loader):
    kind = "tensor" if loader else rng.choice(["tensor", "pil"])
    wrap = rng.choice(["S(t)", "S(t)", "C[S(t),o]", "C[o,S(t)]", "S(C[t,o])", "C[C[S(t)]]"])
    spec = {"kind": "sched_loader" if loader else "sched_sim", "inner": _member(rng, recipes, kind, prefix="inner"), "wrap": wrap, "input": _input(rng, kind)}
    if "o" in wrap:
        spec["other"] = {"flip": P._p(rng)} if rng.random() < 0.4 else _member(rng, recipes, kind, prefix="other")
    if loader:
        W = rng.choice([1, 2, 3, 4])
        B = rng.choice([1, 2, 3, 4])
        n = rng.choice([max(1, W - 1), W + 1, 2 * W + 1, rng.randint(2, 9)])
        init = rng.choice(["updates", "samples", "epochs"])
    else:
        W = rng.choice([0, 1, 2, 2, 3, 4, rng.randint(5, 7)])
        B = rng.choice([1, 1, 2, 3, 4, 5, 8])
        n = rng.choice([1, 2, 3, max(1, W - 1), max(1, W), W + 1, 2 * W + 1, rng.randint(1, 16)])
        init = rng.choice(["updates", "updates", "samples", "samples_partial", "epochs"])
        spec["level"] = rng.choice(["transform", "dataset"])
    if init == "samples_partial" and B < 2:
        init = "samples"
    spec.update(W=W, B=B, n=n, init=init)
    span = n
    if init == "samples_partial":
        spec["rest"] = rng.randint(1, B - 1)
        span = n + 1
    if init == "epochs":
        E = rng.choice([1, 2, 3])
        per = max(1, n // E)
        spec.update(epochs=E, n=E * per, world=rng.choice([1, 2, 4]), drop_last=rng.random() < 0.5)
        span = E * per
    spec["schedule"] = S.gen_schedule(rng, span)
    spec["np_seed"] = rng.randrange(2 ** 31)
    # history step: the pipeline / dataset is called k times in the main process (e.g. ds[0] to look at a sample) before
    # the workers are created and worker_init_fn configures the schedule
    Bp = spec["B"]
    spec["peeks"] = rng.choice([0, 0, 1, 2, max(Bp - 1, 1), Bp + 1, 1, Bp + 1])
    spec["peek_ctx"] = rng.random() < 0.5
    spec["edit"] = rng.choice([None, "assign", "append", "reassign"])     # used by the S(C[t,o]) shape
    spec["reuse_ctx"] = rng.random() < 0.5                                 # one ctx dict handed to consecutive samples
    return spec


def _gen_sched_inter(rng, recipes, loader):
    """scheduled transform on the MAIN dataset of an InterleavedSampler run with 1..2 interleaved side datasets"""
    kind = "tensor"
    wrap = rng.choice(["S(t)", "S(t)", "C[S(t),o]", "S(C[t,o])"])
    spec = {"kind": "sched_inter", "loader": loader, "inner": _member(rng, recipes, kind, prefix="inner"), "wrap": wrap, "input": _input(rng, kind)}
    if "o" in wrap:
        spec["other"] = {"flip": P._p(rng)} if rng.random() < 0.4 else _member(rng, recipes, kind, prefix="other")
    B = rng.choice([1, 2, 2, 3, 4])
    per_epoch = rng.choice([1, 2, 3, 4, 5])
    init = rng.choice(["epochs", "epochs", "epochs", "updates", "samples"])
    E = rng.choice([1, 2, 3, 4])
    n = E * per_epoch if init == "epochs" else rng.randint(1, 3 * per_epoch)
    # all batches (main and side) go to the workers round-robin; the per-worker counter of the scheduled transform only
    # sees main batches, so with >= 2 workers the claim needs every interleaved block to be a multiple of W batches
    W = rng.choice([0, 1, 1]) if loader else rng.choice([0, 1, 1, 2, 3])
    mult = max(W, 1)
    sides = []
    for _ in range(rng.choice([1, 1, 2])):
        sb = rng.choice([None, None, 1, 2, 3])
        nb = mult * rng.randint(1, 2)                       # number of side batches per interleaved block
        eff = sb or B
        ln = (nb - 1) * eff + rng.randint(1, eff)             # last side batch may be partial (side batches are not judged)
        every = rng.choice([["epochs", rng.choice([1, 1, 2])], ["updates", rng.choice([1, 2, 3])], ["samples", B * rng.choice([1, 2])]])
        sides.append({"len": ln, "batch_size": sb, "every": every})
    spec.update(W=W, B=B, n=n, init=init, epochs=E, main_len=per_epoch * B + (rng.choice([0, 0, B - 1]) if B > 1 else 0), sides=sides,
                drop_last=True, shuffle_seed=rng.choice([None, rng.randrange(1000)]))
    while True:
        sch = S.gen_schedule(rng, n)
        # a decodable value list does not depend on the number of batches the schedule spans: keep it out of the epochs form
        if init != "epochs" or sch["type"] in ("default", "dict", "object"):
            break
    spec["schedule"] = sch
    spec["np_seed"] = rng.randrange(2 ** 31)
    # history step: the pipeline / dataset is called k times in the main process (e.g. ds[0] to look at a sample) before
    # the workers are created and worker_init_fn configures the schedule
    Bp = spec["B"]
    spec["peeks"] = rng.choice([0, 0, 1, 2, max(Bp - 1, 1), Bp + 1, 1, Bp + 1])
    spec["peek_ctx"] = rng.random() < 0.5
    spec["edit"] = rng.choice([None, "assign", "append", "reassign"])     # used by the S(C[t,o]) shape
    spec["reuse_ctx"] = rng.random() < 0.5                                 # one ctx dict handed to consecutive samples
    return spec


def _gen_sched_shared(rng, recipes):
    """two scheduled transforms with different schedules around ONE transform object, called alternately per sample"""
    kind = rng.choice(["tensor", "pil"])
    B, W = rng.choice([2, 2, 3, 4]), rng.choice([0, 1, 2, 2, 3])
    n = rng.choice([2, 3, W + 1, 2 * W + 1, rng.randint(2, 8)])
    while True:
        a, b = S.gen_schedule(rng, n), S.gen_schedule(rng, n)
        if a != b and not (a["type"] == b["type"] == "default"):
            break
    inner = _member(rng, recipes, kind, prefix="inner")
    variant = rng.choice(["direct", "direct", "compose", "multiview"])
    if variant == "multiview" and "Threshold" in inner["cls"]:
        variant = "direct"    # thresholding writes into its input; the multi-view wrapper hands one sample object to all views (aliasing, not a scaling question)
    return {"kind": "sched_shared", "inner": inner, "variant": variant,
            "input": _input(rng, kind), "W": W, "B": B, "n": n, "init": rng.choice(["updates", "samples"]), "schedules": [a, b], "wrap": "S(t)",
            "reuse_ctx": rng.random() < 0.5,
            "np_seed": rng.randrange(2 ** 31)}


GRAPH_SCENARIOS = ["direct", "prescaled", "shared", "inner", "random"]


def _gen_graph(rng, recipes, scenario):
    """a small object graph (members m0..m2, compositions c0, c1 given by their children) and a history of
    (target, factor) calls; compositions are constructed when they are first targeted"""
    kind = rng.choice(["tensor", "pil"])
    members = [_member(rng, recipes, kind, prefix=f"m{i}") for i in range(3)]
    pool = rng.sample([0.0, 1.0, 0.25, 0.5, 0.75, 0.1, 0.9, round(rng.uniform(0.01, 0.99), 3)], 4)
    f, g, h = pool[0], pool[1], pool[2]
    if scenario == "direct":
        comps = [["m0", "m1", "m2"]]
        touched = rng.sample(["m0", "m1", "m2"], rng.randint(1, 3))
        hist = ([] if rng.random() < 0.25 else [["c0", f]])
        if not hist:
            f = 1.0          # the composition was never told anything: its members are as constructed
        hist += [[m, rng.choice([x for x in pool + [0.0, 1.0] if x != f])] for m in touched] + [["c0", f]]
    elif scenario == "prescaled":
        comps = [["m0", "m1", "m2"]] if rng.random() < 0.6 else [["m1", "m2"], ["m0", "c0"]]
        top = f"c{len(comps) - 1}"
        hist = [[m, rng.choice([0.0, g, h])] for m in rng.sample(["m0", "m1", "m2"], rng.randint(1, 3))] + [[top, rng.choice([1.0, 1.0, f])]]
    elif scenario == "shared":
        comps = [["m0", "m1"], ["m1", "m2"]] if rng.random() < 0.5 else [["m0", "m1", "m2"], ["m2", "m1"]]
        hist = [["c0", f], ["c1", g], ["c0", f]]
        if rng.random() < 0.4:
            hist.append(["c1", g])
    elif scenario == "inner":
        comps = [["m1", "m2"], ["m0", "c0"]]
        hist = [["c1", f], ["c0", g], ["c1", f]]
        if rng.random() < 0.4:
            hist.append(["c0", g])
    else:
        comps = rng.choice([[["m0", "m1", "m2"]], [["m0", "m1"], ["m1", "m2"]], [["m1", "m2"], ["m0", "c0"]], [["m0", "m1"], ["c0", "m2", "m1"]]])
        targets = ["m0", "m1", "m2"] + [f"c{i}" for i in range(len(comps))] * 2
        hist = [[rng.choice(targets), rng.choice(pool[:3])] for _ in range(rng.randint(3, 9))]
    # how the composition gets its members: at construction, or by editing its public `transforms` list afterwards
    return {"kind": "graph", "scenario": scenario, "members": members, "comps": comps, "history": hist, "input": _input(rng, kind),
            "edit": rng.choice([None, "assign", "append", "reassign", "assign", "append", "reassign"]), "np_seed": rng.randrange(2 ** 31)}


def gen_cases(run):
    rng, recipes = run.rng, _ST["recipes"]
    singles = [n for n, r in recipes.items() if not isinstance(r, (P.ComposeRecipe, P.CommonRecipe))]
    commons = [n for n, r in recipes.items() if isinstance(r, P.CommonRecipe)]
    n_single = run.n(6 * max(1, len(singles)), 130 * max(1, len(singles)))
    n_mag = run.n(8, 400)
    n_compose = run.n(24, 800)
    n_common = run.n(len(commons), 30 * max(1, len(commons)))
    n_sim = run.n(60, 2400)
    n_loader = run.n(5, 64)
    n_graph = run.n(30, 1600)
    n_inter, n_inter_loader = run.n(14, 900), run.n(2, 32)
    n_shared = run.n(14, 700)
    plan = []
    for i in range(n_single):
        plan.append(("single", singles[i % len(singles)] if singles else None))
    plan += [("mag", None)] * n_mag + [("compose", None)] * n_compose
    for i in range(n_common):
        plan.append(("common", commons[i % len(commons)] if commons else None))
    plan += [("sched_sim", None)] * n_sim + [("sched_loader", None)] * n_loader
    plan += [("graph", GRAPH_SCENARIOS[i % len(GRAPH_SCENARIOS)]) for i in range(n_graph)]
    plan += [("sched_inter", False)] * n_inter + [("sched_inter", True)] * n_inter_loader + [("sched_shared", None)] * n_shared
    # interleave so that a time-limited run still sees every kind
    order = list(range(len(plan)))
    rng.shuffle(order)
    for j in order:
        kind, name = plan[j]
        if kind == "single" and name is not None:
            yield _gen_single(rng, recipes, name)
        elif kind == "mag":
            spec = {"kind": "mag", "params": _ST["mag"].gen(rng, "none"), "input": _input(rng, "none")}
            spec.update(_scaling_fields(rng))
            yield spec
        elif kind == "compose" and singles:
            yield _gen_compose(rng, recipes)
        elif kind == "common" and name is not None:
            spec = {"kind": "common", "cls": name, "params": recipes[name].gen(rng, "pil"), "input": _input(rng, "pil", big=True)}
            spec.update(_scaling_fields(rng))
            if name in ("ImagenetMinaugTransform", "ImagenetNoaugTransform"):
                spec["_trivial"] = True    # presets without a scalable member: scaling is a no-op
            yield spec
        elif kind == "sched_sim" and singles:
            yield _gen_sched(rng, recipes, loader=False)
        elif kind == "sched_shared" and singles:
            yield _gen_sched_shared(rng, recipes)
        elif kind == "sched_inter" and singles:
            yield _gen_sched_inter(rng, recipes, loader=name)
        elif kind == "graph" and singles:
            yield _gen_graph(rng, recipes, name)
        elif kind == "sched_loader" and singles:
            yield _gen_sched(rng, recipes, loader=True)


# ================================================================================================ subjects
class Subject:
    def __init__(self, label, family, build, x, kind, gates=True, collapse=True, identity=False, id_ref=None, id_tol=0.0,
                 hook=None, extra=None, members=(), randaug_ops=None, refusal=None):
        self.label, self.family, self.build, self.x, self.kind = label, family, build, x, kind
        self.gates, self.collapse, self.identity, self.id_ref, self.id_tol = gates, collapse, identity, id_ref, id_tol
        self.hook, self.extra, self.members, self.randaug_ops, self.refusal = hook, extra, list(members), randaug_ops, refusal


def _recipe(name):
    r = _ST["recipes"].get(name)
    if r is None:
        raise core.Inconclusive(f"class {name} named in the case is not discovered on this tree")
    return r


def _member_subject(m, x, kind):
    r = _recipe(m["cls"])
    params = m["params"]
    is_ra = isinstance(r, P.RandAugRecipe)
    return Subject(
        label=f"{m['cls']}({_short(params)})", family=r.family, build=lambda: r.build(params), x=x, kind=kind, gates=r.gates,
        collapse=r.collapse_draws, identity=r.has_identity(params, kind), id_ref=lambda xx: [r.identity_reference(params, xx)],
        id_tol=r.id_tol.get(kind, 0.0), hook=(lambda: r.choice_hook(params)) if is_ra else None, extra=r.extra(params, x),
        randaug_ops=P.RandAugRecipe.IDENTITY_OPS if is_ra else None)


def _flip(p):
    from kappadata.transforms.kd_random_horizontal_flip import KDRandomHorizontalFlip
    return KDRandomHorizontalFlip(p=p)


def _plain(x):   # a member that is not a KD transform
    return x


def _compose_subject(spec, x, kind):
    from kappadata.transforms.base.kd_compose_transform import KDComposeTransform
    subs = [_member_subject(m, x, kind) for m in spec["members"]]
    layout = spec["layout"]

    def build():
        ms = [s.build() for s in subs]
        if layout == "nested" and len(ms) >= 2:
            return KDComposeTransform([ms[0], KDComposeTransform(ms[1:])])
        if layout == "deep":
            return KDComposeTransform([KDComposeTransform([KDComposeTransform(ms)])])
        if layout == "with_flip":
            return KDComposeTransform(ms[:1] + [_flip(spec["flip_p"])] + ms[1:])
        if layout == "with_plain":
            return KDComposeTransform([_plain] + ms + [_plain])
        return KDComposeTransform(ms)

    any_ra = any(s.hook is not None for s in subs)

    def id_ref(xx):
        # every member may or may not take its (possibly lossy) no-op path
        cands, seen = [xx], {R.out_fingerprint(xx)}
        for s in subs:
            for c in list(cands):
                for y in s.id_ref(c):
                    fp = R.out_fingerprint(y)
                    if fp not in seen and len(cands) < 16:
                        seen.add(fp)
                        cands.append(y)
        return cands
    return Subject(label=f"KDComposeTransform[{layout}]({', '.join(s.label for s in subs)})", family="compose", build=build, x=x, kind=kind,
                   identity=all(s.identity for s in subs) and layout != "with_flip" or (all(s.identity for s in subs) and spec["flip_p"] == 0.0),
                   id_ref=id_ref, id_tol=max([s.id_tol for s in subs] + [0.0]) * len(subs), hook=(lambda: P._ProbeOps()) if any_ra else None, members=subs)


def _common_subject(spec, x):
    r = _recipe(spec["cls"])
    params = spec["params"]
    build = lambda: r.build(params)

    def member_subjects():
        """diagnostics only: which nested transform (with a recipe) fails the same clause on its own"""
        out = []
        try:
            probe = R.reachable_transforms(build())
        except Exception:
            return out
        for i, o in enumerate(probe):
            name = type(o).__name__
            rr = _ST["recipes"].get(name)
            if rr is None or isinstance(rr, (P.ComposeRecipe, P.CommonRecipe)) or o is probe[0]:
                continue
            kind = "pil" if "pil" in rr.inputs else rr.inputs[0]
            xx = P.make_input({"kind": kind, "seed": 5, "h": 10, "w": 12})
            is_ra = isinstance(rr, P.RandAugRecipe)
            out.append(Subject(label=name, family=rr.family, build=(lambda i=i: copy.deepcopy(R.reachable_transforms(build())[i])), x=xx, kind=kind,
                               gates=False, collapse=True, hook=(lambda rr=rr: rr.choice_hook({})) if is_ra else None))
        return out
    s = Subject(label=f"{spec['cls']}({_short(params)})", family="compose", build=build, x=x, kind="pil", gates=False, collapse=False)
    s.members = member_subjects
    return s


def _short(p):
    r = repr(p)
    return r if len(r) < 200 else r[:200] + "…"


# ================================================================================================ scaling clauses
def _fresh(run, S_, f, refusal=None):
    ok, t = call_real(run, S_.build, crash_key="ctor-crash", what=f"{S_.label}: construction")
    if not ok:
        return None
    if f is not None:
        ok, _ = call_real(run, lambda: t.scale_strength(f), refusal_class=refusal, crash_key="scale-crash", what=f"{S_.label}.scale_strength({f})")
        if not ok:
            return None
    return t


def _sig(run, S_, t, gates=None):
    hook = S_.hook() if S_.hook is not None else None
    ok, s = call_real(run, lambda: R.signature(t, S_.x, gates=S_.gates if gates is None else gates, choice_hook=hook, extra=S_.extra),
                      crash_key="call-crash", what=f"{S_.label}: applying the transform to the workload")
    return s if ok else None


def _identity_diffs(run, S_, t0):
    out = []
    # what "the identity" may return: the input itself, or the input after the transform's own lossy no-op path
    refs = [S_.x] + (list(S_.id_ref(S_.x)) if S_.id_ref is not None else [])
    for u, gate, seed in (("real", None, 11), ("real", None, 12), ("real", 0.0, 13), ("lo", 0.0, 0), ("hi", 0.0, 0)):
        hook = S_.hook() if S_.hook is not None else None
        ok, o = call_real(run, lambda: R.observe(t0, S_.x, u, gate=gate, seed=seed, choice_hook=hook), crash_key="call-crash",
                          what=f"{S_.label} at strength 0")
        if not ok:
            return None
        same, how = False, ""
        for ref in refs:
            same, how1 = P.outputs_equal(o.out, ref, S_.id_tol)
            how = how or how1
            if same:
                break
        if not same:
            out.append(f"answers={u}, gate={'real' if gate is None else 'always apply'}: output != input ({how}); reported parameters {R.flat_ctx(o.ctx)}")
    return out


def _randaug_identity_diffs(run, S_, t0):
    """operations of KDRandAugment documented as identity at magnitude 0, selected by answering its op choice"""
    out = []
    for op in S_.randaug_ops:
        hook = P._ProbeOps(real_op=op)
        used = []

        def tracking(a, size, replace, hook=hook):
            r = P._ProbeOps.__call__(hook, a, size, replace)
            if r is not NotImplemented:
                used.append(1)
            return r
        for gate in (0.0, 0.49):
            ok, o = call_real(run, lambda: R.observe(t0, S_.x, "real", gate=gate, seed=3, choice_hook=tracking), crash_key="call-crash",
                              what=f"{S_.label} at strength 0, operation {op}")
            if not ok:
                return None
            if not used:
                continue
            same, how = P.outputs_equal(o.out, S_.x, 0)
            if not same:
                out.append(f"operation {op} at strength 0: output != input ({how})")
    return out


def evaluate(run, S_, spec, record=False):
    """-> {clause: [differences]} (None when the subject could not be driven)"""
    res = {}
    np.random.seed(spec["np_seed"] % (2 ** 32))
    tc = _fresh(run, S_, None)
    if tc is None:
        return None
    sc = _sig(run, S_, tc)
    if sc is None:
        return None
    # observability precondition: with deterministic answers the signature must not depend on the global RNG the
    # instance was constructed under (otherwise some generator is out of reach of set_rng -> not judged)
    np.random.seed((spec["np_seed"] + 7919) % (2 ** 32))
    tc2 = _fresh(run, S_, None)
    sc2 = None if tc2 is None else _sig(run, S_, tc2, gates=False)
    if sc2 is None:
        return None
    if R.sig_diff(sc, sc2, 0.0):
        run.count("subject_not_injectable")
        return None

    # the first scale_strength decides whether the subject is in a refusal class
    t1 = _fresh(run, S_, 1.0, refusal=S_.refusal)
    if t1 is None:
        return None
    if S_.refusal is not None:
        run.count("refusal_class_accepted_call")   # the guard did not fire: judged like any other subject
    s1 = _sig(run, S_, t1)
    t0 = _fresh(run, S_, 0.0)
    s0 = None if t0 is None else _sig(run, S_, t0)
    tf1, tf2 = _fresh(run, S_, spec["f1"]), _fresh(run, S_, spec["f2"])
    sf1 = None if tf1 is None else _sig(run, S_, tf1)
    sf2 = None if tf2 is None else _sig(run, S_, tf2)
    if None in (s1, s0, sf1, sf2):
        return None

    res["restore"] = R.sig_diff(sc, s1, TOL)
    if S_.collapse:
        res["collapse"] = R.not_collapsed(s0, TOL)
    if S_.identity:
        d = _identity_diffs(run, S_, t0)
        if d is not None:
            res["identity"] = d
    if S_.randaug_ops:
        d = _randaug_identity_diffs(run, S_, t0)
        if d is not None:
            res["identity"] = res.get("identity", []) + d
    sg = not (callable(S_.members) or S_.members)     # one transform (member level): its only gate is the same gate at every factor
    res["monotone"] = [f"(0, {spec['f1']}, {spec['f2']}) " + x for x in R.not_between(s0, sf1, sf2, TOL, single_gate=sg)] + \
                      [f"({spec['f1']}, {spec['f2']}, 1) " + x for x in R.not_between(sf1, sf2, s1, TOL, single_gate=sg)]

    # no compounding
    ts = _fresh(run, S_, None)
    if ts is None:
        return None
    seq = spec["seq"]
    for i, f in enumerate(seq):
        ok, _ = call_real(run, lambda: ts.scale_strength(f), crash_key="scale-crash", what=f"{S_.label}.scale_strength({f}) (step {i} of {seq})")
        if not ok:
            return None
        if spec.get("calls_between") and i < len(seq) - 1:
            hook = S_.hook() if S_.hook is not None else None
            ok, _ = call_real(run, lambda: R.observe(ts, S_.x, "real", seed=100 + i, choice_hook=hook), crash_key="call-crash", what=f"{S_.label} between scalings")
            if not ok:
                return None
    sseq = _sig(run, S_, ts)
    last = seq[-1]
    sref = {0.0: s0, 1.0: s1, spec["f1"]: sf1, spec["f2"]: sf2}.get(last)
    if sref is None:
        tr = _fresh(run, S_, last)
        sref = None if tr is None else _sig(run, S_, tr)
    if sseq is None or sref is None:
        return None
    res["compounding"] = R.sig_diff(sref, sseq, TOL_SAME)

    if record:
        run.count("gate_thresholds_recovered", len(sc.gates or []))
        run.count("signature_entries_observed", len(sc.vals))
        run.count("ranges_observed", len(sc.ranges) + len(sc.spreads))
        run.sample({"subject": S_.label, "constructed": sc.as_json(10), "at_0": s0.as_json(10), "f1": spec["f1"], "at_f1": sf1.as_json(10),
                    "sequence": seq, "after_sequence": sseq.as_json(10)}, cap=4)
    return res


def _judge_subject(run, S_, spec, record, context=""):
    """evaluate one subject and file its failures under its own mechanism; -> True if anything failed"""
    cap = _Capture(run)
    res = evaluate(cap, S_, spec, record=record)
    failed = False
    for key, what in cap.captured:
        run.violation(f"{S_.family}:{key}", context + what)
        failed = True
    if res is None:
        run.count("subjects_not_judged")
        return failed
    for clause, diffs in res.items():
        run.count(f"{clause}_checked")
        if diffs:
            failed = True
            run.violation(f"{S_.family}:{clause}", f"{context}{S_.label} [{S_.kind} workload], clause '{clause}' (f1={spec['f1']}, f2={spec['f2']}, sequence={spec['seq']}): "
                          + "; ".join(diffs[:5]) + (f" (+{len(diffs) - 5} more)" if len(diffs) > 5 else ""))
    return failed


def _judge(run, S_, spec):
    members = S_.members() if callable(S_.members) else S_.members
    # a composition cannot hold where one of its members does not: members are judged on their own first, so that a
    # failure is filed under the member's mechanism and the composition-level verdict is about composing only
    member_failed = False
    for m in members:
        if _judge_subject(run, m, spec, record=False, context=f"(member of {S_.label[:120]}) "):
            member_failed = True
    if member_failed:
        run.count("compositions_skipped_member_failed")
        return
    _judge_subject(run, S_, spec, record=True)


# ================================================================================================ scheduled transform
def _build_simple(m):
    if "flip" in m:
        return _flip(m["flip"])
    return _recipe(m["cls"]).build(m["params"])


def _pipe(spec, scheduled):
    """-> (pipeline, object whose strength the schedule drives) ; scheduled=False builds the reference pipeline in which the
    scheduled wrapper is replaced by what it wraps"""
    from kappadata.transforms.base.kd_compose_transform import KDComposeTransform
    from kappadata.transforms.base.kd_scheduled_transform import KDScheduledTransform
    inner = _build_simple(spec["inner"])
    other = _build_simple(spec["other"]) if "other" in spec else None
    arg, _ = S.schedule_arg_and_reference(spec["schedule"])
    wrap = spec["wrap"]
    if wrap == "S(C[t,o])":
        driven = _compose_edited([inner, other], spec.get("edit") if scheduled else None, lambda: _build_simple(spec["inner"]))
    else:
        driven = inner
    core_t = KDScheduledTransform(driven, schedule=arg) if scheduled else driven
    if wrap in ("S(t)", "S(C[t,o])"):
        pipe = core_t
    elif wrap == "C[S(t),o]":
        pipe = KDComposeTransform([core_t, other])
    elif wrap == "C[o,S(t)]":
        pipe = KDComposeTransform([other, core_t])
    elif wrap == "C[C[S(t)]]":
        pipe = KDComposeTransform([KDComposeTransform([core_t])])
    else:
        raise ValueError(wrap)
    return pipe, driven


def _hook_factory(spec):
    names = [m.get("cls") for m in (spec["inner"], spec.get("other", {}))]
    if any(n and isinstance(_ST["recipes"].get(n), P.RandAugRecipe) for n in names):
        return lambda: P._ProbeOps()
    return None


class _Reference:
    """calls of a fresh pipeline whose driven part was scaled once by v (cached per (v, answers))"""

    def __init__(self, run, spec, x):
        self.run, self.spec, self.x, self.cache = run, spec, x, {}
        self.hf = _hook_factory(spec)

    def obs(self, v, u):
        key = (float(v), u)
        if key not in self.cache:
            def make():
                pipe, driven = _pipe(self.spec, scheduled=False)
                driven.scale_strength(v)
                return R.observe(pipe, self.x, u, gate=0.0, seed=0, choice_hook=self.hf() if self.hf else None)
            # a failure of the *reference* (the wrapped transform on its own, scaled once) is not the scheduled
            # transform's: it is reported by the wrapped class's own cases; here the sample is just not judged
            ok, o = call_real(_Capture(self.run, quiet=True), make, what="reference")
            if not ok:
                self.run.count("sched_reference_failed")
            self.cache[key] = o if ok else None
        return self.cache[key]


def _obs_sig(obs_draws, ctx_flat):
    s = R.Sig()
    R.sig_from_obs(s, "w", R.Obs(obs_draws, {}, None))
    for k, v in ctx_flat.items():
        if k != S.STRENGTH_KEY:
            s.vals["w.ctx." + k] = v
    return s


def _check_sample(run, spec, where, b, expected, ctx_flat, draws, out, ref, u):
    """one sample of global batch b"""
    got = ctx_flat.get(S.STRENGTH_KEY)
    if got is None:
        run.violation("scheduled:strength-missing", f"{where}: ctx has no '{S.STRENGTH_KEY}' for a sample of global batch {b} (ctx keys {sorted(ctx_flat)[:8]})")
        return
    if got != float(expected):
        run.violation("scheduled:strength-value", f"{where}: sample of global batch {b}: ctx strength {got!r}, schedule value at {b} is {expected!r} "
                      f"(W={spec['W']}, B={spec['B']}, init={spec['init']}, n={spec['n']}, calls before worker_init_fn={spec.get('peeks', 0)})")
        return
    o = ref.obs(expected, u)
    if o is None:
        return
    run.count("sched_signature_checked")
    diffs = R.sig_diff(_obs_sig(o.draws if draws is not None else [], {k: v for k, v in R.flat_ctx(o.ctx).items()}),
                       _obs_sig(draws if draws is not None else [], ctx_flat), TOL_SAME)
    if not diffs and out is not None:
        same, how = P.outputs_equal(out, o.out, 1e-6 if torch.is_tensor(out) else 0)
        if not same:
            diffs = [f"returned value differs from the reference call ({how})"]
    if diffs:
        run.violation("scheduled:wrapped-signature", f"{where}: sample of global batch {b} (strength {expected!r}): the call differs from a fresh pipeline scaled once by "
                      f"that value: " + "; ".join(diffs[:4]))


def _next_ctx(spec, reused):
    """the ctx dict handed to the next call: a new one, or ONE dict reused for consecutive samples (also by both wrappers
    of a shared pair). Of a reused dict only the reported strength of the previous call is kept, so that the other
    reported parameters are those of the call just made."""
    if not spec.get("reuse_ctx"):
        return {}
    for k in list(reused):
        if k != S.STRENGTH_KEY:
            del reused[k]
    return reused


def _peek(run, spec, root, x, n_items):
    """k unscheduled calls in the main process before workers exist; -> False if one of them failed"""
    for j in range(spec.get("peeks", 0)):
        if hasattr(root, "__getitem__"):
            call = lambda: root[j % max(n_items, 1)]
        elif spec.get("peek_ctx"):
            call = lambda: root(R.clone_input(x), {})
        else:
            call = lambda: root(R.clone_input(x))
        ok, _ = call_real(run, call, crash_key="scheduled-call-crash", what=f"call {j} of the pipeline in the main process before worker_init_fn")
        if not ok:
            return False
        run.count("sched_peeks_before_init")
    return True


def _run_sched_sim(run, spec):
    x = P.make_input(spec["input"])
    _, ref_value = S.schedule_arg_and_reference(spec["schedule"])
    kwargs, span, n_full = S.init_kwargs(spec)
    W, B = spec["W"], spec["B"]
    nW = max(W, 1)
    np.random.seed(spec["np_seed"] % (2 ** 32))
    ok, built = call_real(run, lambda: _pipe(spec, scheduled=True), crash_key="ctor-crash", what="building the scheduled pipeline")
    if not ok:
        return
    pipe = built[0]
    level = spec["level"]
    root = pipe if level == "transform" else S.make_stack(pipe, B * n_full, x)
    if not _peek(run, spec, root, x, B * n_full):
        return
    workers = [copy.deepcopy(root) for _ in range(nW)]     # what forking the loader's dataset does
    ctxm = (lambda w: S.as_worker(w, W, dataset=workers[w])) if W > 0 else (lambda w: contextlib.nullcontext())
    for w in range(nW):
        with ctxm(w):
            ok, _ = call_real(run, lambda: workers[w].worker_init_fn(w, **kwargs), crash_key="scheduled-init-crash", what=f"worker_init_fn(rank={w}, {kwargs})")
        if not ok:
            return
    ref = _Reference(run, spec, x)
    hf = _hook_factory(spec)
    where = f"simulated workers ({level} level), pipeline {spec['wrap']} around {spec['inner']['cls']}, schedule {spec['schedule']['type']}"
    run.cover("sched_sim", spec["wrap"], level, min(W, 5), min(B, 3), spec["init"], spec["schedule"]["type"], "n<W" if n_full < nW else "n%W" if n_full % nW else "n|W")
    reused = {}
    for b in range(n_full):
        w = b % nW
        ok, expected = call_real(run, lambda: ref_value(b, span), crash_key="reference-crash", what="reference schedule")
        if not ok:
            return
        with ctxm(w):
            for s in range(B):
                u = "hi" if (b + s) % 2 else "lo"
                if ref.obs(expected, u) is None:
                    return     # the wrapped transform itself fails at this strength (its own cases report that)
                g = R.RecGen(np.random.PCG64(0), u=u, gate=0.0, choice_hook=hf() if hf else None)
                R.inject(workers[w], g)
                if level == "transform":
                    ctx = _next_ctx(spec, reused)
                    call = lambda: workers[w](R.clone_input(x), ctx)
                else:
                    call = lambda: workers[w][b * B + s]
                if g.choice_hook is not None:
                    g.choice_hook.drain()
                ok, r = call_real(run, call, crash_key="scheduled-call-crash", what=f"{where}: sample {s} of global batch {b}")
                if not ok:
                    return
                if level == "transform":
                    out = r
                else:
                    (idx, wid, out), ctx = r
                if g.choice_hook is not None:
                    ctx.update(g.choice_hook.drain())
                run.count("sched_sim_samples_checked")
                n_before = len(run.violations) + sum(run.known_hits.values())
                _check_sample(run, spec, where, b, expected, R.flat_ctx(ctx), g.log, out, ref, u)
                if len(run.violations) + sum(run.known_hits.values()) > n_before:
                    return


def _run_sched_loader(run, spec):
    x = P.make_input(spec["input"])
    _, ref_value = S.schedule_arg_and_reference(spec["schedule"])
    kwargs, span, n_full = S.init_kwargs(spec)
    W, B = spec["W"], spec["B"]
    np.random.seed(spec["np_seed"] % (2 ** 32))
    torch.manual_seed(spec["np_seed"] % (2 ** 31))
    ok, built = call_real(run, lambda: _pipe(spec, scheduled=True), crash_key="ctor-crash", what="building the scheduled pipeline")
    if not ok:
        return
    epochs = spec.get("epochs", 1) if spec["init"] == "epochs" else 1
    stack = S.make_stack(built[0], B * n_full // epochs, x)
    if not _peek(run, spec, stack, x, len(stack)):
        return
    where = f"DataLoader(num_workers={W}, batch_size={B}), pipeline {spec['wrap']} around {spec['inner']['cls']}, schedule {spec['schedule']['type']}"
    ref = _Reference(run, spec, x)
    for b in range(n_full):
        if ref.obs(ref_value(b, span), "hi") is None:
            return         # the wrapped transform itself fails at this strength (its own cases report that)
    try:
        batches = S.run_loader(stack, B, W, S.LoaderWorkerInit(kwargs, _hook_factory(spec)), epochs=epochs)
    except Exception as e:
        if "Caught " in str(e):      # an exception raised by the code running in a worker, re-raised by torch
            run.violation(f"scheduled-loader-crash:{type(e).__name__}", f"{where}: {type(e).__name__}: {str(e)[-1200:]}")
        else:                         # worker start-up / infrastructure problem: not an observation of the repository
            run.count("loader_infrastructure_failures")
        return
    run.cover("sched_loader", spec["wrap"], W, min(B, 3), spec["init"], spec["schedule"]["type"])
    run.count("loader_runs")
    if len(batches) != n_full:
        raise core.Inconclusive(f"harness: loader produced {len(batches)} batches, expected {n_full}")
    for b, ((idx, wid, xs), ctx) in enumerate(batches):
        if all(int(v) == b % W for v in wid):
            run.count("loader_round_robin_confirmed")
        expected = ref_value(b, span)
        for s in range(B):
            flat = {}
            for k, v in ctx.items():
                if torch.is_tensor(v):
                    flat.update(R.flat_ctx({k: v[s]}))
                elif isinstance(v, (list, tuple)):
                    flat.update(R.flat_ctx({k: [t[s] for t in v]}))
            run.count("sched_loader_samples_checked")
            n_before = len(run.violations) + sum(run.known_hits.values())
            _check_sample(run, spec, where, b, expected, flat, None, xs[s], ref, "hi")
            if len(run.violations) + sum(run.known_hits.values()) > n_before:
                return


# ================================================================================================ scheduled transform below an InterleavedSampler
def _inter_sampler(spec, pipe, x):
    from torch.utils.data import SequentialSampler, RandomSampler
    from kappadata.samplers.interleaved_sampler import InterleavedSampler, InterleavedSamplerConfig
    from kappadata.wrappers.mode_wrapper import ModeWrapper
    main = S.make_stack(pipe, spec["main_len"], x)
    if spec.get("shuffle_seed") is None:
        main_sampler = SequentialSampler(main)
    else:
        main_sampler = RandomSampler(main, generator=torch.Generator().manual_seed(spec["shuffle_seed"]))
    configs = []
    for sd in spec["sides"]:
        side = ModeWrapper(S.SchedLeaf(sd["len"], x), mode="index")      # a batch of a side dataset is a plain tensor
        configs.append(InterleavedSamplerConfig(sampler=SequentialSampler(side), batch_size=sd["batch_size"], **{f"every_n_{sd['every'][0]}": sd["every"][1]}))
    dur = {"epochs": {"epochs": spec["epochs"]}, "updates": {"updates": spec["n"]}, "samples": {"samples": spec["n"] * spec["B"]}}[spec["init"]]
    return InterleavedSampler(main_sampler=main_sampler, batch_size=spec["B"], configs=configs, drop_last=spec["drop_last"], **dur)


def _run_sched_inter(run, spec):
    x = P.make_input(spec["input"])
    _, ref_value = S.schedule_arg_and_reference(spec["schedule"])
    W, B, n = spec["W"], spec["B"], spec["n"]
    nW = max(W, 1)
    # the duration is handed to worker_init_fn the way it is handed to the sampler; the dataset length is supplied by the
    # sampler's dataset itself. The schedule spans the MAIN dataset's batches.
    kwargs = {"epochs": {"batch_size": B, "epochs": spec["epochs"], "world_size": 1, "drop_last": spec["drop_last"]},
              "updates": {"batch_size": B, "updates": n}, "samples": {"batch_size": B, "samples": n * B}}[spec["init"]]
    np.random.seed(spec["np_seed"] % (2 ** 32))
    torch.manual_seed(spec["np_seed"] % (2 ** 31))
    ok, built = call_real(run, lambda: _pipe(spec, scheduled=True), crash_key="ctor-crash", what="building the scheduled pipeline")
    if not ok:
        return
    ok, sampler = call_real(run, lambda: _inter_sampler(spec, built[0], x), crash_key="interleaved-ctor-crash", what="building the InterleavedSampler")
    if not ok:
        return
    if not _peek(run, spec, sampler.dataset, x, spec["main_len"]):     # indices below main_len address the main dataset
        return
    ref = _Reference(run, spec, x)
    hf = _hook_factory(spec)
    where = (f"InterleavedSampler(batch_size={B}, {spec['init']}, sides={[(sd['len'], sd['every']) for sd in spec['sides']]}), main length {spec['main_len']}, "
             f"{'real loader' if spec['loader'] else 'simulated'} W={W}, pipeline {spec['wrap']} around {spec['inner']['cls']}, schedule {spec['schedule']['type']}")
    run.cover("sched_inter", spec["loader"], spec["init"], W, len(spec["sides"]), tuple(sd["every"][0] for sd in spec["sides"]), spec["schedule"]["type"])
    for b in range(n):
        if ref.obs(ref_value(b, n), "hi") is None or ref.obs(ref_value(b, n), "lo") is None:
            return

    def judge(b, flat, draws, out, u):
        run.count("sched_inter_main_samples_checked")
        before = len(run.violations) + sum(run.known_hits.values())
        _check_sample(run, spec, where, b, ref_value(b, n), flat, draws, out, ref, u)
        return len(run.violations) + sum(run.known_hits.values()) > before

    if spec["loader"]:
        def go():
            loader = sampler.get_data_loader(num_workers=W)
            init = S.LoaderWorkerInit(kwargs, hf)
            if W == 0:      # single-process loading: the hook is called by hand with rank 0
                sampler.dataset.worker_init_fn(0, **kwargs)
                R.inject(sampler.dataset, R.RecGen(np.random.PCG64(0), u="hi", gate=0.0, choice_hook=hf() if hf else None))
            else:
                loader.worker_init_fn = init
            return [batch for batch in loader]
        try:
            batches = go()
        except Exception as e:
            if W == 0 or "Caught " in str(e):
                kind_, where_ = core.classify_exception(e)
                run.violation(f"scheduled-loader-crash:{type(e).__name__}", f"{where}: {type(e).__name__}: {str(e)[-1200:]}")
            else:
                run.count("loader_infrastructure_failures")
            return
        run.count("loader_runs")
        b = 0
        for batch in batches:
            if torch.is_tensor(batch):
                run.count("sched_inter_side_batches_seen")
                continue
            (idx, wid, xs), ctx = batch
            if len(idx) != B:
                continue
            for s_ in range(B):
                flat = {}
                for k, v in ctx.items():
                    if torch.is_tensor(v):
                        flat.update(R.flat_ctx({k: v[s_]}))
                    elif isinstance(v, (list, tuple)):
                        flat.update(R.flat_ctx({k: [t[s_] for t in v]}))
                run.count("sched_loader_samples_checked")
                if judge(b, flat, None, xs[s_], "hi"):
                    return
            b += 1
        if b != n:
            raise core.Inconclusive(f"harness: interleaved loader produced {b} full main batches, expected {n}")
        return

    # simulated workers: torch hands batch j of the batch sampler (main and side alike) to worker j % W
    ok, index_batches = call_real(run, lambda: [list(ib) for ib in sampler.batch_sampler], crash_key="interleaved-crash", what=where)
    if not ok:
        return
    workers = [copy.deepcopy(sampler.dataset) for _ in range(nW)]
    ctxm = (lambda w: S.as_worker(w, W, dataset=workers[w])) if W > 0 else (lambda w: contextlib.nullcontext())
    for w in range(nW):
        with ctxm(w):
            ok, _ = call_real(run, lambda: workers[w].worker_init_fn(w, **kwargs), crash_key="scheduled-init-crash", what=f"{where}: worker_init_fn(rank={w}, {kwargs})")
        if not ok:
            return
    b = 0
    for j, ib in enumerate(index_batches):
        w = j % nW
        if ib[0] >= spec["main_len"]:
            run.count("sched_inter_side_batches_seen")
            continue
        if len(ib) != B:
            continue
        with ctxm(w):
            for s_, i in enumerate(ib):
                u = "hi" if (b + s_) % 2 else "lo"
                g = R.RecGen(np.random.PCG64(0), u=u, gate=0.0, choice_hook=hf() if hf else None)
                R.inject(workers[w], g)
                ok, r = call_real(run, lambda: workers[w][i], crash_key="scheduled-call-crash", what=f"{where}: sample {s_} of main batch {b}")
                if not ok:
                    return
                ds_idx, ((idx, wid, out), ctx) = r
                run.count("sched_sim_samples_checked")
                if judge(b, R.flat_ctx(ctx), g.log, out, u):
                    return
        b += 1
    if b != n:
        raise core.Inconclusive(f"harness: interleaved batch sampler produced {b} full main batches, expected {n}")


# ================================================================================================ two scheduled transforms sharing one transform object
def _run_sched_shared(run, spec):
    from kappadata.transforms.base.kd_compose_transform import KDComposeTransform
    from kappadata.transforms.base.kd_scheduled_transform import KDScheduledTransform
    x = P.make_input(spec["input"])
    W, B, n = spec["W"], spec["B"], spec["n"]
    nW = max(W, 1)
    kwargs = {"batch_size": B, "updates": n} if spec["init"] == "updates" else {"batch_size": B, "samples": n * B}
    refs_v = [S.schedule_arg_and_reference(sc)[1] for sc in spec["schedules"]]
    np.random.seed(spec["np_seed"] % (2 ** 32))

    def build():
        t = _build_simple(spec["inner"])
        views = []
        for sc in spec["schedules"]:
            arg, _ = S.schedule_arg_and_reference(sc)
            views.append(KDScheduledTransform(KDComposeTransform([t]) if spec["variant"] == "compose" else t, schedule=arg))
        if spec["variant"] == "multiview":
            from kappadata.wrappers.sample_wrappers.kd_multi_view_wrapper import KDMultiViewWrapper
            return KDMultiViewWrapper(S.SchedLeaf(B * n, x), configs=list(views))
        return views
    ok, root = call_real(run, build, crash_key="ctor-crash", what="building two scheduled transforms around one transform object")
    if not ok:
        return
    workers = [copy.deepcopy(root) for _ in range(nW)]     # a deep copy keeps the sharing inside each worker
    ctxm = (lambda w: S.as_worker(w, W, dataset=None)) if W > 0 else (lambda w: contextlib.nullcontext())
    for w in range(nW):
        with ctxm(w):
            def init():
                if spec["variant"] == "multiview":
                    workers[w].worker_init_fn(w, **kwargs)
                else:
                    for v in workers[w]:
                        v.worker_init_fn(w, **kwargs)
            ok, _ = call_real(run, init, crash_key="scheduled-init-crash", what=f"worker_init_fn(rank={w}, {kwargs})")
        if not ok:
            return
    # reference per view: a fresh instance of the wrapped transform scaled once by that view's schedule value
    refs = [_Reference(run, dict(spec, schedule=sc), x) for sc in spec["schedules"]]
    hf = _hook_factory(spec)
    run.cover("sched_shared", spec["variant"], min(W, 3), B, tuple(sc["type"] for sc in spec["schedules"]))
    reused = {}
    for b in range(n):
        w = b % nW
        exp = [rv(b, n) for rv in refs_v]
        with ctxm(w):
            for s_ in range(B):
                u = "hi" if (b + s_) % 2 else "lo"
                if any(refs[v].obs(exp[v], u) is None for v in (0, 1)):
                    return
                where = (f"two KDScheduledTransform objects (schedules {[sc['type'] for sc in spec['schedules']]}) around one {spec['inner']['cls']} object "
                         f"[{spec['variant']}], calls alternating per sample, W={W}")
                if spec["variant"] == "multiview":
                    g = R.RecGen(np.random.PCG64(0), u=u, gate=0.0, choice_hook=hf() if hf else None)
                    R.inject(workers[w], g)
                    ctx = {}
                    ok, outs = call_real(run, lambda: workers[w].getitem_x(b * B + s_, ctx), crash_key="scheduled-call-crash", what=where)
                    if not ok:
                        return
                    results = [(R.flat_ctx(ctx.get(f"view{v}", {})), None, outs[v]) for v in (0, 1)]
                else:
                    results = []
                    for v in (0, 1):
                        g = R.RecGen(np.random.PCG64(0), u=u, gate=0.0, choice_hook=hf() if hf else None)
                        R.inject(workers[w], g)
                        ctx = _next_ctx(spec, reused)
                        if g.choice_hook is not None:
                            g.choice_hook.drain()
                        ok, out = call_real(run, lambda: workers[w][v](R.clone_input(x), ctx), crash_key="scheduled-call-crash", what=where)
                        if not ok:
                            return
                        if g.choice_hook is not None:
                            ctx.update(g.choice_hook.drain())
                        results.append((R.flat_ctx(ctx), g.log, out))
                for v, (flat, draws, out) in enumerate(results):
                    if draws is None and hf is not None:
                        continue    # probe magnitudes of the two views are not separable in one call
                    run.count("sched_shared_samples_checked")
                    before = len(run.violations) + sum(run.known_hits.values())
                    _check_sample(run, dict(spec, schedule=spec["schedules"][v]), f"{where}, view {v}", b, exp[v], flat, draws, out, refs[v], u)
                    if len(run.violations) + sum(run.known_hits.values()) > before:
                        return


# ================================================================================================ factor histories over object graphs
def _compose_edited(children, edit, placeholder):
    """KDComposeTransform whose live public member list is `children`, reached by editing the list after construction"""
    from kappadata.transforms.base.kd_compose_transform import KDComposeTransform
    if edit == "assign":
        c = KDComposeTransform([placeholder()] + list(children[1:]))
        c.transforms[0] = children[0]
    elif edit == "append":
        c = KDComposeTransform(list(children[:-1]))
        c.transforms.append(children[-1])
    elif edit == "reassign":
        c = KDComposeTransform([placeholder() for _ in children])
        c.transforms = list(children)
    else:
        c = KDComposeTransform(list(children))
    return c


def _reach(comps, name):
    if name.startswith("m"):
        return {name}
    out = set()
    for ch in comps[int(name[1:])]:
        out |= _reach(comps, ch)
    return out


def _run_graph(run, spec):
    from kappadata.transforms.base.kd_compose_transform import KDComposeTransform
    x = P.make_input(spec["input"])
    kind = spec["input"]["kind"]
    subs = {f"m{i}": _member_subject(m, x, kind) for i, m in enumerate(spec["members"])}
    comps = spec["comps"]
    np.random.seed(spec["np_seed"] % (2 ** 32))
    objs = {}
    for name, sub in subs.items():
        ok, t = call_real(run, sub.build, crash_key=f"{sub.family}:ctor-crash", what=f"{sub.label}: construction")
        if not ok:
            return
        objs[name] = t

    def get(name):
        if name not in objs:   # compositions are constructed when they are first needed (members may be pre-scaled by then)
            objs[name] = _compose_edited([get(ch) for ch in comps[int(name[1:])]], spec.get("edit"), subs["m0"].build)
        return objs[name]

    run.cover("graph", spec["scenario"], len(comps), kind)
    last, reached = {}, {m: [] for m in subs}      # model: the factor of the last call on an object that reaches the member
    for i, (target, f) in enumerate(spec["history"]):
        ok, _ = call_real(run, lambda: get(target).scale_strength(f), crash_key="compose:scale-crash",
                          what=f"history {spec['history']} over compositions {comps}: call {i} ({target}.scale_strength({f}))")
        if not ok:
            return
        for m in _reach(comps, target):
            last[m] = f
            reached[m].append(f)
    for name, sub in subs.items():
        # observability precondition (see evaluate): the member's signature must not depend on hidden generators
        cap = _Capture(run, quiet=True)
        a, b = _fresh(cap, sub, None), _fresh(cap, sub, None)
        sa = None if a is None else _sig(cap, sub, a, gates=False)
        sb = None if b is None else _sig(cap, sub, b, gates=False)
        tr = _fresh(cap, sub, last.get(name))
        sref = None if tr is None else _sig(cap, sub, tr)
        if sa is None or sb is None or sref is None or R.sig_diff(sa, sb, 0.0):
            run.count("subjects_not_judged")
            continue     # the member cannot be driven on its own (its own cases report that)
        sgot = _sig(cap, sub, objs[name])
        if sgot is None:
            run.count("subjects_not_judged")
            continue
        run.count("history_members_checked")
        diffs = R.sig_diff(sref, sgot, TOL_SAME)
        if not diffs:
            continue
        # is the member itself history dependent (its own mechanism) or did the composition not pass the factor on?
        key = "compose:history"
        tm = _fresh(cap, sub, None)
        if tm is not None:
            try:
                for f in reached[name]:
                    tm.scale_strength(f)
                sm = _sig(cap, sub, tm)
                if sm is not None and R.sig_diff(sref, sm, TOL_SAME):
                    key = f"{sub.family}:compounding"
            except Exception:
                pass
        want = f"a fresh instance scaled once by {last[name]}" if name in last else "a fresh instance as constructed (no call reached it)"
        run.violation(key, f"object graph {comps} over members {[s_.label for s_ in subs.values()]}, history {spec['history']} [{spec['scenario']}]: "
                      f"member {name} ({sub.label}) does not have the signature of {want}: " + "; ".join(diffs[:4]))
        return


# ================================================================================================ run_case
def run_case(run, spec):
    k = spec["kind"]
    if k == "graph":
        return _run_graph(run, spec)
    if k == "sched_inter":
        return _run_sched_inter(run, spec)
    if k == "sched_shared":
        return _run_sched_shared(run, spec)
    if k in ("sched_sim", "sched_loader"):
        return _run_sched_sim(run, spec) if k == "sched_sim" else _run_sched_loader(run, spec)
    x = P.make_input(spec["input"])
    kind = spec["input"]["kind"]
    if k == "single":
        S_ = _member_subject({"cls": spec["cls"], "params": spec["params"]}, x, kind)
        S_.refusal = spec.get("refusal")
        p = spec["params"].get("p")
        run.cover("single", spec["cls"], kind, "p0" if p == 0 else "p1" if p == 1 else "p" if p is not None else "-",
                  str(spec["params"].get("magnitude_std", spec["params"].get("threshold_std", "-")) in ("inf", 0.0)))
    elif k == "mag":
        r = _ST["mag"]
        S_ = Subject(label=f"MagnitudeSampler({_short(spec['params'])})", family="magnitude", build=lambda: r.build(spec["params"]), x=None, kind="none")
        run.cover("mag", str(spec["params"]["magnitude_std"]), spec["params"]["magnitude_min"] == spec["params"]["magnitude"])
    elif k == "compose":
        S_ = _compose_subject(spec, x, kind)
        run.cover("compose", spec["layout"], len(spec["members"]), kind)
        for m in spec["members"]:
            run.cover("compose-member", m["cls"])
    elif k == "common":
        r = _recipe(spec["cls"])
        try:
            r.build(spec["params"])
        except Exception as e:   # a preset that cannot be constructed with (near) default arguments: not a scaling question
            lst = run.notes.setdefault("unconstructible_presets", [])
            msg = f"{spec['cls']}: {type(e).__name__}: {e}"
            if msg not in lst:
                lst.append(msg)
            run.count("preset_not_constructible")
            return
        S_ = _common_subject(spec, x)
        run.cover("common", spec["cls"])
    else:
        raise ValueError(k)
    last = spec["seq"][-1]
    run.cover("sequence", len(spec["seq"]), "0" if last == 0 else "1" if last == 1 else "f1" if last == spec["f1"] else "f2" if last == spec["f2"] else "other")
    _judge(run, S_, spec)
