"""Harness-side datasets / wrappers / helpers shared by the property modules.

Everything here is *outside* the repository; it only subclasses the public base classes
(KDDataset, KDWrapper) the way a user of the library would.
"""
from __future__ import annotations

import io
import random as pyrandom
import sys

import numpy as np
import torch

from kappadata.datasets.kd_dataset import KDDataset
from kappadata.datasets.kd_wrapper import KDWrapper

from . import core


# --------------------------------------------------------------------------------------------- datasets
class Leaf(KDDataset):
    """root dataset whose x is a unique decodable token and which logs every load.

    x token   : (tag, i)               (tuple -> can be compared exactly)
    class     : classes[i]             (python int; -1 = unlabeled)
    getall_*  : list / ndarray / tensor according to `getall_kind`
    """

    def __init__(self, n, tag="L", classes=None, n_classes=None, getall_kind="list", log=None, collators=None,
                 alias_getall=False):
        super().__init__(collators=collators)
        self.n = n
        self.tag = tag
        self.classes = list(classes) if classes is not None else [i % 3 for i in range(n)]
        assert len(self.classes) == n
        self._n_classes = n_classes if n_classes is not None else (max([c for c in self.classes] + [0]) + 1)
        self.getall_kind = getall_kind
        self.alias_getall = alias_getall
        self.log = log if log is not None else []
        self.disposed = 0
        self.leaf_marker = ("leaf-attr", tag)
        self.class_names = [f"{tag}-class{c}" for c in range(self._n_classes)]  # an attribute name the library itself reads through wrapper chains

    def _norm(self, idx):
        i = int(idx)
        if i < 0:
            i += self.n
        if not 0 <= i < self.n:
            raise IndexError(f"leaf {self.tag}: index {idx} out of range for size {self.n}")
        return i

    def getitem_x(self, idx, ctx=None):
        i = self._norm(idx)
        self.log.append(("x", self.tag, i, id(ctx) if ctx is not None else None))
        if ctx is not None:
            ctx["x_idx"] = i
        return (self.tag, i)

    def getitem_class(self, idx, ctx=None):
        i = self._norm(idx)
        self.log.append(("class", self.tag, i, id(ctx) if ctx is not None else None))
        if ctx is not None:
            ctx["class_idx"] = i
        return self.classes[i]

    def getitem_y(self, idx, ctx=None):
        i = self._norm(idx)
        self.log.append(("y", self.tag, i, id(ctx) if ctx is not None else None))
        if ctx is not None:
            ctx["y_idx"] = i
        return ("y", self.tag, i)

    def conf_of(self, i):
        """a non-integer per-sample item (confidence / weight / timestamp) held as a python float (double precision)"""
        return (sum(map(ord, str(self.tag))) % 64) * 128 + i + 0.1   # float64; NOT exactly representable in float32

    def getitem_conf(self, idx, ctx=None):
        i = self._norm(idx)
        self.log.append(("conf", self.tag, i, id(ctx) if ctx is not None else None))
        return self.conf_of(i)

    def getall_conf(self):
        return [self.conf_of(i) for i in range(self.n)]

    def getall_class(self):
        if self.getall_kind == "list":
            return self.classes if self.alias_getall else list(self.classes)
        if self.getall_kind == "ndarray":
            return np.array(self.classes, dtype=np.int64)
        if self.getall_kind == "tensor":
            return torch.tensor(self.classes, dtype=torch.long)
        if ":" in self.getall_kind:
            # narrow label dtypes as label files hold them: "ndarray:uint8", "tensor:int16", ...
            kind, dt = self.getall_kind.split(":")
            return np.array(self.classes, dtype=getattr(np, dt)) if kind == "ndarray" else torch.tensor(self.classes, dtype=getattr(torch, dt))
        raise ValueError(self.getall_kind)

    def getshape_class(self):
        return (self._n_classes,)

    def getshape_class_coarse(self):
        # an item whose name contains an underscore (getdim_class_coarse is its alias)
        return (self._n_classes + 7,)

    def __len__(self):
        return self.n

    def dispose(self):
        self.disposed += 1


class PassWrapper(KDWrapper):
    """KDWrapper that overrides nothing (pure delegation through __getattr__)"""


class DisposeWrapper(KDWrapper):
    """KDWrapper with resources of its own: counts how often its dispose() is reached, then passes the call on"""

    def __init__(self, dataset):
        super().__init__(dataset=dataset)
        self.own_disposed = 0

    def dispose(self):
        self.own_disposed += 1
        self.dataset.dispose()


class TagWrapper(KDWrapper):
    """KDWrapper that transforms x visibly (so that a skipped layer is observable) and passes everything else on"""

    def __init__(self, dataset, tag="T"):
        super().__init__(dataset=dataset)
        self.wtag = tag

    def getitem_x(self, idx, ctx=None):
        return (self.wtag, self.dataset.getitem_x(idx, ctx))


def untag(tok):
    """strip TagWrapper layers -> (list of wrapper tags outermost first, leaf token)"""
    tags = []
    while isinstance(tok, tuple) and len(tok) == 2 and isinstance(tok[1], tuple):
        tags.append(tok[0])
        tok = tok[1]
    return tags, tok


# --------------------------------------------------------------------------------------------- equality
def canon_value(v):
    """canonical, hashable-ish representation of nested outputs (tensor / ndarray / PIL / containers)"""
    if torch.is_tensor(v):
        return ("tensor", str(v.dtype), tuple(v.shape), v.detach().cpu().contiguous().numpy().tobytes())
    if isinstance(v, np.ndarray):
        return ("ndarray", str(v.dtype), tuple(v.shape), np.ascontiguousarray(v).tobytes())
    if isinstance(v, (np.integer,)):
        return ("npint", int(v))
    if isinstance(v, (np.floating,)):
        return ("npfloat", float(v).hex())
    if isinstance(v, float):
        return ("float", v.hex())
    if isinstance(v, (list, tuple)):
        return (type(v).__name__, tuple(canon_value(x) for x in v))
    if isinstance(v, dict):
        return ("dict", tuple(sorted((repr(k), canon_value(x)) for k, x in v.items())))
    try:
        from PIL import Image
        if isinstance(v, Image.Image):
            return ("pil", v.mode, v.size, v.tobytes())
    except Exception:
        pass
    return ("py", type(v).__name__, repr(v))


def same(a, b):
    return canon_value(a) == canon_value(b)


def loose_equal(a, b):
    """value equality that ignores container kind/dtype (int vs np.int64 vs 0-d tensor; list vs tuple vs 1-d array)"""
    def norm(v):
        if torch.is_tensor(v):
            v = v.tolist()
        elif isinstance(v, np.ndarray):
            v = v.tolist()
        elif isinstance(v, np.generic):
            v = v.item()
        if isinstance(v, (list, tuple)):
            return [norm(x) for x in v]
        return v
    return norm(a) == norm(b)


# --------------------------------------------------------------------------------------------- global RNG sentinels
class GlobalRngSentinel:
    """snapshot / perturb / compare the three process-global RNGs"""

    @staticmethod
    def snapshot():
        st = np.random.get_state()
        return (
            (st[0], st[1].tobytes(), st[2], st[3], st[4]),
            torch.get_rng_state().numpy().tobytes(),
            pyrandom.getstate(),
        )

    @staticmethod
    def seed_all(seed):
        np.random.seed(seed % (2 ** 32))
        torch.default_generator.manual_seed(seed)  # torch.manual_seed also queues CUDA/XPU seeding (~1 ms per call)
        pyrandom.seed(seed)

    @staticmethod
    def diff(a, b):
        names = ["numpy", "torch", "python"]
        return [names[i] for i in range(3) if a[i] != b[i]]


# --------------------------------------------------------------------------------------------- step budget
_TOOL_ID = 3  # sys.monitoring tool slot


def codes_of(*objs):
    """all code objects (incl. nested) of the given functions / classes / modules that live in the repository"""
    import inspect
    import types
    prefix = str(core.REPO / "kappadata")
    out, seen = [], set()

    def add_code(c):
        if id(c) in seen or not c.co_filename.startswith(prefix):
            return
        seen.add(id(c))
        out.append(c)
        for k in c.co_consts:
            if isinstance(k, types.CodeType):
                add_code(k)

    def visit(o, depth=0):
        if isinstance(o, types.CodeType):
            add_code(o)
        elif inspect.isfunction(o):
            add_code(o.__code__)
        elif inspect.ismethod(o):
            add_code(o.__func__.__code__)
        elif isinstance(o, (staticmethod, classmethod)):
            visit(o.__func__, depth)
        elif isinstance(o, property):
            for f in (o.fget, o.fset, o.fdel):
                if f is not None:
                    visit(f, depth)
        elif inspect.isclass(o):
            for klass in o.__mro__:
                if getattr(klass, "__module__", "").startswith("kappadata"):
                    for v in vars(klass).values():
                        if not inspect.isclass(v):
                            visit(v, depth + 1)
        elif inspect.ismodule(o) and depth == 0:
            for v in vars(o).values():
                if (inspect.isfunction(v) or inspect.isclass(v)) and getattr(v, "__module__", None) == o.__name__:
                    visit(v, depth + 1)
    for o in objs:
        visit(o)
    return out


class StepBudget:
    """logical step budget: sys.monitoring JUMP (+BRANCH-free) events enabled *locally* on the given code objects.

    Every taken jump (loop back-edge, continue, ...) in those code objects counts one step; exceeding `limit` raises
    core.StepBudgetExceeded (a BaseException) inside the code under test. A termination verdict that does not depend
    on wall-clock time.
    """

    def __init__(self, limit, codes, what=""):
        self.limit = int(limit)
        self.what = what
        self.codes = list(codes)
        self.steps = 0

    def _on_jump(self, code, src, dst):
        self.steps += 1
        if self.steps > self.limit:
            raise core.StepBudgetExceeded(f"{self.what}: more than {self.limit} jumps (in {code.co_name}, {code.co_filename.rsplit('/', 1)[-1]})")

    def __enter__(self):
        mon = sys.monitoring
        if mon.get_tool(_TOOL_ID) is not None:
            mon.free_tool_id(_TOOL_ID)
        mon.use_tool_id(_TOOL_ID, "kdv-stepbudget")
        mon.register_callback(_TOOL_ID, mon.events.JUMP, self._on_jump)
        for c in self.codes:
            mon.set_local_events(_TOOL_ID, c, mon.events.JUMP)
        return self

    def __exit__(self, *exc):
        mon = sys.monitoring
        for c in self.codes:
            mon.set_local_events(_TOOL_ID, c, 0)
        mon.register_callback(_TOOL_ID, mon.events.JUMP, None)
        mon.free_tool_id(_TOOL_ID)
        return False


# --------------------------------------------------------------------------------------------- misc
def call_real(run, fn, refusal_class=None, crash_key="crash", what=""):
    """call into the repository; classify exceptions per DESIGN 1.2.

    returns (ok, value). A guard refusal is accepted only if `refusal_class` is given (an enumerated refusal class);
    otherwise it is a violation (`refused-in-domain`). Crashes are violations.
    """
    try:
        return True, fn()
    except core.StepBudgetExceeded:
        raise
    except Exception as e:
        kind, where = core.classify_exception(e)
        if kind == "guard" and refusal_class is not None:
            run.refusal(refusal_class)
            return False, e
        key = f"{crash_key}:{type(e).__name__}" if kind == "crash" else f"refused-in-domain:{type(e).__name__}"
        run.violation(key, f"{what}: {type(e).__name__}: {e} at {where}\n{core.short_tb(e)}")
        return False, e
