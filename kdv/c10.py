"""C10 — batch mixup/cutmix mixes image and label with the same partner and weight.

The batch is built from an id-encoded dataset (h10_mix.py): every pixel value names (sample id, channel, row, column)
exactly in float32 and labels are known per id. The REAL collator (KDMixCollator alone, inside KDComposeCollator,
kappadata.common.collators.MAEFinetuneMixCollator, optionally through a DataLoader) is called on it and the oracle reads
*only the returned batch / ctx*:

* per sample i and per partner j the shuffle mode admits (roll: i-1, flip: B-1-i, random: any j) the image is read as
  "x_i itself" / "x_i with exactly one axis-aligned box of same-position pixels of x_j" (exact pixel comparison, retained
  fraction = weight) / "w*x_i+(1-w)*x_j" (least squares, float32 error bound); the label is read as w*y_i+(1-w)*y_j;
  ctx["lambda"] is the reported weight. The property holds for i iff one partner j reads consistently with ONE weight
  in all three places (a source that cannot show the weight — partner == self, equal labels, no ctx — is skipped);
* shuffle_mode="random": the admissible partners must allow a bijection;
* label rows stay distributions / binary scalars stay scalars in [0,1]; other items and ctx entries are bit-identical to
  torch's default collation of the same samples; the batch layout follows the dataset mode.
"""
from __future__ import annotations

import numpy as np
import torch
from torch.utils.data import DataLoader, default_collate

from kappadata.collators import KDComposeCollator, KDMixCollator
from kappadata.common.collators import MAEFinetuneMixCollator
from kappadata.wrappers.mode_wrapper import ModeWrapper

from .h10_mix import LABEL_TOL, W_EPS, MixLeaf, encode, image_fits, label_fit, make_layout_collator, perfect_matching
from .harness import call_real, canon_value, same

LEVEL = "exploration"
RULE = ("systematic sweep over apply x lamb x shuffle x {mixup,cutmix,mixed} x driver {KDMixCollator, KDComposeCollator, KDComposeCollator "
        "behind a harness collator that hands image/label on in a non-contiguous layout (NHWC / channels_last / strided slices / reversed "
        "storage; strided / transposed / expanded labels), MAEFinetuneMixCollator, DataLoader(collate_fn), KDMixCollator.collate(batch, mode, ctx) called directly with ONE caller-owned ctx dict "
        "reused over the whole history} followed by random cases: B in 1..9 (flip mostly even), C in 1..4, "
        "H,W in 1..24 (1-pixel, non-square), one-hot (2..10 classes, unique or repeated; float32 / float64 / float16 / "
        "int64 as produced by F.one_hot), label-smoothed (float32 / float64), binary int/float/soft-scalar labels "
        "(python numbers, float32 / float64 / int64 tensors) or no label item, dataset modes = random permutations of x [class] [index aux meta "
        "name ctx.src], 15% with repeated item names (x / class / others listed twice), return_ctx on/off, alphas 0.1..8, collator seeds; "
        "30% of the cases are histories: the same collator instance collates 2..4 consecutive batches (same shape with fresh ids, or B/C/H/W "
        "changed in between), each judged against its own inputs and re-read after the whole history (nothing emitted earlier may change); before 35% of the "
        "later batches the collator is reconfigured through its public attributes (all seven, or shuffle_mode only) and the batch is judged "
        "against the configuration the object then reports; a case is distinct by its full spec and trivial if it is a single batch with B == 1")
ASSUMPTIONS = [
    "mixup_p + cutmix_p == 1 only (the constructor refuses other sums with NotImplementedError; 'apply' is therefore always true and not judged)",
    "dataset modes always contain 'x' (the collator derives the batch size from the image item)",
    "a dataset mode may list an item name twice (ModeWrapper has no uniqueness check): the first occurrence of x / class is the mixed one "
    "(ModeWrapper.get_item / set_item address the first occurrence), every later copy is judged as a pass-through item (silent on the pristine tree)",
    "reconfiguration: mixup_alpha, cutmix_alpha, mixup_p, cutmix_p, apply_mode, lamb_mode, shuffle_mode are plain public attributes read at call "
    "time on /repo; they are only reassigned to value sets the constructor accepts (normalised the way the constructor stores them); "
    "dataset_mode / return_ctx are not reassigned; batches after a reconfiguration do not count for the random-shuffle statistic",
    "a probability of 0 means that kind of mix never happens (mix-kind-not-configured) and lamb_mode='batch' means one weight for the whole batch "
    "(class docstring); that lamb_mode='sample' weights differ and apply_mode are not judged",
    "expanded (stride-0) labels are driven only where all samples share the label and the label dtype is not float32: a float32 label is mixed in "
    "place, which torch refuses for overlapping memory on /repo as well (RuntimeError) - outside the claim",
    "collate driver: the caller's ctx dict is updated with the default-collated dataset ctx before each call and still holds the previous call's "
    "'lambda' / 'use_cutmix' / 'apply'; only ctx['lambda'] is judged (it must be the weight of the batch just collated); two mix collators chained "
    "in one compose pipeline are not driven (a double mix is not decodable by this oracle)",
    "histories: batches of one history share mode, label kind/dtype and collator instance; a flip refusal of an odd batch does not end the history",
    "shuffle_mode='random' is read as a permutation of the batch (DESIGN C10: a bijection shared by image and label); fixed points are allowed",
    "flip with an odd batch size is an enumerated refusal class (the collator's own assert); if the call returns, the oracle is applied with p(i)=B-1-i",
    "ctx['lambda'] may hold one weight for the whole batch or one per sample; ctx['apply'] / ctx['use_cutmix'] are not judged",
    "float tolerances: image 16*2^-24*max|x| per pixel (float32 convex combination), labels 2e-6, compared weights 2e-6 plus the propagated decode error",
    "dtype of the mixed label is not judged (int / float64 / float16 labels become float32 on the current code); labels are compared "
    "numerically in float64 against the float32 value of the input label; float16 is only driven with exact 0/1 one-hot rows",
    "statistical clause (random shuffling really moves samples): only batches with B>=5, pure mixup, alpha>=1, 6-bit ids count; a correct "
    "implementation leaves such a batch unmoved with probability < 0.02, the clause fires only if >= 8 such batches were all unmoved (< 2.6e-14)",
]
MONITORS = ["reused_ctx_calls_checked", "noncontiguous_input_batches_checked", "reconfigured_batches_checked", "earlier_outputs_rechecked", "mix_kind_checked",
            "batch_lambda_shared_checked", "history_batches_checked", "repeated_item_copies_compared", "batches_checked", "samples_checked", "cutmix_box_decoded", "mixup_weight_decoded", "label_weight_decoded",
            "image_label_weight_compared", "ctx_lambda_compared", "partner_identified_from_output", "passthrough_items_compared",
            "layout_checked", "binary_labels_checked", "random_bijection_checked", "non_float32_label_batches_checked"]

APPLY = ["batch", "sample"]
LAMB = ["batch", "sample"]
SHUFFLE = ["roll", "flip", "random"]
SPLITS = ["mixup", "cutmix", "mixed"]
DRIVERS = ["single", "compose", "layout", "loader", "mae"]
IMAGE_LAYOUTS = ["nhwc", "nhwc", "channels_last", "strided_hw", "strided_batch", "whcn"]
LABEL_LAYOUTS = ["contiguous", "strided", "transposed", "expanded"]
CFG_ATTRS = ["mixup_alpha", "cutmix_alpha", "mixup_p", "cutmix_p", "apply_mode", "lamb_mode", "shuffle_mode"]
ALPHAS = [0.1, 0.4, 0.8, 1.0, 1.0, 2.0, 8.0]
MIXED_P = [(0.5, 0.5), (0.5, 0.5), (0.2, 0.8), (0.8, 0.2), (0.9, 0.1), (0.1, 0.9), (0.3, 0.7), (0.25, 0.75)]
EXTRA_ITEMS = ["index", "aux", "meta", "name"]


# ------------------------------------------------------------------------------------------------- generation
def _gen_label(rng, B, want_class):
    if not want_class:
        return {"kind": "none"}
    r = rng.random()
    if r < 0.5:
        K = rng.choice([2, 2, 3, 4, 5, 7, 10, rng.randint(2, 10)])
        if K >= B and rng.random() < 0.7:
            classes = rng.sample(range(K), B)  # label == id: the label names the partner
        else:
            classes = [rng.randrange(K) for _ in range(B)]
        # float32 is what OneHotWrapper gives; int64 is torch.nn.functional.one_hot's own dtype; the others are converted copies
        return {"kind": "onehot", "K": K, "classes": classes, "dtype": rng.choice(["float32", "float32", "int64", "int64", "float64", "float16"])}
    if r < 0.62:
        K = rng.randint(2, 10)
        return {"kind": "smooth", "K": K, "classes": [rng.randrange(K) for _ in range(B)], "smooth": rng.choice([0.1, 0.3]),
                "dtype": rng.choice(["float32", "float64"])}
    kind = rng.choice(["bin_int", "bin_int", "bin_float", "bin_tensor"])
    pool = [0, 1] if kind != "bin_tensor" or rng.random() < 0.5 else [0, 1, 0.25, 0.5]
    lab = {"kind": kind, "values": [rng.choice(pool) for _ in range(B)]}
    if kind == "bin_tensor":
        lab["dtype"] = rng.choice(["float32", "float64"] + (["int64"] if len(pool) == 2 else []))
    return lab


def _gen_dim(rng):
    return rng.choice([1, 1, 2, 3, 4, 5, 6, 7, 8, 8, 12, 16, rng.randint(1, 24)])


def _gen_cfg(rng, apply_mode, lamb_mode, shuffle_mode, split):
    if split == "mixup":
        cfg = {"mixup_alpha": rng.choice(ALPHAS), "mixup_p": 1.0}
        if rng.random() < 0.5:
            cfg.update(cutmix_p=0.0)
    elif split == "cutmix":
        cfg = {"cutmix_alpha": rng.choice(ALPHAS), "cutmix_p": 1.0}
        if rng.random() < 0.5:
            cfg.update(mixup_p=0.0)
    else:
        mp, cp = rng.choice(MIXED_P)
        cfg = {"mixup_alpha": rng.choice(ALPHAS), "cutmix_alpha": rng.choice(ALPHAS), "mixup_p": mp, "cutmix_p": cp}
    cfg.update(apply_mode=apply_mode, lamb_mode=lamb_mode, shuffle_mode=shuffle_mode)
    return cfg


def _gen_case(rng, combo=None):
    apply_mode, lamb_mode, shuffle_mode, split, driver = combo or (
        rng.choice(APPLY), rng.choice(LAMB), rng.choice(SHUFFLE), rng.choice(SPLITS),
        rng.choice(["single", "single", "single", "compose", "layout", "layout", "loader", "mae", "collate", "collate"]))
    if driver == "mae":
        apply_mode, lamb_mode, shuffle_mode, split = "batch", "batch", "flip", "mixed"
        cfg = {"mixup_alpha": 0.8, "cutmix_alpha": 1.0, "mixup_p": 0.5, "cutmix_p": 0.5}
        cfg.update(apply_mode=apply_mode, lamb_mode=lamb_mode, shuffle_mode=shuffle_mode)
    else:
        cfg = _gen_cfg(rng, apply_mode, lamb_mode, shuffle_mode, split)
    B = rng.choice([1, 2, 2, 3, 4, 4, 5, 6, 6, 7, 8, 8, 9])
    if shuffle_mode == "flip" and B % 2 == 1 and rng.random() < 0.85:
        B += 1 if B < 9 else -1
    bits = 6 if rng.random() < 0.8 else 10
    ids = rng.sample(range(1 << bits), B)
    order = list(range(B))
    if rng.random() < 0.5:
        rng.shuffle(order)
    C = rng.choice([1, 1, 3, 3, 2, 4])
    H, W = _gen_dim(rng), _gen_dim(rng)
    if rng.random() < 0.04:
        H = W = 1
    if rng.random() < 0.03:
        H, W = rng.choice([(64, 3), (3, 64), (64, 64)])
    if driver == "mae":
        mode, return_ctx = "x class", False
        label = _gen_label(rng, B, True)
    else:
        want_class = rng.random() < 0.85
        items = ["x"] + (["class"] if want_class else [])
        r = rng.random()
        if r < 0.45:
            extra = []
        elif r < 0.75:
            extra = [rng.choice(EXTRA_ITEMS)]
        else:
            extra = rng.sample(EXTRA_ITEMS, rng.randint(1, len(EXTRA_ITEMS)))
        items += extra
        rng.shuffle(items)
        if rng.random() < 0.1:
            items.insert(rng.randint(items.index("x") + 1, len(items)), "ctx.src")  # filled by getitem_x -> after x
        if rng.random() < 0.15:
            # a mode may list an item twice (e.g. "x class x" carries an unmixed reference image): get_item / set_item address
            # the first occurrence, every later copy is an ordinary pass-through item
            for _ in range(rng.choice([1, 1, 2])):
                dup = rng.choice([it for it in items if it != "ctx.src"] + ["x"] + (["class"] if want_class else []))
                items.insert(rng.randint(0, len(items)), dup)
        mode = " ".join(items)
        return_ctx = rng.random() < 0.6 or driver == "collate"  # collate driver: the caller owns (and reuses) the ctx dict
        label = _gen_label(rng, B, want_class)
    spec = {"driver": driver, "cfg": cfg, "split": split, "B": B, "C": C, "H": H, "W": W, "bits": bits, "ids": ids, "order": order,
            "label": label, "mode": mode, "return_ctx": return_ctx, "rng_seed": rng.randrange(2 ** 31)}
    if driver == "layout":
        spec["layout"] = [rng.choice(IMAGE_LAYOUTS), rng.choice(LABEL_LAYOUTS)]
    if rng.random() < (0.75 if driver == "collate" else 0.3):
        spec["more"] = _gen_more(rng, spec)
    if B == 1 and not spec.get("more"):
        spec["_trivial"] = True
    return spec


def _regen_label(rng, label, B):
    lab = dict(label)
    if lab["kind"] == "onehot":
        K = lab["K"]
        lab["classes"] = rng.sample(range(K), B) if K >= B and rng.random() < 0.7 else [rng.randrange(K) for _ in range(B)]
    elif lab["kind"] == "smooth":
        lab["classes"] = [rng.randrange(lab["K"]) for _ in range(B)]
    elif lab["kind"] != "none":
        pool = [0, 1] if all(v in (0, 1) for v in lab["values"]) else [0, 1, 0.25, 0.5]
        lab["values"] = [rng.choice(pool) for _ in range(B)]
    return lab


def _gen_more(rng, spec):
    """1..3 further batches collated by the SAME collator instance: same shape (fresh ids) or a changed B / C / H / W"""
    more, used = [], set(spec["ids"])
    cur = {k: spec[k] for k in ("B", "C", "H", "W")}
    shuffle_mode = spec["cfg"]["shuffle_mode"]
    for _ in range(rng.choice([1, 1, 2, 3])):
        recfg = None
        if rng.random() < 0.35:
            # reconfiguration through the collator's public attributes before this batch (all seven are plain attributes read at call time)
            split = rng.choice(SPLITS)
            recfg = {"split": split, "cfg": _gen_cfg(rng, rng.choice(APPLY), rng.choice(LAMB), rng.choice(SHUFFLE), split)}
            if rng.random() < 0.4:  # only the partner rule changes
                recfg = {"split": None, "cfg": {"shuffle_mode": rng.choice([m for m in SHUFFLE if m != shuffle_mode])}}
            shuffle_mode = recfg["cfg"]["shuffle_mode"]
            if shuffle_mode == "flip" and cur["B"] % 2 == 1 and rng.random() < 0.85:
                cur = dict(cur, B=cur["B"] + 1)
        if rng.random() < 0.35:
            cur = dict(cur)
            what = rng.choice(["B", "HW", "C", "all"])
            if what in ("B", "all"):
                B = rng.choice([1, 2, 3, 4, 5, 6, 8])
                if shuffle_mode == "flip" and B % 2 == 1 and rng.random() < 0.85:
                    B += 1
                cur["B"] = B
            if what in ("HW", "all"):
                cur["H"], cur["W"] = _gen_dim(rng), _gen_dim(rng)
            if what in ("C", "all"):
                cur["C"] = rng.choice([1, 2, 3, 4])
        B = cur["B"]
        free = [i for i in range(1 << spec["bits"]) if i not in used]
        ids = rng.sample(free if len(free) >= B else range(1 << spec["bits"]), B)  # fresh ids: a pixel of an earlier batch is recognisable
        used.update(ids)
        order = list(range(B))
        if rng.random() < 0.5:
            rng.shuffle(order)
        more.append(dict(cur, ids=ids, order=order, label=_regen_label(rng, spec["label"], B)))
        if recfg is not None:
            more[-1]["recfg"] = recfg
    return more


def gen_cases(run):
    n = run.n(4800, 280000)
    rng = run.rng
    combos = [(a, l, s, sp, d) for d in ["single", "compose", "layout", "loader", "collate"] for a in APPLY for l in LAMB for s in SHUFFLE for sp in SPLITS]
    combos += [("batch", "batch", "flip", "mixed", "mae")] * 6
    if run.shard is not None:
        rng.shuffle(combos)
    for i in range(n):
        yield _gen_case(rng, combos[i] if i < len(combos) else None)


# ------------------------------------------------------------------------------------------------- execution
def _build_collator(spec):
    rng = np.random.default_rng(spec["rng_seed"])
    if spec["driver"] == "mae":
        return MAEFinetuneMixCollator().set_rng(rng)
    if spec["driver"] == "compose":
        return KDComposeCollator(collators=[KDMixCollator(**spec["cfg"])], dataset_mode=spec["mode"],
                                 return_ctx=spec["return_ctx"]).set_rng(rng)
    if spec["driver"] == "layout":
        return KDComposeCollator(collators=[make_layout_collator(*spec["layout"]), KDMixCollator(**spec["cfg"])], dataset_mode=spec["mode"],
                                 return_ctx=spec["return_ctx"]).set_rng(rng)
    if spec["driver"] == "collate":  # KDMixCollator.collate(batch, dataset_mode, ctx) is called directly with a caller-owned ctx dict
        return KDMixCollator(**spec["cfg"]).set_rng(rng)
    return KDMixCollator(**spec["cfg"], dataset_mode=spec["mode"], return_ctx=spec["return_ctx"]).set_rng(rng)


def _cfgclass(cfg, split):
    return f"lamb={cfg['lamb_mode']}:split={split}"


def _mix_collator_of(coll):
    return coll if isinstance(coll, KDMixCollator) else next(c for c in coll.collators if isinstance(c, KDMixCollator))


def _split_of(cfg):
    mp, cp = cfg.get("mixup_p") or 0., cfg.get("cutmix_p") or 0.
    return "mixup" if cp == 0 else "cutmix" if mp == 0 else "mixed"


def _reconfigure(coll, state, recfg):
    """assign the public attributes of the mix collator; state = the configuration the object now reports"""
    mix = _mix_collator_of(coll)
    new = dict(recfg["cfg"])
    if recfg.get("split") is not None:  # full reconfiguration: normalise like the constructor does
        new = {"mixup_alpha": new.get("mixup_alpha"), "cutmix_alpha": new.get("cutmix_alpha"), "mixup_p": new.get("mixup_p") or 0.,
               "cutmix_p": new.get("cutmix_p") or 0., "apply_mode": new["apply_mode"], "lamb_mode": new["lamb_mode"], "shuffle_mode": new["shuffle_mode"]}
    for a, v in new.items():
        setattr(mix, a, v)
    state["cfg"] = {a: getattr(mix, a) for a in CFG_ATTRS}
    state["split"] = _split_of(state["cfg"])
    state["reconfigured"] = True


def _np(t):
    return t.detach().cpu().to(torch.float64).numpy()


def _describe(f):
    if f is None:
        return "-"
    if f["kind"] == "cutmix":
        return f"cutmix box(top,left,bot,right)={f['box']} retained={f['w']:.6f}"
    if f["kind"] == "mixup":
        return f"mixup w={f['w']:.6f}(+-{f['tol']:.1e})"
    return "unchanged (partner is the sample itself)"


def run_case(run, spec):
    if "finalize" in spec:  # whole-run clause: not replayable as a single case
        return
    ok, coll = call_real(run, lambda: _build_collator(spec), crash_key="ctor-crash", what=f"constructing {spec['driver']} collator {spec['cfg']}")
    if not ok:
        return
    first = {k: spec[k] for k in ("B", "C", "H", "W", "ids", "order", "label")}
    earlier = []  # [(batch number, (B,C,H,W), [reference images])] of the batches this collator instance has already collated
    emitted = []  # [(batch number, names, objects handed out, snapshot at emission)]
    state = {"cfg": spec["cfg"], "split": spec["split"], "reconfigured": False, "shared_ctx": {}}
    for k, b in enumerate([first] + list(spec.get("more", []))):
        if b.get("recfg"):
            _reconfigure(coll, state, b["recfg"])
        if not _run_batch(run, spec, b, coll, k, earlier, emitted, state):
            return
    # nothing handed out for an earlier batch may change when later batches are collated
    for k, names, objs, snap in emitted[:-1]:
        for name, o, s0 in zip(names, objs, snap):
            run.count("earlier_outputs_rechecked")
            if canon_value(o) != s0:
                run.violation(f"earlier-output-changed-by-later-batch:{name}", f"batch {k} of a history of {len(emitted)} ({spec['driver']}, {spec['cfg']}, "
                              f"mode={spec['mode']!r}): {name} was judged correct when it was emitted but reads {_short(o)} after the later batches were "
                              f"collated by the same collator instance (the emitted object shares state with the collator)")
                return


def _run_batch(run, spec, b, coll, k, earlier, emitted, state):
    """collate batch number k of the history with `coll` and judge it against ITS OWN inputs; False = stop the case"""
    cfg, split, bits = state["cfg"], state["split"], spec["bits"]
    B, C, H, W = b["B"], b["C"], b["H"], b["W"]
    mode, rc, order = spec["mode"], spec["return_ctx"], b["order"]
    items = mode.split(" ")
    first_pos = {it: items.index(it) for it in items}
    shuffle_mode = cfg["shuffle_mode"]
    cc = _cfgclass(cfg, split)
    hist = f"batch {k} of a history of {1 + len(spec.get('more', []))}: " if spec.get("more") else ""
    ds = MixLeaf(b["ids"], C, H, W, bits, b["label"])
    mw = ModeWrapper(dataset=ds, mode=mode, return_ctx=rc)

    # reference: plain default collation of the same samples (fresh fetch: the collator may work in place)
    ref = default_collate([mw[q] for q in order])
    ref_ctx = None
    if rc:
        ref, ref_ctx = ref
    ref_items = [ref] if len(items) == 1 else list(ref)

    refusal = "flip-odd-batch" if shuffle_mode == "flip" and B % 2 == 1 else None
    if spec["driver"] == "collate":
        # the SAME ctx dict object is handed to every collate call of the history (it still holds the keys of the previous call);
        # after the call it must describe the batch just collated
        collated, ctx_c = default_collate([mw[q] for q in order])
        shared = state["shared_ctx"]
        shared.update(ctx_c)
        arg = collated if len(items) == 1 else tuple(collated)
        fn = lambda: (coll.collate(arg, mode, shared), shared)
        if "lambda" in shared:
            run.count("reused_ctx_calls_checked")
    elif spec["driver"] == "loader":
        fn = lambda: next(iter(DataLoader(mw, batch_size=B, sampler=list(order), collate_fn=coll)))
    else:
        batch = [mw[q] for q in order]
        fn = lambda: coll(batch)
    n_refused = sum(run.refusals.values())
    ok, out = call_real(run, fn, refusal_class=refusal, what=f"{hist}{spec['driver']} collator(batch) mode={mode!r} B={B} {cfg}")
    if not ok:
        return sum(run.refusals.values()) > n_refused  # an enumerated refusal does not end the history, a violation does
    run.count("batches_checked")
    bclass = "1" if B == 1 else "2" if B == 2 else "odd" if B % 2 else "even"
    shape_class = "1px" if H * W == 1 else "line" if min(H, W) == 1 else "square" if H == W else "rect"
    run.cover(spec["driver"], cfg["apply_mode"], cfg["lamb_mode"], shuffle_mode, split)
    if spec["driver"] == "layout":
        run.count("noncontiguous_input_batches_checked")
        run.cover("layout", spec["layout"][0], spec["layout"][1] if "class" in items else "-", cfg["lamb_mode"], split)
    if b.get("recfg"):
        run.count("reconfigured_batches_checked")
        run.cover("reconfigured", "full" if b["recfg"].get("split") else "shuffle-only", shuffle_mode, cfg["lamb_mode"], split, spec["driver"])
    run.cover("B", bclass, shuffle_mode, spec["label"]["kind"], shape_class)
    run.cover("label-dtype", spec["label"]["kind"], spec["label"].get("dtype", "native"), cfg["lamb_mode"], split)
    run.cover("mode", len(items), "class" in items, rc, spec["driver"], len(set(items)) < len(items))
    if k > 0:
        run.count("history_batches_checked")
        run.cover("history", "same-shape" if any(e[1] == (B, C, H, W) for e in earlier) else "shape-changed", cfg["lamb_mode"], split, spec["driver"])

    # ---- layout
    ctx = None
    if rc:
        if not (isinstance(out, (list, tuple)) and len(out) == 2 and isinstance(out[1], dict)):
            run.violation("layout:return-ctx", f"return_ctx=True but the collator returned {_shape(out)} instead of (batch, ctx)")
            return False
        out, ctx = out
    run.count("layout_checked")
    if len(items) == 1:
        if not torch.is_tensor(out):
            run.violation("layout:single-item-mode", f"dataset_mode={mode!r} has one item, default collation gives a tensor "
                          f"{tuple(ref_items[0].shape)}, the collator returned {_shape(out)}")
            return False
        out_items = [out]
    else:
        if not (isinstance(out, (list, tuple)) and len(out) == len(items)):
            run.violation("layout:multi-item-mode", f"dataset_mode={mode!r} has {len(items)} items, the collator returned {_shape(out)}")
            return False
        out_items = list(out)

    # ---- remember what was handed out (re-read after the later batches of the history were collated)
    names = [f"item[{pos}]={it}" for pos, it in enumerate(items)] + ([f"ctx[{ck!r}]" for ck in ctx] if rc else [])
    objs = list(out_items) + ([ctx[ck] for ck in ctx] if rc else [])
    emitted.append((k, names, objs, [canon_value(o) for o in objs]))

    # ---- pass-through items and ctx entries
    for pos, it in enumerate(items):
        if it in ("x", "class") and pos == first_pos[it]:
            continue  # the mixed image / label: judged below
        run.count("passthrough_items_compared")
        copy = pos != first_pos[it]
        if copy:
            run.count("repeated_item_copies_compared")
        if not same(out_items[pos], ref_items[pos]):
            key = f"passthrough-changed:repeated-{it}" if copy else f"passthrough-changed:{it.split('.')[0]}"
            run.violation(key, f"{hist}item {it!r} (position {pos} of mode {mode!r}" + (f", a later copy of the item at position {first_pos[it]}" if copy else "")
                          + f") differs from default collation: got {_short(out_items[pos])}, expected {_short(ref_items[pos])}")
            return False
    if rc:
        for ck, v in ref_ctx.items():
            run.count("passthrough_items_compared")
            if ck not in ctx or not same(ctx[ck], v):
                run.violation("passthrough-changed:ctx", f"{hist}ctx[{ck!r}] differs from default collation: got {_short(ctx.get(ck))}, expected {_short(v)}")
                return False

    # ---- image / label tensors
    X = out_items[items.index("x")]
    if not torch.is_tensor(X) or tuple(X.shape) != (B, C, H, W):
        run.violation("image-shape", f"image item is {_shape(X)}, expected a tensor of shape {(B, C, H, W)}")
        return False
    X = _np(X)
    has_y = "class" in items
    binary = has_y and spec["label"]["kind"].startswith("bin")
    Y = None
    if has_y:
        Yt = out_items[items.index("class")]
        Yref = ref_items[items.index("class")]
        if not torch.is_tensor(Yt) or tuple(Yt.shape) != tuple(Yref.shape):
            run.violation("label-shape:binary" if binary else "label-shape", f"label item is {_shape(Yt)}, default collation has shape {tuple(Yref.shape)}")
            return False
        Y = _np(Yt)
        if not binary and spec["label"].get("dtype", "float32") != "float32":
            run.count("non_float32_label_batches_checked")
        if binary:
            run.count("binary_labels_checked")
            if not ((Y >= -LABEL_TOL) & (Y <= 1 + LABEL_TOL)).all():
                run.violation("label-range:binary", f"binary labels left [0,1]: {Y.tolist()}")
                return False
        else:
            if (Y < -LABEL_TOL).any() or np.abs(Y.sum(axis=1) - 1.0).max() > 1e-5:
                run.violation("label-rows-not-distributions", f"label rows must be non-negative and sum to one; sums={Y.sum(axis=1).tolist()} min={Y.min()}")
                return False
    lam = None
    if rc:
        if "lambda" not in ctx:
            run.violation("ctx-lambda-missing", f"ctx has keys {sorted(ctx)} but no 'lambda'")
            return False
        lam = _np(torch.as_tensor(ctx["lambda"])).reshape(-1)
        if lam.size not in (1, B):
            run.violation("ctx-lambda-shape", f"ctx['lambda'] has {lam.size} entries for a batch of {B}")
            return False
        if lam.size == 1:
            lam = np.repeat(lam, B)

    # references per batch position
    xs = [encode(b["ids"][q], C, H, W, bits) for q in order]
    ys = [ds.label_row(q) for q in order] if has_y else None

    # ---- per-sample decoding
    admissible = []
    readings = []
    decoded = []
    moved = False
    for i in range(B):
        run.count("samples_checked")
        if shuffle_mode == "roll":
            J = [(i - 1) % B]
        elif shuffle_mode == "flip":
            J = [B - 1 - i]
        else:
            J = list(range(B))
        res = _judge_sample(i, J, X, Y, lam, xs, ys)
        if not res["good"]:
            _report(run, spec, cfg, cc, i, J, res, X, Y, lam, xs, ys, hist, earlier)
            return False
        admissible.append(set(res["good"]))
        g = res["good"]
        readings.append(g)
        j0 = next(iter(g))
        f = g[j0]
        if f["img"]["kind"] == "cutmix":
            run.count("cutmix_box_decoded")
        elif f["img"]["kind"] == "mixup":
            run.count("mixup_weight_decoded")
        if f["w_lab"] is not None:
            run.count("label_weight_decoded")
        if f["img"]["w"] is not None and f["w_lab"] is not None:
            run.count("image_label_weight_compared")
        if lam is not None and (f["img"]["w"] is not None or f["w_lab"] is not None):
            run.count("ctx_lambda_compared")
        if len(g) == 1 and j0 != i and shuffle_mode == "random":
            run.count("partner_identified_from_output")
        if shuffle_mode != "random" and j0 != i and (f["img"]["w"] is not None and f["img"]["w"] < 1 - 1e-3 or f["w_lab"] is not None and f["w_lab"] < 1 - 1e-3):
            # roll / flip: the prescribed partner is visibly present in the output
            run.count("partner_identified_from_output")
        if i not in g:
            moved = True
        decoded.append([i, sorted(g), f["img"]["kind"], None if f["img"]["w"] is None else round(f["img"]["w"], 5),
                        None if f["w_lab"] is None else round(f["w_lab"], 5), None if lam is None else round(float(lam[i]), 5)])

    # ---- the configuration the object reports: kind of mix (a probability of 0 never happens), one weight per batch in lamb_mode="batch"
    for i, g in enumerate(readings):
        if split != "mixed" and not any(_kind_allowed(f, split) for f in g.values()):
            f = next(iter(g.values()))["img"]
            run.violation(f"mix-kind-not-configured:{cc}", f"{hist}sample {i} of B={B} ({spec['driver']}, {cfg}): the collator reports "
                          f"mixup_p={cfg.get('mixup_p')} cutmix_p={cfg.get('cutmix_p')} but the image reads as {_describe(f)}")
            return False
    run.count("mix_kind_checked", B)
    if cfg["lamb_mode"] == "batch":
        obs = [[(_w_of(f), f["img"]["tol"] + f["lab_tol"]) for f in g.values()] for g in readings]
        cands = [w for o in obs for w, _ in o if w is not None]
        shared = not cands or any(all(any(w is None or abs(w - c) <= t + 2 * W_EPS for w, t in o) for o in obs) for c in cands)
        run.count("batch_lambda_shared_checked")
        if not shared:
            run.violation(f"batch-lambda-not-shared:split={split}", f"{hist}lamb_mode='batch' (B={B}, {spec['driver']}, {cfg}) promises one lambda for the whole "
                          f"batch but the samples were mixed with different weights: {[[None if w is None else round(w, 5) for w, _ in o] for o in obs]}")
            return False

    if shuffle_mode == "random":
        run.count("random_bijection_checked")
        if not perfect_matching(admissible):
            run.violation(f"random-partner-not-a-permutation:{cc}", f"shuffle_mode=random: no bijection fits the decoded partners {[sorted(a) for a in admissible]} "
                          f"(several samples were mixed with the same partner)")
            return False
        if B >= 5 and split == "mixup" and cfg["mixup_alpha"] >= 1 and bits == 6 and not state["reconfigured"]:
            run.count("random_eligible_batches")
            if moved:
                run.count("random_eligible_moved")
    run.sample({"driver": spec["driver"], "cfg": cfg, "mode": mode, "return_ctx": rc, "B": B, "CHW": [C, H, W], "label": spec["label"]["kind"],
                "batch_in_history": [k, 1 + len(spec.get("more", []))], "decoded[i, partners, kind, w_image, w_label, ctx_lambda]": decoded})
    earlier.append((k, (B, C, H, W), xs))
    return True


def _w_of(st):
    return st["img"]["w"] if st["img"]["w"] is not None else st["w_lab"]


def _kind_allowed(st, split):
    """can the reading come from a collator that only does `split` (mixup / cutmix)?"""
    f = st["img"]
    if f["kind"] == "self" or f["w"] is None:
        return True
    edge = f["w"] <= f["tol"] + W_EPS or f["w"] >= 1 - f["tol"] - W_EPS  # w in {0,1}: both kinds give the same image
    return edge or f["kind"] == split


def _judge_sample(i, J, X, Y, lam, xs, ys):
    """stages reached per admissible partner j: 1 image reads as a mix with j, 2 label reads as a mix with j,
    3 image/label weights agree, 4 ctx lambda agrees -> good[j] = reading"""
    good, best = {}, {"stage": 0}
    for j in J:
        for f in image_fits(X[i], xs[i], xs[j], is_self=(j == i)):
            st = {"stage": 1, "j": j, "img": f, "w_lab": None, "lab_tol": 0.0}
            w_lab = None
            if Y is not None:
                lf = label_fit(Y[i], ys[i], ys[j])
                if lf is None:
                    best = max(best, st, key=lambda s: s["stage"])
                    continue
                w_lab, lab_tol = lf
                st.update(stage=2, w_lab=w_lab, lab_tol=lab_tol)
                if f["w"] is not None and w_lab is not None and abs(f["w"] - w_lab) > f["tol"] + lab_tol + W_EPS:
                    best = max(best, st, key=lambda s: s["stage"])
                    continue
            st["stage"] = 3
            if lam is not None:
                li = float(lam[i])
                bad = (f["w"] is not None and abs(f["w"] - li) > f["tol"] + W_EPS) or \
                      (w_lab is not None and abs(w_lab - li) > st["lab_tol"] + W_EPS) or not (-W_EPS <= li <= 1 + W_EPS)
                if bad:
                    best = max(best, st, key=lambda s: s["stage"])
                    continue
            st["stage"] = 4
            # prefer the most informative reading of a partner (one with an observable weight)
            if j not in good or (good[j]["img"]["w"] is None and f["w"] is not None):
                good[j] = st
    return {"good": good, "best": best}


def _report(run, spec, cfg, cc, i, J, res, X, Y, lam, xs, ys, hist="", earlier=()):
    B = len(xs)
    best = res["best"]
    mode = cfg["shuffle_mode"]
    head = f"{hist}sample {i} of B={B} ({spec['driver']}, {cfg}, mode={spec['mode']!r}, CHW={list(xs[0].shape)}): "
    if best["stage"] == 0:
        others = [(j, f) for j in range(B) if j not in J for f in image_fits(X[i], xs[i], xs[j], is_self=(j == i))]
        if others:
            j, f = others[0]
            run.violation(f"image-wrong-partner:{mode}", head + f"shuffle_mode={mode} prescribes partner {J}, but the image is a mix with sample {j}: {_describe(f)}")
        else:
            for ek, eshape, exs in earlier:  # does the output contain pixels of a batch collated EARLIER by this collator instance?
                if eshape[1:] != xs[0].shape:
                    continue
                for ej, ex in enumerate(exs):
                    if (ex == xs[i]).all():
                        continue  # ids were reused: indistinguishable from the sample itself
                    fits = image_fits(X[i], xs[i], ex, is_self=False)
                    n_px = int((X[i] == ex).sum())
                    if fits or n_px:
                        run.violation(f"image-mixed-with-earlier-batch:{cc}", head + f"the image is not a mix with any sample of its own batch; it contains "
                                      f"sample {ej} of batch {ek} collated earlier by the same collator instance "
                                      f"({_describe(fits[0]) if fits else str(n_px) + ' pixels equal to that sample'})")
                        return
            run.violation(f"image-not-a-mix:{cc}", head + f"image is neither x_i, nor x_i with one box of a partner pasted, nor a convex combination with "
                          f"any admissible partner {J}; pixel sources: {_sources(X[i], xs)}")
        return
    j, f = best["j"], best["img"]
    if best["stage"] == 1:
        alt = [(jj, label_fit(Y[i], ys[i], ys[jj])) for jj in range(B)]
        alt = [(jj, lf) for jj, lf in alt if lf is not None]
        if alt:
            run.violation(f"image-label-partner-mismatch:{cc}", head + f"image is mixed with sample {j} ({_describe(f)}) but the label {Y[i].tolist()} is "
                          f"a combination of y_i with the label of sample(s) {[(jj, lf[0]) for jj, lf in alt]} (y_i={ys[i].tolist()}, y_{j}={ys[j].tolist()})")
        else:
            run.violation(f"label-not-a-mix:{cc}", head + f"label {Y[i].tolist()} is not w*y_i+(1-w)*y_p for any sample p of the batch (y_i={ys[i].tolist()})")
        return
    if best["stage"] == 2:
        run.violation(f"image-label-weight-mismatch:{cc}", head + f"partner {j}: image says {_describe(f)}, label {np.round(Y[i], 6).tolist()} says "
                      f"w={best['w_lab']:.6f}" + ("" if lam is None else f", ctx['lambda']={float(lam[i]):.6f}"))
        return
    run.violation(f"ctx-lambda-mismatch:{cc}", head + f"partner {j}: ctx['lambda']={float(lam[i]):.6f} but image says {_describe(f)}"
                  + ("" if best["w_lab"] is None else f" and label says w={best['w_lab']:.6f}"))


def _sources(out, xs):
    """for diagnostics: how many pixels of `out` are exactly equal to the same-position pixel of each batch sample"""
    return {j: int((out == xj).sum()) for j, xj in enumerate(xs) if (out == xj).any()} or "no pixel equals any sample's pixel"


def _shape(o):
    if torch.is_tensor(o):
        return f"tensor{tuple(o.shape)}"
    if isinstance(o, (list, tuple)):
        inner = ", ".join(_shape(x) for x in list(o)[:6])
        return f"{type(o).__name__}[{len(o)}]({inner}{', …' if len(o) > 6 else ''})"
    return type(o).__name__


def _short(v):
    r = repr(v)
    return r if len(r) < 200 else r[:200] + "…"


# ------------------------------------------------------------------------------------------------- whole-run clause
def finalize_merged(run):
    n, moved = run.counters.get("random_eligible_batches", 0), run.counters.get("random_eligible_moved", 0)
    run.notes["random_shuffle_statistic"] = {"eligible_batches": n, "batches_with_a_sample_mixed_with_another": moved,
                                             "rule": "violation iff eligible >= 8 and none moved (false-alarm bound 0.02^8 < 2.6e-14)"}
    if n >= 8 and moved == 0:
        run.violation("random-shuffle-never-moves", f"shuffle_mode=random: in all {n} batches with B>=5 (pure mixup, alpha>=1) every output sample is "
                      f"indistinguishable from its unmixed input, i.e. no sample was ever mixed with another one", {"finalize": "random-shuffle-statistic"})
