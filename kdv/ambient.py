"""Ambient contracts (DESIGN 1.5): literal clauses of some properties attached as post-conditions to the REAL methods and
evaluated while the repository's own pinned test-suite runs as an additional workload (thorough tier only).

The conditions *record and return* (they never raise inside the code under test); zero evaluations = inconclusive for the
ambient layer (reported as a counter, never folded into "held"). Conditions are domain-aware: they only judge results
whose shape/type puts them inside the property's stated domain, so the repository's tests (which also feed out-of-domain
inputs on purpose) cannot make them fire on correct code.

This module is imported in two roles: as a pytest plugin inside the child pytest (`-p kdv.ambient`) and as a library by
kdv.main (run_for).
"""
from __future__ import annotations

import functools
import importlib
import json
import os
import subprocess
import sys
import tempfile
from pathlib import Path

RECORD_ENV = "KDV_AMBIENT_RECORD"
PROPS_ENV = "KDV_AMBIENT_PROPS"

# property -> test paths (relative to the repository root) used as workload
TESTS = {
    "C01": ["tests_unit/wrappers/test_mode_wrapper.py", "tests_unit/wrappers/test_torch_wrapper.py", "tests_integration"],
    "C04": ["tests_unit/samplers/interleaved_sampler"],
    "C10": ["tests_unit/collators", "tests_integration"],
    "C11": ["tests_unit/wrappers/sample_wrappers/test_kd_mix_wrapper.py", "tests_integration"],
    "C12": ["tests_unit/samplers", "tests_integration"],
    "C13": ["tests_unit/samplers", "tests_integration"],
    "C16": ["tests_unit/wrappers", "tests_integration"],
    "C17": ["tests_unit/collators"],
    "C18": ["tests_unit/collators", "tests_unit/samplers/interleaved_sampler"],
}

_records = {"evaluations": {}, "breaches": []}


def _note(name):
    _records["evaluations"][name] = _records["evaluations"].get(name, 0) + 1


def _breach(prop, name, msg):
    if len(_records["breaches"]) < 50:
        _records["breaches"].append({"property": prop, "contract": name, "what": str(msg)[:400]})


def _wrap_method(cls, method, post):
    orig = cls.__dict__.get(method)
    if orig is None:
        return False
    is_static = isinstance(orig, staticmethod)
    fn = orig.__func__ if is_static else orig

    @functools.wraps(fn)
    def wrapper(*a, **k):
        res = fn(*a, **k)
        try:
            post(a, k, res)
        except Exception as e:  # a broken contract must never disturb the code under test
            _note("contract_errors")
            _records.setdefault("contract_errors", []).append(f"{cls.__name__}.{method}: {type(e).__name__}: {e}"[:200])
        return res
    setattr(cls, method, staticmethod(wrapper) if is_static else wrapper)
    return True


def _wrap_iter(cls, post_full):
    """wrap a generator-style __iter__: observe the complete iteration (only if the consumer exhausts it)"""
    orig = cls.__dict__.get("__iter__")
    if orig is None:
        return False

    @functools.wraps(orig)
    def wrapper(self):
        items = []
        for it in orig(self):
            items.append(it)
            yield it
        try:
            post_full(self, items)
        except Exception as e:
            _note("contract_errors")
    cls.__iter__ = wrapper
    return True


# ------------------------------------------------------------------------------------------------ the contracts
def _install(props):
    import torch
    if "C01" in props:
        from kappadata.wrappers.mode_wrapper import ModeWrapper

        def post(a, k, res):
            self, idx = a[0], a[1]
            if not isinstance(idx, int):
                return
            _note("C01:modewrapper-layout")
            items = res
            if self.return_ctx:
                if not (isinstance(res, tuple) and len(res) == 2 and isinstance(res[1], dict)):
                    return _breach("C01", "modewrapper-layout", f"return_ctx=True but __getitem__({idx}) returned {type(res).__name__}")
                items = res[0]
            n = len(self.mode.split(" "))
            if n > 1 and not (isinstance(items, tuple) and len(items) == n):
                _breach("C01", "modewrapper-layout", f"mode {self.mode!r}: __getitem__({idx}) returned {type(items).__name__} of len {len(items) if hasattr(items, '__len__') else '?'}")
        _wrap_method(ModeWrapper, "__getitem__", post)
    if "C04" in props:
        from kappadata.samplers.interleaved_sampler import InterleavedSampler

        def post_full(self, items):
            _note("C04:stream-ends-on-batch-boundary")
            if items and not items[-1][0]:
                _breach("C04", "stream-ends-on-batch-boundary", f"last event {items[-1]} does not close a batch")
        _wrap_iter(InterleavedSampler, post_full)
    if "C10" in props:
        from kappadata.collators.kd_mix_collator import KDMixCollator
        from kappadata.wrappers.mode_wrapper import ModeWrapper

        def post(a, k, res):
            mode = k.get("dataset_mode", a[2] if len(a) > 2 else None)
            if mode is None or not ModeWrapper.has_item(mode, "class"):
                return
            y = ModeWrapper.get_item(mode=mode, item="class", batch=res)
            if torch.is_tensor(y) and y.ndim == 2 and y.is_floating_point():
                _note("C10:label-rows-convex")
                if (y < -1e-6).any() or ((y.sum(dim=1) - 1).abs() > 1e-4).any():
                    _breach("C10", "label-rows-convex", f"KDMixCollator.collate label rows not convex: min {float(y.min())}, row sums {y.sum(dim=1)[:4].tolist()}")
        _wrap_method(KDMixCollator, "collate", post)
    if "C11" in props:
        from kappadata.wrappers.sample_wrappers.kd_mix_wrapper import KDMixWrapper

        def post(a, k, res):
            cls = res[1]
            if torch.is_tensor(cls) and cls.ndim == 1 and cls.is_floating_point():
                _note("C11:label-convex")
                if (cls < -1e-6).any() or abs(float(cls.sum()) - 1) > 1e-4:
                    _breach("C11", "label-convex", f"KDMixWrapper.getitem_xclass label {cls.tolist()[:6]} is not convex")
        _wrap_method(KDMixWrapper, "getitem_xclass", post)
    if "C12" in props or "C13" in props:
        import kappadata.samplers as ks

        def mk(prop, name):
            def post_full(self, items):
                ds = getattr(self, "dataset", None) if getattr(self, "dataset", None) is not None else getattr(self, "data_source", None)
                if ds is None:
                    return
                _note(f"{prop}:{name}-indices")
                n = len(ds)
                bad = [int(i) for i in items if not 0 <= int(i) < n]
                if bad:
                    _breach(prop, f"{name}-indices", f"{name} yielded indices {bad[:5]} outside [0, {n})")
                if len(items) != len(self):
                    _breach(prop, f"{name}-length", f"{name} yielded {len(items)} indices, len(sampler) = {len(self)}")
            return post_full
        for prop, names in (("C12", ["DistributedSampler", "RandomSampler", "ClassBalancedSampler", "WeightedSampler"]), ("C13", ["ClassBalancedSampler", "SemiSampler", "WeightedSampler"])):
            if prop in props:
                for nme in names:
                    _wrap_iter(getattr(ks, nme), mk(prop, nme))
    if "C16" in props:
        import kappadata.wrappers as kw

        def mk(name):
            def post(a, k, res):
                self = a[0]
                v = res.item() if torch.is_tensor(res) and res.ndim == 0 else res
                if not isinstance(v, int) or isinstance(v, bool):
                    return
                try:
                    dim = self.getdim_class()
                except Exception:
                    return
                _note(f"C16:{name}-range")
                hi = 2 if dim == 1 else dim
                if not (v == -1 or 0 <= v < hi):
                    _breach("C16", f"{name}-range", f"{name}.getitem_class returned {v}, announced class count {dim}")
            return post
        for mod, nme in (("dataset_wrappers.class_groups_wrapper", "ClassGroupsWrapper"), ("dataset_wrappers.random_superclass_wrapper", "RandomSuperclassWrapper"),
                         ("dataset_wrappers.swap_label_wrapper", "SwapLabelWrapper"), ("dataset_wrappers.overwrite_classes_wrapper", "OverwriteClassesWrapper"),
                         ("dataset_wrappers.allgather_class_wrapper", "AllgatherClassWrapper"), ("dataset_wrappers.kd_pseudo_label_wrapper", "KDPseudoLabelWrapper"),
                         ("sample_wrappers.kd_random_class_wrapper", "KDRandomClassWrapper"), ("sample_wrappers.semi_wrapper", "SemiWrapper")):
            try:
                klass = getattr(importlib.import_module("kappadata.wrappers." + mod), nme)
            except Exception:
                continue
            _wrap_method(klass, "getitem_class", mk(nme))
    if "C17" in props:
        from kappadata.collators.kd_ijepa_mask_collator import KDIjepaMaskCollator
        from kappadata.collators.kd_dino_mask_collator import KDDinoMaskCollator

        def post_ijepa(a, k, res):
            ctx = k.get("ctx", a[3] if len(a) > 3 else None)
            if not isinstance(ctx, dict):
                return
            for key in ("encoder_masks", "predictor_masks"):
                m = ctx.get(key)
                if torch.is_tensor(m) and m.ndim == 2 and m.size(1) > 1:
                    _note("C17:ijepa-rows-sorted")
                    if not (m[:, 1:] > m[:, :-1]).all() or (m < 0).any():
                        _breach("C17", "ijepa-rows-sorted", f"{key} rows are not strictly increasing / contain negatives")
        _wrap_method(KDIjepaMaskCollator, "collate", post_ijepa)

        def post_dino(a, k, res):
            ctx = k.get("ctx", a[3] if len(a) > 3 else None)
            if isinstance(ctx, dict) and torch.is_tensor(ctx.get("mask")):
                _note("C17:dino-mask-bool")
                if ctx["mask"].dtype != torch.bool or ctx["mask"].ndim != 3:
                    _breach("C17", "dino-mask-bool", f"mask dtype {ctx['mask'].dtype}, ndim {ctx['mask'].ndim}")
        _wrap_method(KDDinoMaskCollator, "collate", post_dino)
    if "C18" in props:
        from kappadata.collators.base.kd_collator_base import KDCollatorBase

        def post(a, k, res):
            return_ctx = k.get("return_ctx", a[3] if len(a) > 3 else None)
            if return_ctx is None:
                return
            _note("C18:batch-ctx-iff-configured")
            if return_ctx and not (isinstance(res, tuple) and len(res) == 2 and isinstance(res[1], dict)):
                _breach("C18", "batch-ctx-iff-configured", f"return_ctx=True but the pipeline returned {type(res).__name__}")
        _wrap_method(KDCollatorBase, "_call_impl", post)


# ------------------------------------------------------------------------------------------------ pytest plugin role
def pytest_configure(config):
    props = [p for p in os.environ.get(PROPS_ENV, "").split(",") if p]
    if props:
        try:
            _install(set(props))
        except Exception as e:
            _records["install_error"] = f"{type(e).__name__}: {e}"


def pytest_sessionfinish(session, exitstatus):
    path = os.environ.get(RECORD_ENV)
    if path:
        Path(path).write_text(json.dumps(_records))


# ------------------------------------------------------------------------------------------------ library role
def run_for(pid, run, repo):
    """runs the pinned tests relevant for `pid` in a child pytest with the contracts installed; adds counters / violations"""
    if pid not in TESTS:
        return
    tmp = Path(tempfile.mkdtemp(prefix="kdv_ambient_"))
    rec = tmp / "records.json"
    verif = str(Path(__file__).resolve().parent.parent)
    env = dict(os.environ, PYTHONPATH=os.pathsep.join([str(repo), verif]), PYTHONDONTWRITEBYTECODE="1")
    env[RECORD_ENV] = str(rec)
    env[PROPS_ENV] = pid
    cmd = [sys.executable, "-m", "pytest", "-q", "-p", "no:cacheprovider", "-p", "kdv.ambient", "--timeout=900",
           "--deselect", "tests_integration/test_maefinetune_pipeline.py", "--deselect", "tests_integration/test_mixup_equals_timm.py"] + TESTS[pid]
    try:
        subprocess.run(cmd, cwd=str(repo), env=env, capture_output=True, text=True, timeout=1800)
    except subprocess.TimeoutExpired:
        run.notes["ambient_layer"] = "pytest workload hit the wall-clock watchdog (inconclusive, not judged)"
        return
    finally:
        pass
    if not rec.exists():
        run.notes["ambient_layer"] = "no record written by the child pytest (inconclusive, not judged)"
        return
    data = json.loads(rec.read_text())
    import shutil
    shutil.rmtree(tmp, ignore_errors=True)
    total = 0
    for name, n in data["evaluations"].items():
        if name.startswith(pid + ":"):
            run.count("ambient:" + name.split(":", 1)[1], n)
            total += n
    run.notes["ambient_layer"] = f"{total} contract evaluations while the pinned tests {TESTS[pid]} ran" if total else \
        "contracts were never evaluated by the pinned tests (ambient layer inconclusive for this property)"
    for b in data["breaches"]:
        if b["property"] == pid:
            run.violation(f"ambient:{b['contract']}", f"contract broken while the repository's own tests ran: {b['what']}", {"ambient": True, "contract": b["contract"]})
