"""C05 — interleaved scheduler: side passes run exactly when due, whole, and unmixed.

Stream level: the side segment after every main update of the REAL stream must equal the reference model's (which
configs are due, config order, whole pass, index offsets, per-config batching). Loader level: batches of the real
DataLoader returned by get_data_loader (0..3 worker processes) over tagged datasets with stamping collators.
"""
from __future__ import annotations

import torch
from torch.utils.data import default_collate

from kappadata.datasets.kd_dataset import KDDataset
from kappadata.samplers.interleaved_sampler import InterleavedSampler, InterleavedSamplerConfig
from kappadata.wrappers.mode_wrapper import ModeWrapper

from . import core
from . import h04_sched as H
from .harness import call_real

LEVEL = "exploration"
RULE = ("schedules as in C04 with 0..4 side configs: every combination of interval kinds incl. several kinds on one config, intervals that "
        "do / do not divide B or the epoch length, per-config batch sizes, data sources larger than the sampler (offset arithmetic), "
        "zero budgets; plus real DataLoader runs (0..3 workers) over tagged datasets; non-trivial = at least one side config; distinct by spec")
ASSUMPTIONS = [
    "side segments are judged only when the main part of the stream equals the model's (otherwise C04 reports)",
    "side samplers are deterministic functions of their pass number (fixed order, or a new order on every pass), so a whole pass is recognisable",
    "DataLoader returns batches in batch-sampler order (torch guarantee)",
]
MONITORS = ["updates_compared", "side_passes_observed", "loader_batches_checked", "zero_budget_runs"]


def gen_cases(run):
    n = run.n(30000, 1600000)
    n_loader = run.n(24, 960)
    rng = run.rng
    for i in range(n):
        g = H.gen_geometry(rng, big=True)
        cfgs = H.gen_configs(rng, g, max_cfg=5)
        if not cfgs and rng.random() < 0.8:
            cfgs = H.gen_configs(rng, g, max_cfg=5)
        for c in cfgs:
            r = rng.random()
            if r < 0.3:
                c["rotating"] = True  # a shuffling side sampler: every pass yields its own order
            elif r < 0.4:
                c["side_kind"] = "tensor_views"  # indices are 0-dim views of one tensor the sampler keeps
            elif r < 0.5:
                # kappadata's own DistributedSampler on 2 replicas as side sampler: len() (this rank's share) != effective_length (dataset size)
                c["side_kind"], c["rank"] = "kd_dist2", rng.randrange(2)
                c["M"] = rng.choice([1, 2, 3, 5, 6, 9])
                c["n"] = -(-c["M"] // 2)
                c["batch_size"] = rng.choice([None, None, 1, 2, 3, c["n"], c["n"] + 2])
        spec = {"kind": "stream", "g": g, "budget": H.gen_budget(rng, g), "cfgs": cfgs, "seed": rng.randrange(10 ** 6)}
        if cfgs and rng.random() < 0.2:
            spec["types"] = {"intervals": rng.choice(["np", "np32"])}  # intervals given as numpy integers
        elif cfgs and not spec.get("pre_batch_size") and rng.random() < 0.2:
            # the scheduler is built with another budget (across the zero / non-zero boundary) and batch size, then set to this configuration
            # through its public attributes before it is iterated
            zero = list(spec["budget"].values())[0] == 0
            spec["reconfig"] = {"budget": "other" if zero else "zero"}
            if rng.random() < 0.5:
                spec["reconfig"]["batch"] = True
        if cfgs and rng.random() < 0.25:
            spec["pre_batch_size"] = rng.randint(1, g["N"])  # config objects shared with an earlier scheduler of another batch size
        if not cfgs:
            spec["_trivial"] = True
        yield spec
    for i in range(n_loader):
        g = H.gen_geometry(rng)
        cfgs = []
        while not cfgs:
            cfgs = H.gen_configs(rng, g, max_cfg=3)
        b = H.gen_budget(rng, g)
        (k, v), = b.items()
        if k == "epochs":
            b = {"epochs": min(v, 2)}
        yield {"kind": "loader", "g": g, "budget": b, "cfgs": cfgs, "seed": rng.randrange(10 ** 6), "workers": [0, 2, 3, 1][i % 4]}


def _segments(events, M):
    """[(main batch, [side events after it])...] ; leading side events (zero budget) are returned separately"""
    lead, segs = [], []
    cur_main, cur_side, open_main = [], [], False
    for e in events:
        f, i = e[0], e[1]
        if i < M:
            if cur_side or (cur_main and not open_main):
                segs.append((cur_main, cur_side))
                cur_main, cur_side = [], []
            cur_main.append((f, i))
            open_main = not f
        else:
            if not cur_main and not segs:
                lead.append((f, i))
            else:
                cur_side.append((f, i))
    if cur_main or cur_side:
        segs.append((cur_main, cur_side))
    return lead, segs


def run_case(run, spec):
    if spec["kind"] == "loader":
        return _run_loader(run, spec)
    g, budget, cfgs = spec["g"], spec["budget"], spec["cfgs"]
    (bkind, bval), = budget.items()
    M = g["M"]
    ok, built = call_real(run, lambda: H.build_real(g, budget, cfgs, spec["seed"], "rec", pre_batch_size=spec.get("pre_batch_size"), types=spec.get("types"), reconfig=spec.get("reconfig")), crash_key="ctor-crash", what="InterleavedSampler(...)")
    if not ok:
        return
    if spec.get("pre_batch_size"):
        run.count("cases_with_reused_config_objects")
    if any(c.get("rotating") for c in cfgs):
        run.count("cases_with_reshuffling_side_samplers")
    if any(c.get("side_kind") for c in cfgs):
        run.count("cases_with_tensor_view_or_distributed_side_samplers")
    sampler, main, sides, events = built
    mdl = H.model(g, budget, cfgs, lambda j, e: H.rec_draw(g["M"], g["N"], spec["seed"], e))
    cap = len(mdl["events"]) + 3 * (g["B"] + sum(c["n"] for c in cfgs)) + 10
    ok, finished = call_real(run, lambda: H.consume(sampler, events, cap), what="iterating InterleavedSampler")
    if not ok:
        return
    for k_, (c, sd) in enumerate(zip(cfgs, sides)):
        if c.get("side_kind") == "tensor_views" and sd.t.tolist() != list(sd.order):
            run.violation("side:sampler-state-modified", f"{_desc(spec)}: the index tensor kept by side sampler {k_} was {list(sd.order)} and is {sd.t.tolist()} after the run "
                                                         f"(the scheduler wrote into the sampler's own storage)")
            return
    kinds = tuple(sorted({"".join(k[8] for k in ("every_n_epochs", "every_n_updates", "every_n_samples") if c[k] is not None) for c in cfgs}))
    run.cover(kinds, min(len(cfgs), 4), bval == 0, bkind, any(c["batch_size"] for c in cfgs), g["drop_last"], g["N"] % g["B"] == 0)

    if bval == 0:
        run.count("zero_budget_runs")
        if [(e[0], e[1]) for e in events] != [(e[0], e[1]) for e in mdl["events"]]:
            run.violation("zero-budget-pass", f"{_desc(spec)}: zero budget must yield exactly one full pass per config in order: real {events[:30]} vs model {[(e[0], e[1]) for e in mdl['events']][:30]}")
        else:
            run.count("side_passes_observed", len(cfgs))
        return
    real_main = [(f, i) for f, i in events if i < M]
    model_main = [(e[0], e[1]) for e in mdl["events"] if e[1] < M]
    if real_main != model_main or not finished:
        run.count("skipped_main_part_differs")
        return
    lead_r, seg_r = _segments(events, M)
    lead_m, seg_m = _segments(mdl["events"], M)
    if lead_r:
        run.violation("side:before-first-update", f"{_desc(spec)}: side indices {lead_r[:10]} before the first main update")
        return
    assert len(seg_r) == len(seg_m) or True
    for u, ((mb_r, sd_r), (mb_m, sd_m)) in enumerate(zip(seg_r, seg_m)):
        run.count("updates_compared")
        if mb_r != mb_m:
            # a side index in the middle of a main batch splits the segment differently
            run.violation("side:inside-main-batch", f"{_desc(spec)}: update {u}: main batch {mb_r} vs model {mb_m} (side indices interrupt a main batch)")
            return
        if sd_r == sd_m:
            if sd_m:
                run.count("side_passes_observed")
            continue
        if not sd_r:
            key = "side:pass-missing"
        elif not sd_m:
            key = "side:spurious-pass"
        elif [i for _, i in sd_r] == [i for _, i in sd_m]:
            key = "side:batching"
        elif sorted(i for _, i in sd_r) == sorted(i for _, i in sd_m):
            key = "side:order"
        else:
            key = "side:content"
        multi = any(sum(c[k] is not None for k in ("every_n_epochs", "every_n_updates", "every_n_samples")) > 1 for c in cfgs)
        if key in ("side:pass-missing", "side:spurious-pass", "side:content") and multi:
            key += ":multi-kind-config"
        run.violation(key, f"{_desc(spec)}: after update {u + 1} side segment is {sd_r[:24]} but the due configs give {sd_m[:24]}")
        return
    if len(seg_r) != len(seg_m):
        run.violation("side:segment-count", f"{_desc(spec)}: {len(seg_r)} updates vs model {len(seg_m)}")
        return
    run.sample({"spec": _desc(spec), "updates": len(seg_m), "side_passes": sum(1 for _, s in seg_m if s)})


# ------------------------------------------------------------------------------------------------- loader level
class TagDS(KDDataset):
    def __init__(self, tag, n):
        super().__init__()
        self.tag, self.n = tag, n

    def getitem_x(self, idx, ctx=None):
        return torch.tensor([self.tag, int(idx)])

    def __len__(self):
        return self.n


class Stamp:
    def __init__(self, k):
        self.k = k

    def __call__(self, data):
        return ("stamp", self.k, default_collate(list(data)))


class _FixedOverDS:
    def __init__(self, ds, order):
        self.data_source = ds
        self.order = list(order)

    def __len__(self):
        return len(self.order)

    def __iter__(self):
        return iter(self.order)


class _MainOverDS:
    def __init__(self, ds, N, seed):
        self.data_source = ds
        self.N, self.seed, self._epoch = N, seed, None

    def set_epoch(self, e):
        self._epoch = e

    def __len__(self):
        return self.N

    def __iter__(self):
        return iter(H.rec_draw(len(self.data_source), self.N, self.seed, self._epoch))


def _run_loader(run, spec):
    g, budget, cfgs, W = spec["g"], spec["budget"], spec["cfgs"], spec["workers"]
    dss = [ModeWrapper(TagDS(0, g["M"]), mode="x")] + [ModeWrapper(TagDS(k + 1, c["M"]), mode="x") for k, c in enumerate(cfgs)]
    main = _MainOverDS(dss[0], g["N"], spec["seed"])
    configs = [InterleavedSamplerConfig(sampler=_FixedOverDS(dss[k + 1], H.side_order(c)), every_n_epochs=c["every_n_epochs"],
                                        every_n_updates=c["every_n_updates"], every_n_samples=c["every_n_samples"],
                                        batch_size=c["batch_size"], collator=Stamp(k + 1)) for k, c in enumerate(cfgs)]
    kw = dict(main_sampler=main, batch_size=g["B"], configs=configs, drop_last=g["drop_last"], main_collator=Stamp(0), **budget)
    if g["D"] is not None:
        kw["drop_last_batch_size"] = g["D"]
    ok, sampler = call_real(run, lambda: InterleavedSampler(**kw), crash_key="ctor-crash", what="InterleavedSampler(...)")
    if not ok:
        return
    mdl = H.model(g, budget, cfgs, lambda j, e: H.rec_draw(g["M"], g["N"], spec["seed"], e))
    want_batches, rest = H.batches_of(mdl["events"])
    offsets, off = [0], g["M"]
    for c in cfgs:
        offsets.append(off)
        off += c["M"]

    def resolve(gidx):
        k = max(j for j, o in enumerate(offsets) if gidx >= o)
        return k, gidx - offsets[k]

    def load():
        out = []
        loader = sampler.get_data_loader(num_workers=W)
        for b in loader:
            out.append(b)
            if len(out) > len(want_batches) + 5:
                break
        return out
    ok, got = call_real(run, load, crash_key="loader-crash", what=f"get_data_loader(num_workers={W})")
    if not ok:
        return
    run.cover("loader", W, len(cfgs))
    if len(got) != len(want_batches):
        run.violation("loader:batch-count", f"{_desc(spec)} workers={W}: loader produced {len(got)} batches, model {len(want_batches)}")
        return
    for bi, (b, wb) in enumerate(zip(got, want_batches)):
        run.count("loader_batches_checked")
        want = [resolve(i) for i in wb]
        if not (isinstance(b, tuple) and len(b) == 3 and b[0] == "stamp"):
            run.violation("loader:collator-not-applied", f"{_desc(spec)} workers={W}: batch {bi} is {type(b).__name__}, not produced by a dataset's stamping collator")
            return
        tags = b[2][:, 0].tolist()
        ids = b[2][:, 1].tolist()
        if len(set(tags)) != 1:
            run.violation("loader:mixed-batch", f"{_desc(spec)} workers={W}: batch {bi} mixes datasets {tags}")
            return
        if b[1] != tags[0]:
            run.violation("loader:wrong-collator", f"{_desc(spec)} workers={W}: batch {bi} of dataset {tags[0]} was collated by collator {b[1]}")
            return
        if list(zip(tags, ids)) != want:
            run.violation("loader:wrong-sample", f"{_desc(spec)} workers={W}: batch {bi} holds (dataset, sample) {list(zip(tags, ids))}, drawn for {want}")
            return
    run.sample({"loader": _desc(spec), "workers": W, "batches": len(got)})


def _desc(spec):
    g = spec["g"]
    c = [{k: v for k, v in c.items() if v is not None and (k.startswith("every") or k in ("batch_size", "n", "M"))} for c in spec["cfgs"]]
    return f"N={g['N']} M={g['M']} B={g['B']} drop_last={g['drop_last']} D={g['D']} {spec['budget']} configs={c}"
