"""Shared machinery for C04 / C05 / C06: recording samplers, schedule generator, executable reference model of the
interleaved scheduler (written from the property texts), and the observer that runs the REAL InterleavedSampler.
"""
from __future__ import annotations

import random

from kappadata.samplers.interleaved_sampler import InterleavedSampler, InterleavedSamplerConfig

from . import core
from .harness import StepBudget, codes_of


# ------------------------------------------------------------------------------------------------- recording samplers
class _Src:
    """stand-in data source: only its length matters for the scheduler"""

    def __init__(self, n):
        self.n = n

    def __len__(self):
        return self.n


class RecMain:
    """main sampler: epoch-dependent draw of N out of M indices; records set_epoch calls and iteration starts together
    with the consumer's stream position (`pos()`)"""

    def __init__(self, M, N, seed, pos):
        self.data_source = _Src(M)
        self.M, self.N, self.seed = M, N, seed
        self.pos = pos
        self.epoch_log = []      # (epoch, stream position at announcement)
        self.iter_log = []       # (epoch in force, stream position at iteration start)
        self.iterations = []     # full list each iteration would yield
        self._epoch = None

    def set_epoch(self, e):
        self.epoch_log.append((e, self.pos()))
        self._epoch = e

    def __len__(self):
        return self.N

    def __iter__(self):
        rng = random.Random(f"{self.seed}/{self._epoch}")
        items = rng.sample(range(self.M), self.N)
        self.iter_log.append((self._epoch, self.pos()))
        self.iterations.append(items)
        return iter(items)


class RecMainNoEpoch(RecMain):
    """same, but without a set_epoch method (the scheduler must cope: hasattr check)"""
    set_epoch = None

    def __init__(self, M, N, seed, pos):
        super().__init__(M, N, seed, pos)
        self._count = 0

    def __iter__(self):
        self._epoch = ("iter", self._count)
        self._count += 1
        return super().__iter__()


del RecMainNoEpoch.set_epoch  # really absent


class Proxy:
    """records the full iteration of any real sampler (torch / kappadata) and forwards everything else"""

    def __init__(self, inner, pos):
        self._inner = inner
        self.pos = pos
        self.epoch_log, self.iter_log, self.iterations = [], [], []
        self._epoch = None
        if hasattr(inner, "data_source"):
            self.data_source = inner.data_source
        if hasattr(inner, "dataset"):
            self.dataset = inner.dataset

    def __getattr__(self, name):
        # everything else (effective_length, num_repeats, epoch, ...) is the real sampler's
        if name.startswith("__") or name in ("_inner", "set_epoch"):
            raise AttributeError(name)
        return getattr(self._inner, name)

    def __len__(self):
        return len(self._inner)

    def __iter__(self):
        items = [int(i) for i in self._inner]
        self.iter_log.append((self._epoch, self.pos()))
        self.iterations.append(items)
        return iter(items)


class ProxyWithEpoch(Proxy):
    def set_epoch(self, e):
        self.epoch_log.append((e, self.pos()))
        self._epoch = e
        self._inner.set_epoch(e)


class FixedSampler:
    """side sampler: a fixed sequence of indices into a data source of length M"""

    def __init__(self, M, order, order_fn=None):
        self.data_source = _Src(M)
        self.order = list(order)
        self.order_fn = order_fn
        self.passes = 0

    def __len__(self):
        return len(self.order)

    def __iter__(self):
        self.passes += 1
        if self.order_fn is not None:
            return iter(self.order_fn(self.passes - 1))
        return iter(self.order)


class TensorViewSampler(FixedSampler):
    """side sampler that keeps its indices in ONE LongTensor and yields 0-dim views of it (what iterating a tensor does)"""

    def __init__(self, M, order):
        super().__init__(M, order)
        import torch
        self.t = torch.tensor(list(order), dtype=torch.long)

    def __iter__(self):
        self.passes += 1
        return iter(self.t[i] for i in range(len(self.t)))


def make_side(c):
    kind = c.get("side_kind")
    if kind == "tensor_views":
        return TensorViewSampler(c["M"], side_order(c))
    if kind == "kd_dist2":
        import kappadata.samplers as ks
        s_ = ks.DistributedSampler(_Src(c["M"]), num_replicas=2, rank=c["rank"], shuffle=False)
        s_.passes = 0
        return s_
    return FixedSampler(c["M"], side_order(c), order_fn=(lambda p, c=c: side_order(c, p)) if c.get("rotating") else None)


# ------------------------------------------------------------------------------------------------- spec generation
def gen_geometry(rng, big=False):
    N = rng.choice([1, 2, 3, 4, 5, 6, 7, 8, 9, 10, 12, 15, 16, rng.randint(1, 40 if big else 24)])
    cls = rng.random()
    if cls < 0.12:
        B = 1
    elif cls < 0.24:
        B = N
    elif cls < 0.45:
        divs = [d for d in range(1, N + 1) if N % d == 0]
        B = rng.choice(divs)
    else:
        B = rng.randint(1, N)
    drop_last = rng.random() < 0.5
    D = None
    if drop_last and rng.random() < 0.4:
        ks = [k for k in range(1, N // B + 1)]
        D = B * rng.choice(ks)
    M = N + rng.choice([0, 0, 1, 3])
    return {"N": N, "B": B, "drop_last": drop_last, "D": D, "M": M}


def samples_per_epoch(g):
    if g["drop_last"]:
        d = g["D"] or g["B"]
        return g["N"] // d * d
    return g["N"]


def gen_budget(rng, g):
    spe = samples_per_epoch(g)
    upe = -(-spe // g["B"])
    kind = rng.choice(["epochs", "updates", "samples"])
    r = rng.random()
    if r < 0.06:
        return {kind: 0}
    if kind == "epochs":
        return {"epochs": rng.randint(1, 4)}
    if kind == "updates":
        return {"updates": rng.choice([1, upe, upe + 1, rng.randint(1, 3 * upe + 2)])}
    s = rng.choice([1, spe, spe + 1, g["B"], rng.randint(1, 3 * spe + 3), rng.randint(1, 3 * spe + 3)])
    return {"samples": max(1, s)}


def gen_configs(rng, g, multi_kind=True, max_cfg=4):
    k = rng.choice([0, 1, 1, 2, 2, 3, max_cfg])
    cfgs = []
    spe = samples_per_epoch(g)
    for _ in range(k):
        kinds = ["e", "u", "s"]
        if multi_kind and rng.random() < 0.3:
            chosen = rng.sample(kinds, rng.choice([2, 2, 3]))
        else:
            chosen = [rng.choice(kinds)]
        c = {"every_n_epochs": None, "every_n_updates": None, "every_n_samples": None}
        if "e" in chosen:
            c["every_n_epochs"] = rng.choice([1, 1, 2, 3])
        if "u" in chosen:
            c["every_n_updates"] = rng.choice([1, 2, 3, 4, 5, 7])
        if "s" in chosen:
            c["every_n_samples"] = rng.choice([1, g["B"], g["B"] + 1, 2 * g["B"], max(1, spe), max(1, spe - 1), spe + 1, rng.randint(1, 2 * spe + 2)])
        n = rng.choice([1, 2, 3, 5, 8])
        Ms = n + rng.choice([0, 0, 2])
        c["n"] = n
        c["M"] = Ms
        c["order_seed"] = rng.randrange(1000)
        c["batch_size"] = rng.choice([None, None, 1, 2, 3, n, n + 2])
        cfgs.append(c)
    return cfgs


def side_order(c, p=0):
    """the p-th pass of a side sampler; "rotating" samplers (shuffling / re-drawing ones) yield another order on every pass"""
    if c.get("side_kind") == "kd_dist2":
        # torch's DistributedSampler(shuffle=False) semantics for 2 replicas: pad by wrapping around, then every second index from `rank`
        idx = list(range(c["M"]))
        total = -(-c["M"] // 2) * 2
        idx += idx[:total - c["M"]]
        return idx[c["rank"]:total:2]
    if c.get("rotating") and p > 0:
        return random.Random(f"{c['order_seed']}/{p}").sample(range(c["M"]), c["n"])
    return random.Random(c["order_seed"]).sample(range(c["M"]), c["n"])


# ------------------------------------------------------------------------------------------------- reference model
def rec_draw(M, N, seed, epoch):
    """what RecMain yields when iterated after set_epoch(epoch) (pure function of the announced epoch)"""
    return random.Random(f"{seed}/{epoch}").sample(range(M), N)


def model(g, budget, cfgs, draw, start=None):
    """Executable reference written from the texts of C04/C05.

    draw(j, epoch_number) = the full iteration of the main sampler for the j-th epoch run / announced epoch number
                            (None if unknown -> the model stops with complete=False).
    start = None or dict(epoch, update, sample): counters of a resumed run (for the C06 differential the reference is
            the uninterrupted REAL run; this parameter is used for evidence only).
    returns dict(events=[(flag, global_idx, src)], epochs=[(epoch_number, stream_pos)], complete=bool)
      src = "m" for main, or the config position for side passes
    """
    N, B = g["N"], g["B"]
    spe = samples_per_epoch(g)
    offsets, off = [], g["M"]
    for c in cfgs:
        offsets.append(off)
        off += c["M"]
    events, epochs_log = [], []

    passes = [0] * len(cfgs)

    def side_pass(ci):
        c = cfgs[ci]
        order = side_order(c, passes[ci])
        passes[ci] += 1
        bs = c["batch_size"] or B
        for j, idx in enumerate(order):
            last = (j + 1) % bs == 0 or j + 1 == len(order)
            events.append((last, offsets[ci] + idx, ci))

    (kind, value), = budget.items()
    if value == 0:
        for ci in range(len(cfgs)):
            side_pass(ci)
        return {"events": events, "epochs": epochs_log, "complete": True}

    ep = start["epoch"] if start else 0
    upd = start["update"] if start else 0
    smp = start["sample"] if start else 0
    it = 0
    guard = 0
    while True:
        guard += 1
        if guard > 10000:
            raise RuntimeError("model: budget unreachable")
        full = draw(it, ep)
        if full is None:
            return {"events": events, "epochs": epochs_log, "complete": False}
        epochs_log.append((ep, len(events)))
        draw_e = full[:spe]
        it += 1
        if spe == 0:
            raise RuntimeError("model: empty epoch")
        pos = 0
        while pos < len(draw_e):
            batch = draw_e[pos:pos + B]
            pos += len(batch)
            for j, idx in enumerate(batch):
                events.append((j == len(batch) - 1, idx, "m"))
            prev = smp
            upd += 1
            smp += len(batch)
            ended_epoch = pos == len(draw_e)
            if ended_epoch:
                ep += 1
            for ci, c in enumerate(cfgs):
                due = False
                if c["every_n_epochs"] is not None and ended_epoch and ep % c["every_n_epochs"] == 0:
                    due = True
                if c["every_n_updates"] is not None and upd % c["every_n_updates"] == 0:
                    due = True
                if c["every_n_samples"] is not None and prev // c["every_n_samples"] < smp // c["every_n_samples"]:
                    due = True
                if due:
                    side_pass(ci)
            if (kind == "epochs" and ep == value) or (kind == "updates" and upd == value) or (kind == "samples" and smp >= value):
                return {"events": events, "epochs": epochs_log, "complete": True, "counters": (ep, upd, smp)}


def epoch_boundaries(g, budget, n_epochs_started):
    """(epoch k, updates so far, samples so far) at each epoch boundary of an uninterrupted run"""
    spe = samples_per_epoch(g)
    upe = -(-spe // g["B"])
    return [(k, k * upe, k * spe) for k in range(n_epochs_started + 1)]


# ------------------------------------------------------------------------------------------------- real execution
_codes = []


def sched_codes():
    if not _codes:
        import kappadata.samplers.interleaved_sampler as m
        _codes.extend(codes_of(m))
    return _codes


class Observation:
    pass


def _typed(v, how):
    """the same number / flag as another legal python or numpy type (what config files and numpy arithmetic hand to the constructor)"""
    if v is None or how is None:
        return v
    import numpy as np
    if isinstance(v, bool):
        return {"np": np.bool_(v), "int": int(v)}.get(how, v)
    if isinstance(v, int):
        return {"np": np.int64(v), "np32": np.int32(v)}.get(how, v)
    return v


def build_real(g, budget, cfgs, main_seed, main_kind="rec", start=None, collators=False, pre_batch_size=None, reuse=None, types=None, reconfig=None):
    """constructs the real InterleavedSampler from a spec; returns (sampler, main_recorder, side_samplers, events, pos)
    reuse = (sides, configs) of another build: the SAME side sampler and config objects are handed to this scheduler as well
    types = None | dict(drop_last=how, intervals=how): argument types (see _typed)"""
    events = []
    pos = lambda: len(events)
    types = types or {}
    if main_kind == "rec":
        main = RecMain(g["M"], g["N"], main_seed, pos)
    elif main_kind == "rec_noepoch":
        main = RecMainNoEpoch(g["M"], g["N"], main_seed, pos)
    else:
        main = make_real_main(main_kind, g, main_seed, pos)
    if reuse is not None:
        sides, configs = reuse
    else:
        sides = [make_side(c) for c in cfgs]
        ti = types.get("intervals")
        configs = [InterleavedSamplerConfig(sampler=s, every_n_epochs=_typed(c["every_n_epochs"], ti), every_n_updates=_typed(c["every_n_updates"], ti),
                                            every_n_samples=_typed(c["every_n_samples"], ti), batch_size=c["batch_size"]) for s, c in zip(sides, cfgs)]
    kw = dict(main_sampler=main, batch_size=g["B"], configs=configs, drop_last=_typed(g["drop_last"], types.get("drop_last")), **budget)
    if g["D"] is not None:
        kw["drop_last_batch_size"] = g["D"]
    if start:
        kw.update(start)
    if pre_batch_size is not None:
        # the same config objects were used before by another scheduler with another main batch size (and iterated)
        other = InterleavedSampler(main_sampler=RecMain(g["M"], g["N"], main_seed + 1, lambda: 0), batch_size=pre_batch_size, configs=configs,
                                   drop_last=False, epochs=1)
        for k, _ in enumerate(other):
            if k > 200:
                break
        for s_ in sides:
            s_.passes = 0
    if reconfig:
        # the scheduler is constructed with decoy values and brought to the configuration under test through its public attributes before
        # it is iterated (what a config system / a hyper-parameter sweep does with an existing object); it reports the new values, so it
        # must run by them
        final = dict(kw)
        if "batch" in reconfig:
            kw["batch_size"] = 1 if g["B"] != 1 else min(2, len(main))
            kw["drop_last"] = False
            kw.pop("drop_last_batch_size", None)
        if "budget" in reconfig:
            for b_ in ("epochs", "updates", "samples"):
                kw.pop(b_, None)
            kw[{"zero": "epochs", "other": "updates"}.get(reconfig.get("budget"), "epochs")] = 0 if reconfig.get("budget") == "zero" else 3
        if "main" in reconfig:
            kw["main_sampler"] = RecMain(g["M"], g["N"], main_seed + 7, lambda: 0)
        sampler = InterleavedSampler(**kw)
        if "batch" in reconfig:
            sampler.batch_size, sampler.drop_last = final["batch_size"], final["drop_last"]
            sampler.drop_last_batch_size = final.get("drop_last_batch_size")
        if "budget" in reconfig:
            sampler.epochs, sampler.updates, sampler.samples = final.get("epochs"), final.get("updates"), final.get("samples")
        if "main" in reconfig:
            sampler.main_sampler = main
    else:
        sampler = InterleavedSampler(**kw)
    main._kdv_configs = configs  # harness bookkeeping on the harness's own recorder object (reuse=)
    return sampler, main, sides, events


def make_real_main(kind, g, seed, pos):
    """real torch / kappadata samplers wrapped in a recording proxy; the data source has M == N entries"""
    import torch
    import torch.utils.data as tud
    import kappadata.samplers as ks
    from .harness import Leaf
    n = g["M"]
    ds = Leaf(n, classes=[i % 3 for i in range(n)], n_classes=3)
    gen = torch.Generator().manual_seed(seed)
    if kind == "torch_seq":
        return Proxy(tud.SequentialSampler(ds), pos)
    if kind == "torch_rand":
        return Proxy(tud.RandomSampler(ds, generator=gen), pos)
    if kind == "kd_rand_rep":
        return Proxy(ks.RandomSampler(ds, num_repeats=2, generator=gen), pos)
    if kind == "kd_dist":
        return ProxyWithEpoch(ks.DistributedSampler(ds, num_replicas=1, rank=0, shuffle=True, seed=seed), pos)
    if kind == "torch_dist2":
        import torch.utils.data.distributed as tdd
        return ProxyWithEpoch(tdd.DistributedSampler(ds, num_replicas=2, rank=seed % 2, shuffle=True, seed=seed), pos)
    if kind == "kd_dist2":
        # len() (= samples of this rank) differs from effective_length (= dataset size): the scheduler's epoch is len()
        return ProxyWithEpoch(ks.DistributedSampler(ds, num_replicas=2, rank=seed % 2, shuffle=True, seed=seed, num_repeats=1 + (seed // 2) % 2), pos)
    raise ValueError(kind)


def consume(sampler, events, cap):
    """iterate the real sampler, appending to `events` (so recorders see the stream position); cut at cap"""
    with StepBudget(200 * cap + 5000, sched_codes(), what="InterleavedSampler iteration"):
        for ev in sampler:
            events.append((bool(ev[0]), int(ev[1])))
            if len(events) >= cap:
                return False
    return True


def batches_of(events):
    out, cur = [], []
    for ev in events:
        cur.append(ev[1])
        if ev[0]:
            out.append(cur)
            cur = []
    return out, cur
