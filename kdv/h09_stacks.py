"""Helpers of C09: dataset-stack specs, harness roots / probes, generator census, simulated and real dataloader workers.

Everything is driven by JSON-able dicts (replayable). Transform trees of the simulated part are the nodes of
kdv/h07_recipes.py (real repository transforms); the real-loader part uses *probe* trees: the real containers
(compose / bare list / random-apply / patchwise / scheduled) around harness probes whose only effect is to publish
their raw draw.

stack node vocabulary (every node builds one dataset object of the repository, or a harness root)
    {"k": "root", "n": N, "T": type, "data_seed": s, "onehot": bool, "collators": [cnode...]}
    {"k": "xt", "tree": tnode, "child": node}                      XTransformWrapper (transform instance)
    {"k": "mv", "configs": [{"n": k, "tree": tnode|None, "form": ...}], "child": node}    KDMultiViewWrapper
    {"k": "semseg", "members": [tnode...], "child": node}          SemsegTransformWrapper
    {"k": "mix", "child": node}                                     KDMixWrapper (mixup, no seed)
    {"k": "common", "cls": name, "kw": {...}, "child": node}       kappadata.common.wrappers.*
    {"k": "subset", "indices": [...], "child": node}               KDSubset
    {"k": "shuffle", "seed": s, "child": node} / {"k": "repeat", "times": r, "child": node} / {"k": "pass", "child": node}
    {"k": "concat", "children": [node...]}                         KDConcatDataset
top  {"k": "bare", "mode": "x", "child": node}    the stack WITHOUT ModeWrapper behind a harness adapter serving getitem_x
     {"k": "mode", "mode": "x"|..., "return_ctx": bool, "cform": "compose"|"single"|"wrapper", "child": node}
     {"k": "interleaved", "batch_size": B, "children": [mode-node...]}   InterleavedSampler(...).dataset
collator nodes   {"c": "draw"} harness collator publishing its draw | {"c": "mix", "kw": {...}} KDMixCollator
                 {"c": "compose", "members": [cnode...], "mode": m} KDComposeCollator / {"c": "wrapper", "member": cnode, "mode": m}
                 KDSingleCollatorWrapper registered on the root (mode node: "cform": "direct")
transform nodes  h07 nodes, plus {"t": "probe", "tag": str} / {"t": "semseg_probe", "tag": str}
"""
from __future__ import annotations

import contextlib
import copy
import functools
import inspect
import random as pyrandom

import numpy as np
import torch
from PIL import Image

from kappadata.collators.base.kd_single_collator import KDSingleCollator
from kappadata.datasets.kd_dataset import KDDataset
from kappadata.datasets.kd_wrapper import KDWrapper
from kappadata.transforms.base.kd_stochastic_transform import KDStochasticTransform
from kappadata.transforms.semseg import KDSemsegRandomHorizontalFlip

from . import h07_recipes as H

N_CLASSES = 4
RAW_DRAWS = 64
SCHED_KW = {"batch_size": 2 ** 40, "updates": 1000}   # every call of a simulated worker falls into its first batch


# ------------------------------------------------------------------------------------------------ harness objects
PROBE_LOG = []   # process-global: each (forked) dataloader worker owns a private copy; drained per batch by _Shipper


def _worker_tag():
    info = torch.utils.data.get_worker_info()
    if info is None:
        return (-1, -1)
    return (int(info.id), int(info.seed))


class Root(KDDataset):
    """root dataset: x is a fresh pseudo-random input of type T per call (transforms may write in place), seeded by
    (data_seed, idx) locally; class is idx % N_CLASSES (int or one-hot)"""

    def __init__(self, n, T, data_seed, onehot=False, collators=None):
        super().__init__(collators=collators)
        self.n, self.T, self.data_seed, self.onehot = n, T, data_seed, onehot

    def __len__(self):
        return self.n

    def _x(self, idx):
        return H.make_input(self.T, self.data_seed * 1009 + int(idx))

    def getitem_x(self, idx, ctx=None):
        x = self._x(idx)
        return x[0] if self.T["kind"] == "semseg" else x

    def getitem_semseg(self, idx, ctx=None):
        assert self.T["kind"] == "semseg"
        return self._x(idx)[1]

    def getitem_class(self, idx, ctx=None):
        c = int(idx) % N_CLASSES
        if self.onehot:
            v = torch.zeros(N_CLASSES)
            v[c] = 1.
            return v
        return c

    def getshape_class(self):
        return (N_CLASSES,)


class Bare(torch.utils.data.Dataset):
    """what a user writes who feeds a KD stack to a DataLoader without ModeWrapper: serves stack.getitem_x(i), hands the
    stack's own worker_init_fn / collators on (no seeding logic of its own)"""

    def __init__(self, stack):
        self.stack = stack

    def __len__(self):
        return len(self.stack)

    def __getitem__(self, idx):
        return self.stack.getitem_x(idx)

    def worker_init_fn(self, rank, **kwargs):
        self.stack.worker_init_fn(rank, **kwargs)

    @property
    def collators(self):
        return self.stack.collators


class PassWrapper(KDWrapper):
    """a KDWrapper that overrides nothing"""


def plain_identity(x):
    """a plain callable used as a transform (no KDTransform: nothing to seed)"""
    return x


class PlainCallable:
    """a plain callable object used as a transform (like a torchvision transform)"""

    def __call__(self, x):
        return x


class Probe(KDStochasticTransform):
    """identity on x; publishes one raw 63-bit draw of its generator per call"""

    def __init__(self, tag):
        super().__init__()
        self.tag = tag

    def __call__(self, x, ctx=None):
        PROBE_LOG.append((self.tag,) + _worker_tag() + (int(self.rng.integers(0, 2 ** 63)),))
        return x


class SemsegProbe(KDSemsegRandomHorizontalFlip):
    """probe that SemsegTransformWrapper treats as a semseg transform (receives the (x, semseg) pair)"""

    def __init__(self, tag):
        super().__init__()
        self.tag = tag

    def __call__(self, xsemseg, ctx=None):
        PROBE_LOG.append((self.tag,) + _worker_tag() + (int(self.rng.integers(0, 2 ** 63)),))
        return xsemseg


class DrawCollator(KDSingleCollator):
    """collator without default collation (gets the raw sample list); publishes one raw draw per batch"""

    def __init__(self, tag="collator", **kwargs):
        super().__init__(**kwargs)
        self.tag = tag

    @property
    def default_collate_mode(self):
        return None

    def collate(self, batch, dataset_mode, ctx=None):
        PROBE_LOG.append((self.tag,) + _worker_tag() + (int(self.rng.integers(0, 2 ** 63)),))
        return list(batch)


class Shipper:
    """collate_fn wrapper of the real-loader runs: applies the stack's collate function (if any) and attaches the probe
    log of the batch (picklable: module-level class)"""

    def __init__(self, inner=None, seeded=False):
        self.inner = inner
        self.seeded = seeded     # batches of a part served by a SEEDED wrapper: its draws are a function of the index (C08)

    def __call__(self, batch):
        out = self.inner(batch) if self.inner is not None else list(batch)
        log = list(PROBE_LOG)
        PROBE_LOG.clear()
        if self.seeded:
            log = [("seeded:" + e[0],) + tuple(e[1:]) for e in log]
        return out, log


# ------------------------------------------------------------------------------------------------ transform trees
def tree_nodes(node):
    yield node
    if node["t"] in ("compose", "semseg_seq"):
        for m in node["members"]:
            yield from tree_nodes(m)
        if node.get("late"):
            yield from tree_nodes(node["late"]["member"])
    elif node["t"] in ("random_apply", "patchwise", "scheduled"):
        yield from tree_nodes(node["child"])


def has_probe(node):
    return any(n["t"] in ("probe", "semseg_probe", "plain") for n in tree_nodes(node))


def build_tree(node):
    """h07 node or probe tree -> transform (scheduled members are built inactive: the worker hook activates them).
    probe-tree compose nodes may carry {"late": {"op": "append"|"insert"|"replace", "pos": i, "member": tnode}}: after the whole
    tree has been constructed, the public `.transforms` list of that compose is edited (what a user does who extends a
    ready-made pipeline) - before any worker exists. (h07 trees carry their own "edit" key, honoured by build_composition.)"""
    obj = _build_tree(node)
    _apply_edits(node, obj)
    return obj


def _apply_edits(node, obj):
    t = node["t"]
    if t == "compose":
        for m, o in zip(node["members"], list(obj.transforms)):
            _apply_edits(m, o)
        e = node.get("late")
        if e:
            new = build_tree(e["member"])
            if e["op"] == "append":
                obj.transforms.append(new)
            elif e["op"] == "insert":
                obj.transforms.insert(e["pos"], new)
            elif e["op"] == "replace":
                obj.transforms[e["pos"]] = new
            else:
                raise ValueError(e["op"])
    elif t in ("random_apply", "patchwise", "scheduled"):
        _apply_edits(node["child"], obj.transform)


def _build_tree(node):
    if not has_probe(node):
        node = copy.deepcopy(node)
        for n in tree_nodes(node):
            if n["t"] == "scheduled":
                n["active"] = None
        return H.build_composition(node)
    import kappadata.transforms as kdt
    t = node["t"]
    if t == "plain":
        return plain_identity
    if t == "probe":
        return Probe(node["tag"])
    if t == "semseg_probe":
        return SemsegProbe(node["tag"])
    if t == "compose":
        members = []
        for m in node["members"]:
            if m["t"] == "compose" and m.get("implicit"):
                members.append([_build_tree(mm) for mm in m["members"]])
            else:
                members.append(_build_tree(m))
        return kdt.KDComposeTransform(members)
    if t == "random_apply":
        return kdt.KDRandomApply(transform=_build_tree(node["child"]), p=node["p"])
    if t == "patchwise":
        return kdt.PatchwiseTransform(patch_size=node["patch"], transform=_build_tree(node["child"]))
    if t == "scheduled":
        kw = {} if node.get("schedule") is None else {"schedule": node["schedule"]}
        return kdt.KDScheduledTransform(transform=_build_tree(node["child"]), **kw)
    if t == "leaf":
        return H.RECIPES[node["recipe"]].build(node["params"])
    raise ValueError(t)


def brief_tree(node):
    t = node["t"]
    if t == "leaf":
        return H.RECIPES[node["recipe"]].cls.__name__
    if t in ("probe", "semseg_probe"):
        return f"probe<{node['tag']}>"
    if t in ("compose", "semseg_seq"):
        e = node.get("late")
        ed = f" +{e['op']}@{e.get('pos')}:{brief_tree(e['member'])}" if e else ""
        if node.get("edit"):
            ed += f" (member {node['edit'].get('pos', 0)} arrived after construction: {node['edit']['mode']})"
        return ("List" if node.get("implicit") else "Compose") + "[" + ", ".join(brief_tree(m) for m in node["members"]) + ed + "]"
    if t == "random_apply":
        return f"RandomApply(p={node['p']}, {brief_tree(node['child'])})"
    if t == "patchwise":
        return f"Patchwise({brief_tree(node['child'])})"
    if t == "scheduled":
        return f"Scheduled({brief_tree(node['child'])})"
    return t


def sched_reachable_only_through_compose(tree):
    """True iff every scheduled node of the tree is reached from the root through compose nodes only (the worker hook of
    the repository initialises schedules through compose members; schedules nested below other containers are not
    driven, see ASSUMPTIONS)"""
    def walk(n, ok):
        if n["t"] == "scheduled":
            if not ok:
                return False
            return walk(n["child"], False)
        if n["t"] in ("compose", "semseg_seq"):
            return all(walk(m, ok) for m in n["members"])
        if n["t"] in ("random_apply", "patchwise"):
            return walk(n["child"], False)
        return True
    return walk(tree, True)


def sched_children_scalable(tree):
    """every leaf below a scheduled node accepts scale_strength (the hook activates every schedule)"""
    def walk(n, under):
        if n["t"] == "leaf":
            return (not under) or H.RECIPES[n["recipe"]].strength_ok
        if n["t"] in ("compose", "semseg_seq"):
            return all(walk(m, under) for m in n["members"])
        if n["t"] in ("random_apply", "patchwise"):
            return walk(n["child"], under)
        if n["t"] == "scheduled":
            return walk(n["child"], True)
        return True
    return walk(tree, False)


def has_sched(tree):
    return any(n["t"] == "scheduled" for n in tree_nodes(tree))


def _nested_patchwise(tree, inside=False):
    """patchwise below patchwise multiplies the number of member calls (up to 24 x 24 per sample): cost bound of a case"""
    if tree["t"] == "patchwise":
        return inside or _nested_patchwise(tree["child"], True)
    if tree["t"] in ("compose", "semseg_seq"):
        return any(_nested_patchwise(m, inside) for m in tree["members"])
    if tree["t"] in ("random_apply", "scheduled"):
        return _nested_patchwise(tree["child"], inside)
    return False


def gen_tree(rng, T, depth):
    """random composition of real transforms for input type T that can be driven inside a dataloader worker (h07 marks about a
    third of its composes as edited after construction: a member appended / inserted / swapped into `.transforms` afterwards)"""
    flags = {"constructible": ()}
    for attempt in range(8):
        f = dict(flags, under_schedule=True) if attempt >= 2 else flags
        tree, outT = H.gen_composition(rng, T, depth, f)
        if sched_reachable_only_through_compose(tree) and sched_children_scalable(tree) and not _nested_patchwise(tree):
            return tree, outT
    tree, outT = H.gen_composition(rng, T, 0, flags)
    return tree, outT


# ------------------------------------------------------------------------------------------------ stack building
def stack_nodes(node):
    yield node
    if "child" in node:
        yield from stack_nodes(node["child"])
    for ch in node.get("children", []):
        yield from stack_nodes(ch)


def stack_trees(node):
    """all transform trees of a stack spec"""
    for n in stack_nodes(node):
        if n["k"] == "xt":
            yield n["tree"]
        elif n["k"] == "mv":
            for c in n["configs"]:
                if c.get("tree") is not None:
                    yield c["tree"]
        elif n["k"] == "semseg":
            yield from n["members"]


def build_collator(c):
    if c["c"] == "draw":
        return DrawCollator(tag=c.get("tag", "collator"))
    if c["c"] == "mix":
        from kappadata.collators import KDMixCollator
        return KDMixCollator(**c["kw"])
    if c["c"] == "compose":      # a composite registered on the root: only forwards set_rng to its members
        from kappadata.collators import KDComposeCollator
        return KDComposeCollator([build_collator(m) for m in c["members"]], dataset_mode=c["mode"], return_ctx=c.get("return_ctx", False))
    if c["c"] == "wrapper":
        from kappadata.collators.base.kd_single_collator_wrapper import KDSingleCollatorWrapper
        return KDSingleCollatorWrapper(build_collator(c["member"]), dataset_mode=c["mode"], return_ctx=c.get("return_ctx", False))
    raise ValueError(c)


def build_dataset(node, cache=None):
    """cache: nodes carrying a "rid" are built once per stack and shared by every chain that names them"""
    cache = {} if cache is None else cache
    rid = node.get("rid")
    if rid is not None and rid in cache:
        return cache[rid]
    ds = _build_dataset(node, cache)
    if rid is not None:
        cache[rid] = ds
    return ds


def _build_dataset(node, cache):
    import kappadata.wrappers as kw
    from kappadata.datasets.kd_concat_dataset import KDConcatDataset
    from kappadata.datasets.kd_subset import KDSubset
    k = node["k"]
    if k == "root":
        cols = [build_collator(c) for c in node.get("collators", [])]
        root = Root(node["n"], node["T"], node["data_seed"], onehot=node.get("onehot", False), collators=cols or None)
        cache.setdefault("__roots__", []).append(root)
        return root
    if k == "concat":
        return KDConcatDataset([build_dataset(ch, cache) for ch in node["children"]])
    child = build_dataset(node["child"], cache)
    if k == "xt":
        return kw.XTransformWrapper(dataset=child, transform=build_tree(node["tree"]))
    if k == "mv":
        from kappadata.wrappers.sample_wrappers.kd_multi_view_wrapper import KDMultiViewConfig
        shared = ("cfg", node["cfg"]) if node.get("cfg") else None
        mv_kw = {} if node.get("seed") is None else {"seed": node["seed"]}
        if shared is not None and shared in cache:     # ONE python list of configs handed to several wrappers
            return kw.KDMultiViewWrapper(dataset=child, configs=cache[shared], **mv_kw)
        configs = []
        for c in node["configs"]:
            t = build_tree(c["tree"]) if c.get("tree") is not None else None
            if c.get("plain"):
                t = plain_identity if c["plain"] == "fn" else PlainCallable()
            form = c.get("form", "config")
            if t is None:
                configs.append(c["n"] if form == "int" else dict(n_views=c["n"]))
            elif form == "config":
                configs.append(KDMultiViewConfig(n_views=c["n"], transform=t))
            elif form == "tuple":
                configs.append((c["n"], t))
            elif form == "dict":
                configs.append(dict(n_views=c["n"], transform=t))
            elif form == "bare":   # n_views defaults to 1
                configs.append(t)
            else:
                raise ValueError(form)
        if shared is not None:
            cache[shared] = configs
        return kw.KDMultiViewWrapper(dataset=child, configs=configs, **mv_kw)
    if k == "semseg":
        return kw.SemsegTransformWrapper(dataset=child, transforms=[build_tree(m) for m in node["members"]])
    if k == "mix":
        return kw.KDMixWrapper(dataset=child, mixup_p=1.0, mixup_alpha=0.8)
    if k == "common":
        import kappadata.common.wrappers as cw
        return getattr(cw, node["cls"])(dataset=child, **node.get("kw", {}))
    if k == "subset":
        return KDSubset(child, list(node["indices"]))
    if k == "shuffle":
        return kw.ShuffleWrapper(child, seed=node["seed"])
    if k == "repeat":
        return kw.RepeatWrapper(child, repetitions=node["times"])
    if k == "pass":
        return PassWrapper(child)
    raise ValueError(k)


def _collate_for(ds, node, ship=False, roots=()):
    """the collate function a user hands to the DataLoader for this ModeWrapper (from the root's registered collators;
    "collate_roots": from the collators registered on every member root - a KDConcatDataset itself reports none)"""
    from kappadata.collators import KDComposeCollator
    from kappadata.collators.base.kd_single_collator_wrapper import KDSingleCollatorWrapper
    if node.get("collate_roots"):
        cols = []
        for r in _roots_below(ds, roots):
            for c in r.collators:
                if not any(c is x for x in cols):
                    cols.append(c)
    else:
        cols = ds.collators
    inner = None
    if len(cols) > 0:
        cform = node.get("cform", "compose")
        if cform == "direct":       # the registered collator is itself a complete collate function (composite)
            inner = cols[0]
        elif cform == "single" and len(cols) == 1:
            cols[0].dataset_mode, cols[0].return_ctx = node["mode"], node.get("return_ctx", False)
            inner = cols[0]
        elif cform == "wrapper" and len(cols) == 1:
            inner = KDSingleCollatorWrapper(cols[0], dataset_mode=node["mode"], return_ctx=node.get("return_ctx", False))
        else:
            inner = KDComposeCollator(cols, dataset_mode=node["mode"], return_ctx=node.get("return_ctx", False))
    if ship:
        return Shipper(inner, seeded=any(n.get("seed") is not None for n in stack_nodes(node)))
    return inner


def _roots_below(ds, roots):
    """those of the built harness roots that are reachable from ds (in building order)"""
    seen, todo, found = set(), [ds], set()
    while todo:
        o = todo.pop()
        if id(o) in seen:
            continue
        seen.add(id(o))
        if isinstance(o, Root):
            found.add(id(o))
            continue
        for name in ("dataset", "stack"):
            if name in vars(o):
                todo.append(vars(o)[name])
        todo.extend(vars(o).get("datasets", []))
    return [r for r in roots if id(r) in found]


class Built:
    """a built stack: `dataset` (what the DataLoader gets), `collate` (collate_fn or None), for interleaved stacks the
    sampler; `hook_kwargs` = keyword arguments the worker hook needs (schedules)"""

    def __init__(self, dataset, collate, sampler=None, parts=None):
        self.dataset, self.collate, self.sampler, self.parts = dataset, collate, sampler, parts


def build_stack(top, ship=False):
    """top node -> Built. Global NumPy RNG is consumed by the constructors (by design of the library); the caller
    decides under which global seed this happens."""
    from kappadata.wrappers import ModeWrapper
    cache = {}
    if top["k"] == "mode":
        ds = ModeWrapper(build_dataset(top["child"], cache), mode=top["mode"], return_ctx=top.get("return_ctx", False))
        return Built(ds, _collate_for(ds, top, ship, cache.get("__roots__", ())))
    if top["k"] == "bare":      # no ModeWrapper on top
        ds = Bare(build_dataset(top["child"], cache))
        return Built(ds, _collate_for(ds, top, ship, cache.get("__roots__", ())))
    if top["k"] == "interleaved":
        from torch.utils.data import SequentialSampler
        from kappadata.samplers.interleaved_sampler import InterleavedSampler, InterleavedSamplerConfig
        parts = []
        for ch in top["children"]:
            ds = ModeWrapper(build_dataset(ch["child"], cache), mode=ch["mode"], return_ctx=ch.get("return_ctx", False))
            parts.append((ds, _collate_for(ds, ch, ship, cache.get("__roots__", ()))))
        B = top["batch_size"]
        sampler = InterleavedSampler(
            main_sampler=SequentialSampler(parts[0][0]), batch_size=B, epochs=top.get("epochs", 1), drop_last=False,
            main_collator=parts[0][1] or _plain_collate,
            configs=[InterleavedSamplerConfig(sampler=SequentialSampler(ds), collator=col or _plain_collate, batch_size=B,
                                              **({"every_n_updates": top["every_n_updates"]} if top.get("every_n_updates") else {"every_n_epochs": 1}))
                     for ds, col in parts[1:]],
        )
        return Built(sampler.dataset, sampler.collator, sampler=sampler, parts=parts)
    raise ValueError(top["k"])


def _plain_collate(batch):
    return list(batch)


# ------------------------------------------------------------------------------------------------ census
_WALK_MODULES = ("kappadata", "kdv", "tests_util", "__main__")


def _walkable(o):
    if inspect.isclass(o) or inspect.isroutine(o) or inspect.ismodule(o) or not hasattr(o, "__dict__"):
        return False
    return any((getattr(k, "__module__", "") or "").startswith(_WALK_MODULES) for k in type(o).__mro__)


class Entry:
    __slots__ = ("path", "gen", "chain")

    def __init__(self, path, gen, chain):
        self.path, self.gen, self.chain = path, gen, chain

    @property
    def state(self):
        return repr(self.gen.bit_generator.state)

    def raw(self, n=RAW_DRAWS):
        """the next n raw outputs of the generator's stream, without advancing it"""
        bg = self.gen.bit_generator
        st = bg.state
        try:
            return [int(v) for v in bg.random_raw(n)]
        finally:
            bg.state = st


def census(obj, max_nodes=50000):
    """bounded walk of the object graph (instance dictionaries, lists, tuples, dicts) -> [Entry]: every
    np.random.Generator reachable from obj, with *every* path under which it is reachable from distinct holders and the
    chain of holder objects (outermost first). Locates generators without knowing attribute names."""
    out, seen, stack, n = [], set(), [("", obj, ())], 0
    while stack and n < max_nodes:
        path, o, chain = stack.pop()
        n += 1
        if isinstance(o, np.random.Generator):
            out.append(Entry(path, o, chain))
            continue
        if isinstance(o, (str, bytes, int, float, bool, type(None), torch.Tensor, np.ndarray, Image.Image, np.generic)):
            continue
        if id(o) in seen:
            continue
        seen.add(id(o))
        if isinstance(o, (list, tuple)):
            for i, v in enumerate(o):
                stack.append((f"{path}[{i}]", v, chain))
        elif isinstance(o, dict):
            for k, v in o.items():
                stack.append((f"{path}[{k!r}]", v, chain))
        elif _walkable(o):
            for k, v in vars(o).items():
                stack.append((f"{path}.{k}", v, chain + (o,)))
    out.sort(key=lambda e: e.path)
    return out


_HOOK_METHODS = ("set_rng", "worker_init_fn", "_worker_init_fn")


def repo_class_name(o):
    """name of the repository class an object is blamed under: the first class in the MRO that lives in the repository;
    presets of kappadata.common that do not define a hook method themselves are named by the base class they configure
    (ByolMultiViewWrapper -> KDMultiViewWrapper, BYOLTransform0 -> KDComposeTransform); harness subclasses by their base"""
    for k in type(o).__mro__:
        mod = getattr(k, "__module__", "") or ""
        if not mod.startswith("kappadata"):
            continue
        if mod.startswith("kappadata.common") and not any(m in vars(k) for m in _HOOK_METHODS):
            continue
        return k.__name__
    return type(o).__name__


def _reseedable(o):
    return callable(getattr(o, "set_rng", None)) or callable(getattr(o, "worker_init_fn", None))


def blame_stale(ds, path, stale_paths, hook_kwargs):
    """diagnostics (names the mechanism, never decides): which class failed to pass the worker's generator on?
    Walks the holders of a stale generator from the outermost one inwards and asks each, through its public API
    (worker_init_fn for datasets, set_rng otherwise), to take a generator: the blamed class is the innermost holder that
    does not deliver it to this generator's owner although the next holder inside does."""
    ds = copy.deepcopy(ds)     # the probing below replaces generators: work on a throw-away copy
    entries = census(ds)
    entry = next((e for e in entries if e.path == path), None)
    if entry is None:
        return "unattributed"
    chain = [o for o in entry.chain if _reseedable(o) and not isinstance(o, Bare)]     # the harness adapter only forwards
    if not chain:
        return "unattributed"

    def takes(o):
        st = np.random.get_state()
        try:
            if isinstance(o, torch.utils.data.Dataset):
                o.worker_init_fn(0, **hook_kwargs)
            else:
                o.set_rng(np.random.default_rng(123456789))
            return id(entry.gen) not in {id(e.gen) for e in census(o)}
        except Exception:  # noqa: BLE001 - diagnostics only
            return False
        finally:
            np.random.set_state(st)

    # outermost holder that delivers a new generator to this place when asked directly: the holder around it did not
    # forward (the stack's own hook already failed to, so the outermost holder never "takes")
    for i, o in enumerate(chain):
        if takes(o):
            return repo_class_name(chain[i - 1] if i > 0 else o)
    return repo_class_name(chain[-1])


# ------------------------------------------------------------------------------------------------ simulated worker
@contextlib.contextmanager
def simulated_worker(rank, num_workers, base_seed, dataset):
    """what torch's worker loop does before it calls the user's worker_init_fn: seeds the three process-global RNGs from
    (base_seed, worker_id) and publishes the WorkerInfo that torch.utils.data.get_worker_info() returns"""
    from torch.utils.data._utils import worker as tw
    seed = base_seed + rank
    saved = (np.random.get_state(), torch.get_rng_state(), pyrandom.getstate(), getattr(tw, "_worker_info", None))
    pyrandom.seed(seed)
    torch.default_generator.manual_seed(seed)
    if hasattr(tw, "_generate_state"):
        np.random.seed(tw._generate_state(base_seed, rank))
    else:
        np.random.seed(seed % (2 ** 32))
    tw._worker_info = tw.WorkerInfo(id=rank, num_workers=num_workers, seed=seed, dataset=dataset)
    try:
        yield seed
    finally:
        tw._worker_info = saved[3]
        np.random.set_state(saved[0])
        torch.set_rng_state(saved[1])
        pyrandom.setstate(saved[2])


def hook_kwargs_for(top):
    """keyword arguments for worker_init_fn: only stacks holding a scheduled transform need (and get) them"""
    return dict(SCHED_KW) if any(has_sched(t) for t in stack_trees(top)) else {}


# ------------------------------------------------------------------------------------------------ real loader
def run_loader(built, top, W, B, torch_seed, hook_kwargs=None):
    """one pass over a real DataLoader with W forked workers -> list of (batch, log) in batch order"""
    from torch.utils.data import DataLoader
    PROBE_LOG.clear()
    torch.manual_seed(torch_seed)
    if built.sampler is not None:
        loader = built.sampler.get_data_loader(num_workers=W)
        assert loader.worker_init_fn is not None
        loader.multiprocessing_context = "fork"
        loader.timeout = 120
    else:
        init = built.dataset.worker_init_fn
        if hook_kwargs:
            init = functools.partial(init, **hook_kwargs)
        loader = DataLoader(built.dataset, batch_size=B, num_workers=W, worker_init_fn=init, collate_fn=built.collate,
                            multiprocessing_context="fork", shuffle=False, timeout=120)
    return [b for b in loader]
